#!/bin/bash
# tools/rerun_old_base.sh <seed id>...
# For kept seeds whose patch no longer applies to /repo's HEAD (later `fix:` commits rewrote the same lines): re-run them on
# the newest /repo commit the patch still applies to.  That older commit still has the defects repaired since, so the check
# reports those as well; a seed counts as caught when the check reports a mechanism that the *unseeded* older commit does not.
# Prints: <id> caught-on-<commit> <new mechanisms> | MISSED-on-<commit> | noapply-anywhere
cd "$(dirname "$0")/.."
V=$PWD
W=${SEEDTEST:-/tmp/seedtest7}
if [ ! -d "$W" ]; then
  git -C /repo worktree add -q --detach "$W" HEAD
fi
mechs() { grep '^VIOLATION' | sed 's/.*replay=[^ ]*\/C[0-9]*\///; s/-[0-9a-f]*\.json//' | sort -u; }
for s in "$@"; do
  prop=${s%_*}
  base=
  for c in $(git -C /repo log --format=%h); do
    git -C $W reset -q --hard; git -C $W checkout -q --detach $c
    if git -C $W apply --check $V/seeded/$s/patch.diff 2>/dev/null; then base=$c; break; fi
  done
  if [ -z "$base" ]; then echo "$s noapply-anywhere"; continue; fi
  (cd $W && /venv/bin/python setup.py -q build_ext --inplace --force >/dev/null 2>&1)
  cache=/tmp/oldbase_${base}_${prop}.mechs
  if [ ! -s "$cache" ]; then
    VERIF_REPO=$W VERIF_BUILD=${W}_build ./check $prop --no-evidence 2>&1 | mechs > $cache
    [ -s "$cache" ] || echo "(none)" > $cache
  fi
  git -C $W apply $V/seeded/$s/patch.diff
  if git -C $W diff HEAD --name-only | grep -q '\.[ch]$'; then (cd $W && /venv/bin/python setup.py -q build_ext --inplace --force >/dev/null 2>&1); fi
  new=$(VERIF_REPO=$W VERIF_BUILD=${W}_build ./check $prop --no-evidence 2>&1 | mechs | comm -23 - $cache | head -4 | paste -sd,)
  if [ -n "$new" ]; then echo "$s caught-on-$base $new"; else echo "$s MISSED-on-$base"; fi
done
git -C $W reset -q --hard; git -C $W checkout -q --detach $(git -C /repo rev-parse HEAD)
