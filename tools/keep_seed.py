#!/usr/bin/env python3
"""tools/keep_seed.py <src dir> <seed id> <property> <first verdict: caught|missed> <caught by (mech keys)> <strengthening or -> 
Copies patch.diff/demo.py/notes.md into /verif/seeded/<seed id>/ and writes meta.json."""
import json
import os
import shutil
import sys

HERE = os.path.dirname(os.path.dirname(os.path.abspath(__file__)))
src, sid, prop, first, caught_by, strengthening = sys.argv[1:7]
dst = os.path.join(HERE, "seeded", sid)
os.makedirs(dst, exist_ok=True)
for f in ("patch.diff", "demo.py", "notes.md"):
    if os.path.exists(os.path.join(src, f)):
        shutil.copy(os.path.join(src, f), os.path.join(dst, f))
notes = ""
if os.path.exists(os.path.join(dst, "notes.md")):
    notes = open(os.path.join(dst, "notes.md")).read()
meta = dict(
    seed=sid, property=prop,
    origin="written by an independent sub-agent that saw only the property text and a scratch worktree of /repo (nothing from /verif)",
    needs_to_manifest=notes[:1500],
    confirmed=["patch applies to /repo HEAD (git apply --3way) in a scratch worktree",
               "demo.py exits 0 on the unchanged tree and non-zero with the change (tools/run_seed.sh)",
               "sub-agent ran the upstream suite with and without the change: identical failing set (see notes.md)"],
    ran=f"tools/run_seed.sh {sid} {prop}  (scratch worktree /tmp/seedtest, VERIF_REPO/VERIF_BUILD overrides)",
    first_verdict=first,
    caught_by=[m for m in caught_by.split(",") if m],
    strengthening=None if strengthening == "-" else strengthening,
)
with open(os.path.join(dst, "meta.json"), "w") as f:
    json.dump(meta, f, indent=1)
print("kept", sid)
