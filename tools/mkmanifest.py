#!/usr/bin/env python3
"""Generate MANIFEST.json from the check modules' metadata (keeps it valid at all times)."""
import importlib
import json
import os
import sys

HERE = os.path.dirname(os.path.dirname(os.path.abspath(__file__)))
sys.path.insert(0, HERE)

ALL = [f"C{i:02d}" for i in range(1, 21)]
NA_REASONS = {}


def main():
    checks = []
    na = []
    for pid in ALL:
        path = os.path.join(HERE, "checks", pid.lower() + ".py")
        if not os.path.exists(path):
            na.append(dict(property_id=pid, reason=NA_REASONS.get(
                pid, "check not built yet (work in progress; technique applies, see DESIGN.md section 3)")))
            continue
        mod = importlib.import_module("checks." + pid.lower())
        c = dict(
            property_id=pid,
            quick_cmd=f"./check {pid} --tier quick",
            thorough_cmd=f"./check {pid} --tier thorough",
            evidence_file=f"/verif/evidence/{pid}.json",
            replay_cmd_template=f"./check {pid} --replay {{path}}",
            engine=getattr(mod, "ENGINE", "vkernel"),
            level_claimed=dict(category=mod.LEVEL, text=getattr(mod, "LEVEL_TEXT", mod.RULE),
                               design_ref=f"DESIGN.md section 3, {pid}"),
            level_note="; ".join(getattr(mod, "ASSUMPTIONS", [])),
            technique=mod.TECHNIQUE,
        )
        checks.append(c)
    man = dict(
        version=1,
        setup_cmd="/venv/bin/python -B -m vlib.overlay plain asan",
        hooks=dict(
            guard="PSUTIL_VERIF",
            enable="no source hooks: monitors attach from outside (module attributes, os.* wrappers, "
                   "sys.settrace, LD_PRELOAD ASan runtime); checks rebuild the C extension from /repo's "
                   "working tree into /verif/.build via the repository's setup.py",
            baseline_off_cmd="cd /repo && /venv/bin/python -m pytest -ra -q -p no:cacheprovider --timeout=900 "
                             "--continue-on-collection-errors",
            source_commits=[],
            add_only=True,
        ),
        engines=[
            dict(name="vkernel", path="vlib/vkernel.py", serves_properties=ALL[:16] + ["C19"],
                 kind_free_text="simulated kernel under the unmodified psutil code: virtual procfs, /sys redirect, "
                                "access log + fault plans, syscall sinks, virtual clock"),
            dict(name="sched", path="vlib/sched.py", serves_properties=["C04", "C07", "C10", "C16"],
                 kind_free_text="deterministic line-granularity two-thread scheduler (sys.settrace)"),
            dict(name="sanbuild", path="vlib/overlay.py", serves_properties=["C17", "C18"],
                 kind_free_text="ASan+UBSan build of the C extension, LD_PRELOADed runtime"),
            dict(name="platstub", path="vlib/platstub.py", serves_properties=["C20"],
                 kind_free_text="foreign platform Python layers imported on Linux over stub native modules"),
        ],
        checks=checks,
        not_applicable=na,
        notes="All checks are runtime monitors over executions of the real psutil code; see DESIGN.md.",
    )
    with open(os.path.join(HERE, "MANIFEST.json"), "w") as f:
        json.dump(man, f, indent=1)
    print(f"{len(checks)} checks, {len(na)} not yet claimed")


if __name__ == "__main__":
    main()
