#!/usr/bin/env python3
"""Rewrite the status=fixed entries of known_findings.json from /repo's 'fix:' commits (hash by subject)."""
import json
import os
import subprocess

HERE = os.path.dirname(os.path.dirname(os.path.abspath(__file__)))
FIXED = [
    # (property, mechanism keys that the check would print if the defect returned, commit subject prefix, what failed)
    ("C01", ["delivered_to_new_owner:after_object_saw_pid_free:sig", "delivered_to_new_owner:after_object_saw_pid_free:set",
             "no_NoSuchProcess_for_gone_target:after_object_saw_pid_free:sig", "no_NoSuchProcess_for_gone_target:after_object_saw_pid_free:set"],
     "fix: never signal or change a PID that was seen gone", "exit+reap -> is_running()/failed kill -> pid reused -> kill()/nice()/ionice()/... reach the new owner"),
    ("C01", ["pid0_setting_reached_the_caller:nice", "pid0_setting_reached_the_caller:ionice", "pid0_setting_reached_the_caller:affinity"],
     "fix: nice(), ionice() and cpu_affinity() setters on PID 0", "Process(0).nice(5) with PID 0 listed -> setpriority(PRIO_PROCESS, 0) renices the caller"),
    ("C02", ["is_running_False_want_True:after_clock_step", "eq_False_want_True:after_clock_step"],
     "fix: boot_time() after a system clock update", "btime step + boot_time() -> same live process compares unequal, is_running() False"),
    ("C02", ["is_running_False_want_True:after_clock_step:boot_time_zero:fresh_interpreter", "eq_False_want_True:after_clock_step:boot_time_zero:fresh_interpreter"],
     "fix: a boot time of 0 was not taken from the frozen snapshot", "btime 0 (clock at the epoch), then the clock is set: same live process unequal, is_running() False"),
    ("C03", ["leak:PermissionError:children", "leak:PermissionError:children_rec"],
     "fix: Process.children() leaked a bare PermissionError", "EACCES on /proc/<pid>/stat inside ppid_map()"),
    ("C03", ["malformed_value:threads:empty_list"], "fix: _raise_if_not_alive() probes /proc/PID/stat",
     "threads() of a process in the #2418 teardown window (directory listed, files gone) returned []"),
    ("C03", ["error_without_fault:NoSuchProcess:environ", "error_without_fault:NoSuchProcess:as_dict"],
     "fix: environ() raised NoSuchProcess for live kernel threads",
     "kernel 6.18: open('/proc/2/environ') -> ESRCH -> Process(2).environ() raises NoSuchProcess for live kthreadd; process_iter(attrs=['environ']) drops every kernel thread"),
    ("C04", ["pid_exists_raised:exc:OverflowError:pid_beyond_C_int"], "fix: pid_exists() raised OverflowError", "pid_exists(2**31)"),
    ("C04", ["concurrent_iter_exception:KeyError"], "fix: process_iter() from two threads could raise KeyError",
     "two iterators after a flagged reuse, one pre-emption"),
    ("C05", ["children_contains_caller:selfloop", "children_rec_contains_caller:selfloop", "children_rec_contains_caller:cycle"],
     "fix: children() must not return the process itself", "self-parented entry / cycle through the caller"),
    ("C05", ["parents_raised_NoSuchProcess_of_an_ancestor:midwalk_vanish"], "fix: parents() raised NoSuchProcess for an ancestor that exited during the walk",
     "an ancestor already collected exits before its own parent() is asked: NoSuchProcess(pid=<ancestor>) from parents() of a live process"),
    ("C06", ["threads_wrong:rparen_in_thread_name"], "fix: Process.threads() returned wrong CPU times", "thread name containing ')'"),
    ("C06", ["uids_wrong:status_regex_matches_Name_line", "gids_wrong:status_regex_matches_Name_line",
             "num_threads_wrong:status_regex_matches_Name_line"], "fix: uids(), gids() and num_threads() could be spoofed",
     "process named 'Uid:\\t0\\t0\\t0' (live reproducer via prctl(PR_SET_NAME))"),
    ("C06", ["terminal_wrong:pty_created_after_first_call"], "fix: terminal() returned None for a terminal created after the first call",
     "get_terminal_map() memoized for the life of the interpreter: a pty allocated later is unknown"),
    ("C07", ["cpu_times_wrong:after_procfs_switch", "cpu_times_exception:TypeError:after_procfs_switch"],
     "fix: cpu_times() kept the field layout of another PROCFS_PATH", "PROCFS_PATH moved to a procfs with another CPU field count and back"),
    ("C07", ["cpu_percent_exception:AssertionError:after_procfs_switch", "cpu_times_percent_exception:AssertionError:after_procfs_switch",
             "cpu_percent_exception:AttributeError:after_procfs_switch", "cpu_times_percent_exception:AttributeError:after_procfs_switch"],
     "fix: cpu_percent() / cpu_times_percent() raised AssertionError after PROCFS_PATH moved",
     "PROCFS_PATH pointed at a procfs whose /proc/stat has another field count -> the first call of each percent form raises AssertionError (a follow-on of the earlier cpu_times() layout repair)"),
    ("C08", ["vm_exception:BytesWarning"], "fix: virtual_memory() raised BytesWarning under python -bb",
     "python -bb, MemAvailable absent/0 and one of Active(file)/Inactive(file)/SReclaimable absent -> virtual_memory() raises BytesWarning instead of the free + cached fallback"),
    ("C10", ["value_mismatch:alternating_perdisk", "total_mismatch:alternating_perdisk", "counter_decreased:alternating_perdisk",
             "value_mismatch:after_all_devices_vanished", "total_mismatch:after_all_devices_vanished",
             "counter_decreased:after_all_devices_vanished"],
     "fix: disk_io_counters(nowrap=True) lost or kept wrap history", "alternating perdisk forms; all disks vanish then return"),
    ("C10", ["value_mismatch:after_all_devices_vanished", "total_mismatch:after_all_devices_vanished"],
     "fix: net_io_counters(nowrap=True) kept the history of NICs", "all NICs vanish then return"),
    ("C10", ["value_mismatch:after_caller_mutated_result", "counter_decreased:after_caller_mutated_result",
             "total_mismatch:after_caller_mutated_result"],
     "fix: nowrap history was the very dict handed back by the first call",
     "caller pops 'lo' from the first net_io_counters(pernic=True) result; the counter wraps; the next call goes backwards"),
    ("C10", ["older_snapshot_processed_after_newer_one_counts_as_wrap"],
     "fix: concurrent nowrap callers could count an older snapshot as a wrap",
     "thread A samples, thread B samples later and records first: A's numbers look like wraps, every later result is inflated"),
    ("C11", ["unix_path_with_space_lost"], "fix: net_connections() returned an empty laddr for UNIX sockets", "UNIX socket bound to a path with a space"),
    ("C11", ["unix_shared_between_processes_holder_lost"], "fix: net_connections() reported only one holder", "UNIX socket inherited through fork()"),
    ("C11", ["unix_path_with_space_lost:unix_name_with_leading_whitespace", "laddr_wrong:unix:unix_name_with_leading_whitespace"],
     "fix: net_connections() dropped leading white space of a UNIX socket path", "UNIX socket bound to ' lead' / '\\tTab' / ' '"),
    ("C11", ["laddr_wrong:unix:unix_name_with_carriage_return", "row_unexpected:unix:unix_name_with_carriage_return",
             "exception:RuntimeError:unix_name_with_carriage_return"],
     "fix: a carriage return in a UNIX socket path broke net_connections()",
     "UNIX socket bound to 'a\\rb' -> 'a\\r'; bound to 'a\\r b c' -> RuntimeError('malformed line') for everybody"),
    ("C11", ["laddr_wrong:unix:unix_name_with_line_feed", "row_unexpected:unix:unix_name_with_line_feed",
             "exception:RuntimeError:unix_name_with_line_feed"],
     "fix: a line feed in a UNIX socket path broke net_connections()",
     "UNIX socket bound to 'a\\nb' -> 'a'; bound to 'a\\nb c' -> RuntimeError('malformed line') for everybody (reported by a round-14 reviewer)"),
    ("C12", ["cmdline_cr_translated_to_lf", "environ_cr_translated_to_lf"], "fix: cmdline() and environ() turned carriage returns",
     "argument / variable containing \\r"),
    ("C13", ["memory_maps_path_wrong:trailing_whitespace_stripped"], "fix: memory_maps() stripped trailing whitespace", "mapped file whose name ends in a space"),
    ("C14", ["open_files_keyerror_access_mode_3"], "fix: open_files() raised KeyError", "fd opened with access mode 3 (live reproducer)"),
    ("C14", ["io_counters_exception:ValueError:nonnumeric_value_line"], "fix: io_counters() raised ValueError", "extra 'name: non-number' line in /proc/<pid>/io"),
    ("C12", ["name_wrong:15_byte_comm:non_ascii"], "fix: name() counted characters, not bytes, to tell a truncated name",
     "15-byte name made of multi-byte characters (or cut inside one) is never completed from cmdline()[0]"),
    ("C15", ["negative_timeout_accepted:popen_after_exit"], "fix: Popen.wait() accepted a negative timeout once the status was known",
     "psutil.Popen: wait(-1) after wait()/poll()/communicate() returns the code instead of raising ValueError"),
    ("C16", ["inblock_value_older_than_block_entry", "plain_call_value_older_than_call", "inblock_values_differ_for_one_source"],
     "fix: oneshot() cache could serve a value read before the block started", "3-pre-emption schedule: value computed in block 1 stored into block 2's cache"),
    ("C17", ["users_field_wrong:user:full_width_unterminated_field", "users_field_wrong:terminal:full_width_unterminated_field",
             "users_field_wrong:user+terminal:full_width_unterminated_field", "users_field_wrong:host:full_width_unterminated_field"],
     "fix: users() read past the end of full-width utmp fields", "ut_user/ut_line filled to 32 bytes"),
    ("C17", ["cext_disk_partitions_unicode_error:non_utf8_type_or_options"], "fix: disk_partitions() failed on a mount entry with non-UTF-8 options",
     "mount entry whose type/options hold bytes that are not UTF-8 -> UnicodeDecodeError for the whole table"),
    ("C17", ["ubsan:proc.c:left_shift"], "fix: undefined behaviour (signed shift) in proc_ioprio_set()", "ionice(2**18, 0) / negative class"),
    ("C17", ["ubsan:net.c:left_shift"], "fix: signed integer overflow when a NIC reports an unknown speed", "net_if_duplex_speed('eth0') on this sandbox"),
    ("C18", ["affinity_nonexistent_cpus_not_ValueError:OverflowError"], "fix: cpu_affinity() raised OverflowError", "cpu_affinity([2**70])"),
    ("C17", ["net_if_exception:UnicodeDecodeError:non_ascii_interface_name", "net_if_exception:UnicodeEncodeError:non_ascii_interface_name"],
     "fix: net_if_addrs() and net_if_stats() failed for the whole table when a NIC name is not UTF-8",
     "ip link add $'caf\\xe9' type veth ... -> net_if_addrs() UnicodeDecodeError, net_if_stats() UnicodeEncodeError, every interface lost"),
    ("C19", ["thermal_trip_point_rescaled"], "fix: sensors_temperatures() divided thermal zone thresholds", "zone with >= 2 trip points"),
    ("C19", ["battery_exception:FileNotFoundError:no_power_supply_class_dir"], "fix: sensors_battery() raised FileNotFoundError", "no /sys/class/power_supply"),
    ("C19", ["cpu_freq_current_off_by_1khz:cpuinfo_mhz_float_truncation"], "fix: cpu_freq() truncated the /proc/cpuinfo frequency", "cpu MHz 1034.091"),
    ("C19", ["cpu_count_logical_wrong:arm_old"], "fix: cpu_count() counted the ARM 'Processor : <model>' line", "old-ARM /proc/cpuinfo with sysconf failing: 2 CPUs -> 3"),
    ("C19", ["cpu_freq_percpu_length_wrong:s390x_static_mhz_line"], "fix: cpu_freq() listed every s390x CPU twice", "'cpu MHz dynamic' + 'cpu MHz static' per CPU"),
    ("C19", ["fans_exception:ValueError:unreadable_or_missing_input_present"], "fix: sensors_fans() failed on a fan whose reading cannot be parsed", "empty / 'N/A' fanN_input"),
    ("C20", ["malformed_exception:netbsd"], "fix: NetBSD cmdline() raised a NoSuchProcess that could not be printed",
     "ppid() earlier, process gone, cmdline() gets EINVAL: NoSuchProcess(msg=<ppid>) whose str() raises TypeError"),
    ("C20", ["windows_broadcast_discarded"], "fix: net_if_addrs() on Windows computed the broadcast address", "192.168.1.10/255.255.255.0 -> broadcast None"),
    ("C20", ["doc_unqualified_name_missing:STATUS_WAKE_KILL", "doc_promised_name_missing:netbsd:STATUS_SUSPENDED"],
     "fix: export the documented STATUS_WAKE_KILL and STATUS_SUSPENDED", "psutil.STATUS_WAKE_KILL -> AttributeError although documented and returned by status()"),
    ("C20", ["sunos_terminal_ignores_PRNODEV"], "fix: SunOS Process.terminal() ignored PRNODEV", "ttynr == PRNODEV with /proc/<pid>/path/0 readable"),
]


def main():
    log = subprocess.run(["git", "-C", os.environ.get("VERIF_REPO", "/repo"), "log", "--format=%h %s"], stdout=subprocess.PIPE, text=True).stdout
    commits = [ln.split(" ", 1) for ln in log.splitlines()]
    path = os.path.join(HERE, "known_findings.json")
    with open(path) as f:
        data = json.load(f)
    data["findings"] = [e for e in data["findings"] if e.get("status") != "fixed"]
    missing = []
    for prop, keys, subj, what in FIXED:
        h = next((c for c, s in commits if s.startswith(subj)), None)
        if h is None:
            missing.append(subj)
            continue
        data["findings"].append(dict(property=prop, status="fixed", commit=h, subject=next(s for c, s in commits if c == h),
                                     keys=keys, what=what,
                                     line=f"fixed: property={prop} {h} {what}"))
    with open(path, "w") as f:
        json.dump(data, f, indent=1)
    print(f"{sum(1 for e in data['findings'] if e['status'] == 'fixed')} fixed entries; missing commits: {missing}")


if __name__ == "__main__":
    main()
