#!/bin/bash
# tools/rerun_seeds.sh [seed ids...]  - re-run every kept seeded change against its property's check (quick tier);
# prints one line per seed: <id> caught|MISSED|noapply.  Uses its own scratch worktree (SEEDTEST, default /tmp/seedtest2).
cd "$(dirname "$0")/.."
export SEEDTEST=${SEEDTEST:-/tmp/seedtest2}
if [ ! -d "$SEEDTEST" ]; then
  git -C /repo worktree add -q --detach "$SEEDTEST" HEAD
  (cd "$SEEDTEST" && /venv/bin/python setup.py -q build_ext --inplace >/dev/null 2>&1)
fi
ids=${@:-$(ls seeded)}
for s in $ids; do
  prop=${s%_*}
  out=$(tools/run_seed.sh "$PWD/seeded/$s" "$prop" 2>&1)
  if echo "$out" | grep -q "PATCH DOES NOT APPLY"; then echo "$s noapply";
  elif echo "$out" | grep -q "^VIOLATION"; then echo "$s caught";
  else echo "$s MISSED $(echo "$out" | grep -E '^C[0-9]+ |INCONCL' | head -2 | tr '\n' ' ' | cut -c1-200)"; fi
done
