#!/bin/bash
# tools/run_seed.sh <seed dir with patch.diff + demo.py> <check id> [more check ids]
# Applies the seeded change to a scratch worktree of /repo's HEAD, confirms the demonstration, runs the checks.
d=$1; shift
W=${SEEDTEST:-/tmp/seedtest}
git -C $W reset -q --hard; git -C $W checkout -q -- . ; git -C $W clean -qfd -e '*.so' -e build >/dev/null
git -C $W checkout -q --detach $(git -C /repo rev-parse HEAD) 2>/dev/null
echo "## demo on clean tree:"; (cd $W && timeout 300 /venv/bin/python $d/demo.py >${W}_demo.out 2>&1; echo "exit=$?"; tail -2 ${W}_demo.out)
if ! git -C $W apply --3way $d/patch.diff 2>${W}_apply.err; then echo "PATCH DOES NOT APPLY"; cat ${W}_apply.err; git -C $W reset -q --hard; exit 3; fi
CCHANGED=0
if git -C $W diff HEAD --name-only | grep -q '\.[ch]$'; then CCHANGED=1; (cd $W && /venv/bin/python setup.py -q build_ext --inplace --force >/dev/null 2>&1); fi
echo "## demo with change:"; (cd $W && timeout 300 /venv/bin/python $d/demo.py >${W}_demo.out 2>&1; echo "exit=$?"; tail -2 ${W}_demo.out)
for c in "$@"; do
  echo "## check $c on changed tree:"
  VERIF_REPO=$W VERIF_BUILD=${W}_build ./check $c --no-evidence 2>&1 | grep -E "^VIOLATION|^C[0-9]+ |INCONCL|mechanism" | cut -c1-260
done
git -C $W checkout -q -- . ; git -C $W reset -q --hard
if [ $CCHANGED = 1 ]; then (cd $W && /venv/bin/python setup.py -q build_ext --inplace --force >/dev/null 2>&1); fi
