"""C03 - a process vanishing / turning zombie / being denied mid-call yields only psutil errors.

Fault enumeration: for every public Process operation the clean OS-access trace is recorded through
vkernel, then the operation is replayed on a fresh object with a fault placed at *every* access index.
"""
import errno
import itertools
import re
import signal

from vlib import harness

ID = "C03"
LEVEL = "fault_enumeration"
TECHNIQUE = ("runtime fault injection at every recorded OS access (vanish/zombify/EACCES/EPERM, pairs) with exception-contract monitor; "
             "on the real kernel too: a real child is killed (reaped / left a zombie) at each access point, first reads included")
RULE = ("real-kernel part: /proc is routed through the shim unchanged (redirect + read hooks), so the same plan indices exist; at index k a real child (threads, file, socket, grandchild; or single-threaded) is SIGKILLed and reaped, or left unreaped. one case = (operation, fixture, fault plan); fault plans enumerate every index k of the clean access "
        "trace of that operation: vanish-from-k, zombify-from-k, deny-at-k (EACCES, EPERM), on a live and on a "
        "zombie fixture, vanish of a relative (child/parent) for tree walkers, and all pairs deny-at-i + "
        "vanish-from-j>i; after every vanish all operations are called again on the same object. "
        "non-trivial = the planned fault actually fired (access log proves it); distinct by (op, fixture, plan)")
ASSUMPTIONS = [
    "'well-formed value' is read, for the per-entry collectors guarded by the hit_enoent bookkeeping the property anchors name (threads, "
    "open_files, net_connections), as: not silently cut short by the death of the process itself - everything was read before it died, or "
    "NoSuchProcess; entries that vanish individually are skipped as documented. An empty threads() list is never well-formed",
    "a second caller is modelled by running its call to completion, nested, at an access point of the first (no lock is involved in these paths)",
    "the kernel fails accesses to a vanished pid with ENOENT (open/listdir/stat/readlink) or ESRCH (read of an open file, syscalls)",
    "zombie fixture mirrors what a real zombie showed under root on this kernel (empty cmdline/smaps, ESRCH on environ/smaps_rollup, ENOENT on exe/cwd)",
    "'later queries raise NoSuchProcess' is asserted only for calls that perform >= 1 OS access (cached create_time()/exe() cannot know); is_running()->False, wait()->None, children()->[] are the documented non-raising answers",
    "cause/class matching only where unambiguous: live fixture + single deny => value or AccessDenied; vanish-only => value or NoSuchProcess",
    "halfvanish = the non-atomic teardown window of upstream issue #2418: /proc/<pid> still resolves while every file inside gives ENOENT (syscalls ESRCH); the window is closed before the 'later queries' are made",
    "faults are placed on per-process accesses (/proc/<pid>/..., kill, native per-pid calls), not on system-wide files",
]
REQUIRED_COUNTERS = ["faults_fired", "post_gone_calls", "shim_differential_getters_compared"]
SHARD_TIMEOUT = 1500

ATTRS_ITER = ["name", "ppid", "cpu_times", "open_files", "cmdline", "memory_full_info", "threads", "exe"]


def ops(ps):
    R = ps.RLIMIT_NOFILE
    o = [
        ("name", lambda p: p.name()), ("exe", lambda p: p.exe()), ("cmdline", lambda p: p.cmdline()),
        ("status", lambda p: p.status()), ("username", lambda p: p.username()),
        ("create_time", lambda p: p.create_time()), ("cwd", lambda p: p.cwd()),
        ("nice_get", lambda p: p.nice()), ("uids", lambda p: p.uids()), ("gids", lambda p: p.gids()),
        ("terminal", lambda p: p.terminal()), ("num_fds", lambda p: p.num_fds()),
        ("io_counters", lambda p: p.io_counters()), ("ionice_get", lambda p: p.ionice()),
        ("rlimit_get", lambda p: p.rlimit(R)), ("cpu_affinity_get", lambda p: p.cpu_affinity()),
        ("cpu_num", lambda p: p.cpu_num()), ("environ", lambda p: p.environ()),
        ("num_ctx_switches", lambda p: p.num_ctx_switches()), ("num_threads", lambda p: p.num_threads()),
        ("threads", lambda p: p.threads()), ("cpu_times", lambda p: p.cpu_times()),
        ("memory_info", lambda p: p.memory_info()), ("memory_full_info", lambda p: p.memory_full_info()),
        ("memory_percent", lambda p: p.memory_percent()), ("memory_percent_uss", lambda p: p.memory_percent("uss")),
        ("memory_maps", lambda p: p.memory_maps()), ("memory_maps_ungrouped", lambda p: p.memory_maps(grouped=False)),
        ("open_files", lambda p: p.open_files()),
        ("net_connections_all", lambda p: p.net_connections("all")),
        ("net_connections_inet", lambda p: p.net_connections()),
        ("ppid", lambda p: p.ppid()), ("cpu_percent", lambda p: p.cpu_percent()),
        ("is_running", lambda p: p.is_running()), ("as_dict", lambda p: p.as_dict()),
        ("as_dict_some", lambda p: p.as_dict(attrs=["name", "exe", "open_files", "threads", "ppid"])),
        ("children", lambda p: p.children()), ("children_rec", lambda p: p.children(recursive=True)),
        ("parent", lambda p: p.parent()), ("parents", lambda p: p.parents()),
        ("nice_set", lambda p: p.nice(5)), ("ionice_set", lambda p: p.ionice(ps.IOPRIO_CLASS_BE, 3)),
        ("rlimit_set", lambda p: p.rlimit(R, (512, 1024))), ("cpu_affinity_set", lambda p: p.cpu_affinity([0])),
        ("cpu_affinity_set_all", lambda p: p.cpu_affinity([])),      # documented: [] = all eligible CPUs (reads status)
        ("send_signal", lambda p: p.send_signal(signal.SIGTERM)), ("suspend", lambda p: p.suspend()),
        ("resume", lambda p: p.resume()), ("terminate", lambda p: p.terminate()), ("kill", lambda p: p.kill()),
        ("wait0", lambda p: p.wait(0)), ("repr", lambda p: repr(p)),
        ("oneshot_multi", _oneshot_multi),
        ("process_iter_attrs", None),
    ]
    return o


def _oneshot_multi(p):
    with p.oneshot():
        return (p.name(), p.cpu_times(), p.uids(), p.memory_full_info(), p.num_threads(), p.ppid())


# operations whose answer on the static fixture is a single figure/record (no partial lists, no substitution policy)
EXACT_UNDER_FAULT = {"name", "status", "username", "create_time", "nice_get", "uids", "gids", "terminal", "num_fds", "io_counters",
                     "ionice_get", "rlimit_get", "cpu_affinity_get", "cpu_num", "environ", "num_ctx_switches", "num_threads",
                     "cpu_times", "memory_info", "memory_full_info", "memory_percent", "memory_percent_uss", "ppid", "cmdline",
                     "cwd", "oneshot_multi"}
COLLECTORS = {"threads", "open_files", "net_connections_all", "net_connections_inet"}
NON_RAISING_AFTER_GONE = {"is_running", "wait0", "repr", "process_iter_attrs"}
TREE_OPS = {"children", "children_rec", "parent", "parents", "process_iter_attrs", "as_dict"}

_env = {}


def setup():
    if _env:
        return _env
    from vlib import fixtures, psu, vkernel
    ps = psu.load()
    ps.PROCFS_PATH = "/vproc"
    _env.update(ps=ps, vkernel=vkernel, fixtures=fixtures, ops=dict(ops(ps)))
    # warm system-wide caches so every run of an operation has the same access trace
    t, pid = fixtures.rich_table()
    vk = vkernel.VK()
    vk.table = t
    vk.mount("/vproc", t)
    with vk:
        ps.virtual_memory()
        ps.boot_time()
        ps.pids()
        ps.Process(pid).terminal()
    return _env


PROC_PATH = re.compile(r"^/vproc/(\d+)(/|$)")
ENTRY_PATH = re.compile(r"^/vproc/\d+/(fd|fdinfo|task)/(\d+)(/|$)")


def faultable(kind, path, pid):
    """Is this access a per-process access of `pid` (or a syscall on it)?"""
    if kind in ("kill", "waitpid") or kind.startswith("native:"):
        return f"({pid}" in path
    if path.startswith("/vmapped/"):
        return True           # files the process has mapped: consulted on its behalf (memory_maps)
    m = PROC_PATH.match(path)
    return bool(m) and int(m.group(1)) == pid


def shape(v):
    if isinstance(v, (list, tuple)) and not hasattr(v, "_fields"):
        return (type(v).__name__, tuple(sorted({shape(x) for x in v}, key=str)))
    if hasattr(v, "_fields"):
        return ("nt", type(v).__name__, v._fields)
    if isinstance(v, dict):
        return ("dict",)
    return type(v).__name__


def shape_compatible(got, clean):
    g, c = shape(got), shape(clean)
    if g == c:
        return True
    if isinstance(g, tuple) and isinstance(c, tuple) and g[0] == c[0] and g[0] in ("list", "tuple"):
        return set(g[1]) <= set(c[1]) or not g[1]
    if got is None or clean is None:
        return True   # optional results (parent(), terminal(), wait())
    if {type(got).__name__, type(clean).__name__} <= {"str"}:
        return True
    return False


def run_op(opname, fixture, plan, do_post=False):
    """Run one operation under a fault plan. plan: list of (k, action[, target]) relative to the op's trace."""
    env = setup()
    ps, vkernel = env["ps"], env["vkernel"]
    t, pid = env["fixtures"].rich_table(zombie=(fixture == "zombie"), kthread=(fixture == "kthread"))
    vk = vkernel.VK()
    vk.table = t
    vk.mount("/vproc", t)
    vk.mount("/vmapped", vkernel.MemFS({}))
    fired = []
    out = dict(fired=fired)
    with vk:
        ps.process_iter.cache_clear()
        pr = ps.Process(pid)
        base = len(vk.log)
        esrch_links = any(spec[1] == "opt:readlink_esrch" for spec in plan)
        for spec in plan:
            k, action = spec[0], spec[1]
            if action.startswith("opt:"):
                continue            # a marker, not an event
            target = spec[2] if len(spec) > 2 else pid

            def act(vk_, kind, path, action=action, target=target, k=k):
                fired.append((k, action, kind, path))
                if action == "vanish":
                    t.remove(target)
                    if esrch_links:
                        # kernels that answer readlink() on a link of a task that is gone with ESRCH rather than ENOENT
                        # (upstream issue #503; the library says it caters for both)
                        pfx = f"/vproc/{target}/"
                        vk_.rules.append(lambda kind_, path_: ProcessLookupError(errno.ESRCH, "No such process", path_)
                                         if kind_ == "readlink" and path_.startswith(pfx) else None)
                    return None
                if action == "othercall":
                    # what another thread of the program might be doing right now: the same kind of call for everybody /
                    # for another process, run to completion at this very point (no locks are involved, so a nested call
                    # is the same interleaving)
                    saved = dict(vk_.plan)
                    vk_.plan.clear()
                    try:
                        ps.net_connections("all")
                        ps.Process(60).threads()
                        ps.Process(60).open_files()
                    except Exception:  # noqa: BLE001
                        pass
                    finally:
                        shift = 0
                        vk_.plan.update(saved)
                    return None
                if action == "shrink":
                    # the entry this access is about goes away while the process lives on: a descriptor is closed, a thread ends
                    m = ENTRY_PATH.match(path)
                    pr_ = t.procs.get(target)
                    if m and pr_ is not None:
                        n_ = int(m.group(2))
                        if m.group(1) in ("fd", "fdinfo"):
                            pr_.fds.pop(n_, None)
                        elif n_ != target and pr_.threads:
                            pr_.threads = [th for th in pr_.threads if th.tid != n_]
                        fired[-1] = fired[-1] + ((m.group(1), n_),)
                    return None
                if action == "halfvanish":
                    if target in t.procs:
                        t.procs[target].half_gone = True
                    return None
                if action == "zombify":
                    if target in t.procs:
                        t.exit(target, 0)
                    return None
                code = errno.EACCES if action == "EACCES" else errno.EPERM
                return PermissionError(code, "injected", path)
            vk.plan[base + k] = act
        try:
            if opname == "process_iter_attrs":
                ret = [(p.pid, p.info) for p in ps.process_iter(attrs=ATTRS_ITER)]
            else:
                ret = env["ops"][opname](pr)
            out["outcome"] = ("value", ret)
        except ps.ZombieProcess as e:
            out["outcome"] = ("ZombieProcess", e.pid)
        except ps.NoSuchProcess as e:
            out["outcome"] = ("NoSuchProcess", e.pid)
            out["msg"] = str(e.msg)
        except ps.AccessDenied as e:
            out["outcome"] = ("AccessDenied", e.pid)
        except ps.TimeoutExpired as e:
            out["outcome"] = ("TimeoutExpired", e.pid)
        except BaseException as e:  # noqa: BLE001
            out["outcome"] = ("leak", f"{type(e).__name__}: {e}")
        out["trace"] = list(vk.log[base:])
        out["breaches"] = list(vk.breaches)
        vk.plan.clear()
        if do_post and pid in t.procs and getattr(t.procs[pid], "half_gone", False):
            t.remove(pid)        # the teardown window is over by the time a *later* query is made
        if do_post and pid not in t.procs:
            post = []
            # every later query, in an order that differs from plan to plan: what an earlier query learnt (and latched on the
            # object) must not be what makes a later one answer correctly
            later = list(env["ops"].items())
            k0 = int(harness.chash([opname, [list(x) for x in plan]])[-4:], 16) % len(later)
            for name, fn in later[k0:] + later[:k0]:
                if fn is None or name in ("oneshot_multi",):
                    continue
                n0 = len(vk.log)
                try:
                    r = fn(pr)
                    res = ("value", r)
                except ps.ZombieProcess as e:
                    res = ("ZombieProcess", e.pid)
                except ps.NoSuchProcess as e:
                    res = ("NoSuchProcess", e.pid)
                except ps.AccessDenied as e:
                    res = ("AccessDenied", e.pid)
                except BaseException as e:  # noqa: BLE001
                    res = ("leak", f"{type(e).__name__}: {e}")
                post.append((name, res, len(vk.log) - n0))
            out["post"] = post
    return out, pid


def judge(opname, fixture, plan, out, pid, clean_value, acc):
    """-> list of (mech, detail)"""
    viols = []
    kind, val = out["outcome"]
    actions = [p[1] for p in plan]
    fired_actions = [f[1] for f in out["fired"] if f[1] != "othercall"]
    own_targets = all((len(p) < 3 or p[2] == pid) for p in plan)
    desc = f"op={opname} fixture={fixture} plan={plan} fired={out['fired']} -> {kind}:{str(val)[:200]}"
    if out["breaches"]:
        viols.append(("kill_nonpositive_pid", desc + f" breaches={out['breaches']}"))
    if kind == "leak":
        exc = val.split(":")[0]
        site = out["fired"][-1][3] if out["fired"] else "nofault"
        site = re.sub(r"\d+", "N", site.replace("/vproc/", ""))
        mech = f"leak:{exc}:{opname}"
        if out["fired"] and out["fired"][-1][2] in ("lstat",) and out["fired"][-1][1] in ("EACCES", "EPERM") and site == "N":
            # the refused access is the lstat() of the /proc/<pid> directory itself (os.path.lexists swallows the refusal)
            mech += ":procdir_lstat_refused"
        viols.append((mech, desc + f" site={site}"))
        return viols
    if kind == "TimeoutExpired":
        if opname != "wait0":
            viols.append((f"unexpected_timeout:{opname}", desc))
        return viols
    if opname == "process_iter_attrs" and kind != "value":
        viols.append((f"process_iter_raised:{kind}", desc))
        return viols
    if kind in ("NoSuchProcess", "ZombieProcess", "AccessDenied"):
        if own_targets and val != pid:
            viols.append((f"wrong_pid_in_error:{opname}", desc))
        if not fired_actions:
            if fixture in ("live", "kthread"):
                viols.append((f"error_without_fault:{kind}:{opname}", desc))
            elif kind == "AccessDenied" or (kind == "NoSuchProcess"):
                viols.append((f"error_without_fault:{kind}:{opname}", desc))
            return viols
        if fixture in ("live", "kthread") and own_targets and len(plan) == 1:
            a = fired_actions[0]
            if a in ("EACCES", "EPERM") and kind != "AccessDenied":
                if "PID has been reused" in out.get("msg", ""):
                    viols.append(("single_deny_on_identity_recheck_reports_pid_reused", desc))
                else:
                    viols.append((f"single_deny_gives_{kind}:{opname}", desc))
            if a in ("vanish", "halfvanish") and kind != "NoSuchProcess":
                viols.append((f"vanish_gives_{kind}:{opname}", desc))
            if a == "zombify" and kind == "AccessDenied":
                viols.append((f"zombify_gives_{kind}:{opname}", desc))
        if fixture in ("live", "kthread") and not own_targets and len(plan) == 1:
            # a relative vanished/zombified: the caller itself is alive and well
            denied = fired_actions[0] in ("EACCES", "EPERM")
            if denied and kind == "AccessDenied":
                pass        # something *was* refused: AccessDenied naming the refused process is a correct report
            elif kind in ("NoSuchProcess", "ZombieProcess", "AccessDenied") and opname in ("children", "children_rec", "process_iter_attrs"):
                viols.append((f"relative_fault_escapes_{kind}:{opname}", desc))
            elif kind in ("NoSuchProcess", "ZombieProcess") and opname in ("parent", "parents") and not denied:
                # the caller is alive: that its parent (an ancestor) went away or became a zombie meanwhile is an answer
                # (None, a shorter chain), not an error about somebody else's pid
                viols.append((f"relative_fault_escapes_{kind}:{opname}", desc))
    else:
        acc.count("values_returned_under_fault")
        if clean_value is not None and not shape_compatible(val, clean_value):
            viols.append((f"malformed_value:{opname}", desc + f" clean={str(clean_value)[:120]}"))
        elif opname == "threads" and isinstance(val, (list, tuple)) and len(val) == 0:
            # every process has at least one thread: an empty list is not a well-formed answer (it is what is left when
            # the last thread's record could not be read and nothing re-checked that the process is still there)
            viols.append(("malformed_value:threads:empty_list", desc + f" clean={str(clean_value)[:120]}"))
        elif (clean_value is not None and opname in COLLECTORS and fired_actions in (["vanish"], ["halfvanish"]) and own_targets
              and repr(val) != repr(clean_value)):
            # the per-entry collectors skip entries that vanish and then re-check that the process itself is still there
            # (the hit_enoent bookkeeping named in the property's anchors): a list silently cut short by the death of the
            # *process* is not a well-formed answer for it - either everything was read before it died, or NoSuchProcess
            viols.append((f"partial_value_for_vanished_process:{opname}", desc + f" clean={str(clean_value)[:200]}"))
        elif (clean_value is not None and opname in COLLECTORS and fired_actions == ["shrink", "vanish"] and own_targets
              and len(out["fired"][0]) > 4):
            kind_, n_ = out["fired"][0][4]
            if kind_ == "task":
                expect = [x for x in clean_value if x.id != n_]
            else:
                expect = [x for x in clean_value if getattr(x, "fd", None) != n_]
            acc.count("entry_then_process_vanish_values_checked")
            if repr(list(val)) != repr(expect):
                viols.append((f"partial_value_for_vanished_process:{opname}:after_an_entry_vanished",
                              desc + f" want NoSuchProcess, or everything but {kind_} {n_}: {str(expect)[:200]}"))
        elif (clean_value is not None and opname in EXACT_UNDER_FAULT and fired_actions and own_targets
              and all(a in ("EACCES", "EPERM", "vanish") for a in fired_actions)):
            # a fault that is survived (documented fall-back, or it struck after the data was read) must not change
            # the answer: the fixture is static, every source of one figure agrees with the others
            acc.count("values_compared_with_clean_answer")
            if repr(val) != repr(clean_value):
                viols.append((f"value_changed_by_survived_fault:{opname}", desc + f" clean={str(clean_value)[:200]}"))
    for name, res, naccess in out.get("post", []):
        acc.count("post_gone_calls")
        rk, rv = res
        if rk == "leak":
            viols.append((f"post_gone_leak:{rv.split(':')[0]}:{name}", desc + f" then {name} -> {rv}"))
        elif rk in ("ZombieProcess", "AccessDenied"):
            viols.append((f"post_gone_{rk}:{name}", desc + f" then {name} -> {rk}"))
        elif rk == "NoSuchProcess":
            if rv != pid:
                viols.append((f"post_gone_wrong_pid:{name}", desc + f" then {name} -> NSP pid={rv}"))
        else:
            if name in NON_RAISING_AFTER_GONE:
                if name == "is_running" and rv is not False:
                    viols.append(("post_gone_is_running_true", desc))
                if name == "wait0" and rv is not None:
                    viols.append(("post_gone_wait_value", desc + f" wait -> {rv!r}"))
                if name.startswith("children") and rv != []:
                    viols.append(("post_gone_children_nonempty", desc + f" -> {rv!r}"))
            elif naccess > 0:
                viols.append((f"post_gone_value:{name}", desc + f" then {name} -> {str(rv)[:100]} after {naccess} accesses"))
            else:
                acc.count("post_gone_cached_answers")
    return viols


def cases_for(opname, fixture, tier):
    """Enumerate fault plans for (op, fixture) from the clean trace."""
    out, pid = run_op(opname, fixture, [])
    trace = out["trace"]
    clean = out["outcome"]
    plans = []
    own = [k for k, (kind, path) in enumerate(trace) if faultable(kind, path, pid)]
    n = len(trace)
    if fixture in ("live", "kthread"):
        for k in range(n):
            plans.append([(k, "vanish")])
            plans.append([(k, "zombify")])
            plans.append([(k, "halfvanish")])
        for k in own:
            plans.append([(k, "EACCES")])
            plans.append([(k, "EPERM")])
        if any(kind == "readlink" for kind, _ in trace):
            for k in range(n):
                plans.append([(k, "vanish"), (-1, "opt:readlink_esrch")])
        if opname in TREE_OPS:
            for rel in (60, 40, 70):
                for k in range(n):
                    plans.append([(k, "vanish", rel)])
                    plans.append([(k, "zombify", rel)])
            for k, (kind, path) in enumerate(trace):
                for rel in (60, 40):
                    if faultable(kind, path, rel):
                        plans.append([(k, "EACCES", rel)])
        if opname in COLLECTORS:
            # the process dies at i, and at a later point j another call of the same family runs to completion in between
            step = 1 if tier == "thorough" else 3
            for i in range(n):
                for j in sorted(set(range(i + 1, n, step)) | ({n - 1} if n - 1 > i else set())):
                    plans.append([(i, "vanish"), (j, "othercall")])
        if opname in COLLECTORS:
            # an entry goes away at i (the one-off "is the process still there?" is spent on it), the process itself at j
            entries = [k for k, (kind, path) in enumerate(trace) if ENTRY_PATH.match(path) and faultable(kind, path, pid)
                       and not path.endswith(f"/task/{pid}/stat")]
            for i in entries:
                for j in range(i + 1, n):
                    plans.append([(i, "shrink"), (j, "vanish")])
        pair_own = own if (tier == "thorough" or len(own) <= 12) else own[:12]
        for i in pair_own:
            for j in range(i + 1, n if (tier == "thorough" or n <= 14) else min(n, i + 6)):
                plans.append([(i, "EACCES"), (j, "vanish")])
                if tier == "thorough":
                    plans.append([(i, "EPERM"), (j, "vanish")])
    else:
        for k in own:
            plans.append([(k, "EACCES")])
            plans.append([(k, "EPERM")])
        for k in range(n):
            plans.append([(k, "vanish")])
    return plans, clean, n


def run_shimdiff(acc):
    """Shim self-validation: real /proc/<pid>/* of a sleeping child is snapshotted byte-for-byte into the virtual tree;
    every getter must answer through the shim exactly as it does on the live kernel. A disagreement is a harness
    bug (INCONCLUSIVE), never a psutil violation."""
    import os
    import subprocess
    import sys
    import time
    env = setup()
    ps, vkernel = env["ps"], env["vkernel"]
    code = ("import threading, time, socket, sys\n"
            "f = open(sys.argv[1], 'a'); s = socket.socket(); s.bind(('127.0.0.1', 0)); s.listen(1)\n"
            "t = threading.Thread(target=time.sleep, args=(1000,), daemon=True); t.start()\n"
            "print('ready', flush=True); time.sleep(1000)\n")
    tmpf = os.path.join(env["fixtures"].FX_DIR, "shimdiff.txt")
    child = subprocess.Popen([sys.executable, "-c", code, tmpf], stdout=subprocess.PIPE)
    try:
        child.stdout.readline()
        time.sleep(0.3)
        pid = child.pid
        fs = vkernel.MemFS()
        real = f"/proc/{pid}"

        def grab(rel):
            try:
                with vkernel.real_open(os.path.join(real, rel), "rb") as f:
                    fs.put(f"{pid}/{rel}", f.read())
            except OSError:
                missing.add(rel)
        missing = set()
        for rel in ("stat", "status", "cmdline", "environ", "statm", "io", "smaps", "smaps_rollup"):
            grab(rel)
        for link in ("exe", "cwd"):
            fs.put(f"{pid}/{link}", vkernel.L(os.readlink(os.path.join(real, link))))
        for fd in os.listdir(os.path.join(real, "fd")):
            try:
                fs.put(f"{pid}/fd/{fd}", vkernel.L(os.readlink(os.path.join(real, "fd", fd))))
                with vkernel.real_open(os.path.join(real, "fdinfo", fd), "rb") as f:
                    fs.put(f"{pid}/fdinfo/{fd}", f.read())
            except OSError:
                pass
        for tid in os.listdir(os.path.join(real, "task")):
            with vkernel.real_open(os.path.join(real, "task", tid, "stat"), "rb") as f:
                fs.put(f"{pid}/task/{tid}/stat", f.read())
        for rel in ("stat", "meminfo"):
            with vkernel.real_open("/proc/" + rel, "rb") as f:
                fs.put(rel, f.read())
        getters = ["name", "exe", "cmdline", "status", "create_time", "cwd", "uids", "gids", "terminal", "num_fds", "io_counters",
                   "environ", "num_ctx_switches", "num_threads", "threads", "cpu_times", "memory_info", "memory_full_info",
                   "memory_maps", "open_files", "ppid", "cpu_num"]

        # figures that move on a live system even for a sleeping process (pss depends on who else maps the page, counters
        # tick): compared structurally (field names, mapping paths), everything else byte for byte
        volatile = {"memory_maps": lambda v: sorted({m.path for m in v}), "memory_full_info": lambda v: v._fields,
                    "memory_info": lambda v: v._fields, "cpu_times": lambda v: v._fields, "num_ctx_switches": lambda v: v._fields,
                    "io_counters": lambda v: v._fields, "cpu_num": lambda v: type(v).__name__,
                    "threads": lambda v: sorted(t.id for t in v)}

        def collect(p):
            out = {}
            for g in getters:
                try:
                    v = getattr(p, g)()
                    out[g] = repr(volatile[g](v)) if g in volatile else repr(v)
                except Exception as e:  # noqa: BLE001
                    out[g] = "EXC " + type(e).__name__
            return out
        old = ps.PROCFS_PATH
        ps.PROCFS_PATH = "/proc"
        try:
            ps.boot_time()
            live1 = collect(ps.Process(pid))
        finally:
            ps.PROCFS_PATH = old
        vk = vkernel.VK()
        vk.mount("/vproc", fs)
        with vk:
            shim = collect(ps.Process(pid))
        ps.PROCFS_PATH = "/proc"
        try:
            live2 = collect(ps.Process(pid))
            ps.PROCFS_PATH = old
            t, _ = env["fixtures"].rich_table()
            v2 = vkernel.VK()
            v2.table = t
            v2.mount("/vproc", t)
            with v2:
                ps.boot_time()
        finally:
            ps.PROCFS_PATH = old
        bad = {g: (live1[g], shim[g], live2[g]) for g in getters if shim[g] != live1[g] and shim[g] != live2[g]}
        acc.count("shim_differential_getters_compared", len(getters))
        if bad:
            acc.inconclusive = f"shim self-validation failed (harness bug, not a psutil verdict): {bad}"
        acc.case(dict(kind="shimdiff"), False, ())
    finally:
        child.kill()
        child.wait()


# ---- real kernel: a real child is killed (and reaped, or left a zombie) at each access point of the call ------------

REAL_CHILD = ("import os, socket, sys, threading, time\n"
              "f = open(sys.argv[1], 'a'); s = socket.socket(); s.bind(('127.0.0.1', 0)); s.listen(1)\n"
              "for _ in range(2): threading.Thread(target=time.sleep, args=(1000,), daemon=True).start()\n"
              "import subprocess\n"
              "k = subprocess.Popen([sys.executable, '-S', '-c', 'import time; time.sleep(1000)'])\n"
              "print('ready', flush=True); time.sleep(1000)\n")
REAL_CHILD_SINGLE = "import time\nprint('ready', flush=True); time.sleep(1000)\n"
REAL_SKIP = {"process_iter_attrs", "send_signal", "suspend", "resume", "terminate", "kill", "wait0", "cpu_percent"}


def run_real_op(opname, k, action, do_post=False, single=False):
    """-> (out, pid, n_accesses). k None = clean run (counts the accesses)."""
    import os
    import subprocess
    import sys
    env = setup()
    ps, vkernel = env["ps"], env["vkernel"]
    tmpf = os.path.join(env["fixtures"].FX_DIR, "realfault.txt")
    os.makedirs(env["fixtures"].FX_DIR, exist_ok=True)
    envp = {kk: v for kk, v in os.environ.items() if kk != "LD_PRELOAD"}
    child = subprocess.Popen([sys.executable, "-S", "-c", REAL_CHILD_SINGLE if single else REAL_CHILD, tmpf], stdout=subprocess.PIPE, env=envp)
    fired = []
    out = dict(fired=fired, breaches=[])
    vk = vkernel.VK()
    vk.redirect("/proc", "/proc")
    vk.hook_reads = True
    old = ps.PROCFS_PATH
    ps.PROCFS_PATH = "/proc"
    grand = None
    try:
        child.stdout.readline()
        pid = child.pid
        try:
            grand = [int(x) for x in open(f"/proc/{pid}/task/{pid}/children").read().split()]
        except OSError:
            grand = []
        with vk:
            pr = ps.Process(pid)
            base = len(vk.log)
            if k is not None:
                def act(vk_, kind, path):
                    fired.append((k, action, kind, path))
                    os.kill(pid, 9)
                    if action == "vanish":
                        child.wait()
                    else:
                        import time
                        for _ in range(200):            # until the kernel shows it as a zombie
                            try:
                                with vkernel.real_open(f"/proc/{pid}/stat", "rb") as f:
                                    if f.read().rsplit(b")", 1)[1].split()[0] == b"Z":
                                        break
                            except OSError:
                                break
                            time.sleep(0.002)
                    return None
                vk.plan[base + k] = act
            try:
                out["outcome"] = ("value", env["ops"][opname](pr))
            except ps.ZombieProcess as e:
                out["outcome"] = ("ZombieProcess", e.pid)
            except ps.NoSuchProcess as e:
                out["outcome"] = ("NoSuchProcess", e.pid)
                out["msg"] = str(e.msg)
            except ps.AccessDenied as e:
                out["outcome"] = ("AccessDenied", e.pid)
            except ps.TimeoutExpired as e:
                out["outcome"] = ("TimeoutExpired", e.pid)
            except BaseException as e:  # noqa: BLE001
                out["outcome"] = ("leak", f"{type(e).__name__}: {e}")
            n = len(vk.log) - base
            out["trace"] = list(vk.log[base:])
            vk.plan.clear()
            if do_post and fired and action == "vanish":
                post = []
                for name, fn in env["ops"].items():
                    if fn is None or name in REAL_SKIP or name == "oneshot_multi":
                        continue
                    n0 = len(vk.log)
                    try:
                        res = ("value", fn(pr))
                    except ps.ZombieProcess as e:
                        res = ("ZombieProcess", e.pid)
                    except ps.NoSuchProcess as e:
                        res = ("NoSuchProcess", e.pid)
                    except ps.AccessDenied as e:
                        res = ("AccessDenied", e.pid)
                    except BaseException as e:  # noqa: BLE001
                        res = ("leak", f"{type(e).__name__}: {e}")
                    post.append((name, res, len(vk.log) - n0))
                out["post"] = post
    finally:
        ps.PROCFS_PATH = old
        for p_ in [child.pid] + (grand or []):
            try:
                os.kill(p_, 9)
            except OSError:
                pass
        child.wait()
        child.stdout.close()
    return out, pid, n


def run_realfault(shard, acc):
    todo = [(o, False) for o in shard["ops"]] + [(o, True) for o in shard["ops"] if o in ("threads", "num_threads", "as_dict_some")]
    for opname, single in todo:
        out0, pid, n = run_real_op(opname, None, None, single=single)
        acc.count("real_kernel_access_points", n)
        acc.extra.setdefault("real_access_points_per_op", {})[opname] = n
        v0 = judge(opname, "live", [], out0, pid, None, acc)
        acc.case(dict(op=opname, fixture="real", plan=[]), False, v0)
        ks = list(range(n)) if n <= shard.get("maxk", 16) else sorted(set(list(range(8)) + list(range(n - 6, n)) +
                                                                        list(range(8, n - 6, max(1, (n - 14) // 6)))))
        for action in ("vanish", "zombify"):
            for k in ks:
                out, pid, _n = run_real_op(opname, k, action, do_post=(action == "vanish"), single=single)
                if out["fired"]:
                    acc.count("faults_fired")
                    acc.count("real_kernel_faults_fired")
                    acc.count("fault_real_" + action)
                pl = [(k, action)]
                viols = judge(opname, "live", pl, out, pid, None, acc)
                viols = [(m, "REAL KERNEL " + d) for m, d in viols]
                case = dict(op=opname, fixture="real", plan=[[k, action]], single=single)
                acc.case(case, bool(out["fired"]), viols, sample=dict(case, outcome=str(out["outcome"])[:160],
                                                                      fired=[list(f) for f in out["fired"]]))


def run_held_iterator(acc):
    """The process goes away while the generator of process_iter(attrs=...) that yielded its object is still suspended (the
    caller is in the body of its for loop, or keeps the iterator): "once the process is gone every later query on that object
    raises NoSuchProcess" - whatever the library cached for the caller while it built `info`."""
    env = setup()
    ps, vkernel = env["ps"], env["vkernel"]
    for attrs in (["name", "status"], ["pid", "ppid", "cpu_times"], ["uids", "num_threads", "memory_maps"], []):
        for how in ("vanish", "zombify"):
            t, pid = env["fixtures"].rich_table()
            vk = vkernel.VK()
            vk.table = t
            vk.mount("/vproc", t)
            vk.mount("/vmapped", vkernel.MemFS({}))
            viols = []
            case = dict(kind="held_iterator", attrs=attrs, how=how)
            with vk:
                ps.process_iter.cache_clear()
                it = ps.process_iter(attrs=attrs)
                obj = None
                for p in it:
                    if p.pid == pid:
                        obj = p
                        break
                if obj is None:
                    acc.inconclusive = "held_iterator: the fixture process was not yielded"
                    return
                if how == "vanish":
                    t.remove(pid)
                else:
                    t.exit(pid, 0)
                later = [(n, f) for n, f in env["ops"].items() if f is not None and n not in ("oneshot_multi", "process_iter_attrs")]
                for name, fn in later:
                    acc.count("queries_on_an_object_yielded_by_a_suspended_process_iter")
                    try:
                        res = ("value", fn(obj))
                    except ps.ZombieProcess as e:
                        res = ("ZombieProcess", e.pid)
                    except ps.NoSuchProcess as e:
                        res = ("NoSuchProcess", e.pid)
                    except ps.AccessDenied as e:
                        res = ("AccessDenied", e.pid)
                    except BaseException as e:  # noqa: BLE001
                        res = ("leak", f"{type(e).__name__}: {e}")
                    if name in NON_RAISING_AFTER_GONE or name in ("create_time", "exe", "pid"):
                        continue        # documented not to raise / answers remembered for the life of the object
                    if res[0] == "leak":
                        viols.append((f"post_gone_leak:{res[1].split(':')[0]}:{name}:object_yielded_by_suspended_process_iter", f"{case} -> {res}"))
                    elif how == "vanish" and res != ("NoSuchProcess", pid):
                        viols.append((f"post_gone_value:{name}:object_yielded_by_suspended_process_iter", f"{case}: {name} -> {str(res)[:200]}"))
                    elif how == "zombify" and name == "status" and res != ("value", "zombie"):
                        viols.append(("zombie_status_stale:object_yielded_by_suspended_process_iter", f"{case}: status -> {str(res)[:100]}"))
                it.close()
                ps.process_iter.cache_clear()
            acc.case(case, True, viols)


def run_asdict_policy(fixture, acc):
    """as_dict() / process_iter(attrs) policy, attribute by attribute: a slot holds ad_value exactly when the method of that
    name raises AccessDenied or ZombieProcess for this process, otherwise what the method returns (static fixture).  Asked in
    several attribute orders, because what one attribute raised must not decide what the next one gets."""
    env = setup()
    ps, vkernel = env["ps"], env["vkernel"]
    t, pid = env["fixtures"].rich_table(zombie=(fixture == "zombie"), kthread=(fixture == "kthread"))
    vk = vkernel.VK()
    vk.table = t
    vk.mount("/vproc", t)
    vk.mount("/vmapped", vkernel.MemFS({}))
    AD = "<ad_value>"
    skip = {"cpu_percent", "memory_percent"}        # computed from two samples / another table
    with vk:
        ps.process_iter.cache_clear()
        names = sorted(n for n in ps.Process(pid).as_dict() if n not in skip)
        single = {}
        for n in names:
            try:
                single[n] = ("v", repr(getattr(ps.Process(pid), n)()))
            except (ps.AccessDenied, ps.ZombieProcess):
                single[n] = ("ad", None)
            except Exception as e:  # noqa: BLE001
                single[n] = ("exc", type(e).__name__)
        want = {n: (repr(AD) if k == "ad" else v) for n, (k, v) in single.items() if k != "exc"}
        r = harness.rng_for("c03asdict", fixture)
        orders = [names, names[::-1]] + [r.sample(names, len(names)) for _ in range(4)] + [r.sample(names, 5) for _ in range(6)]
        for how in ("as_dict", "process_iter"):
            for order in orders:
                viols = []
                try:
                    if how == "as_dict":
                        got = ps.Process(pid).as_dict(attrs=list(order), ad_value=AD)
                    else:
                        got = [p.info for p in ps.process_iter(attrs=list(order), ad_value=AD) if p.pid == pid][0]
                except Exception as e:  # noqa: BLE001
                    viols.append((f"as_dict_policy_exception:{type(e).__name__}:{fixture}", f"{how}(attrs={order}) raised {e!r}"))
                    got = {}
                bad = [f"{n}: got {repr(got[n])[:80]} want {want[n][:80]}" for n in order if n in got and n in want and repr(got[n]) != want[n]]
                acc.count("as_dict_slots_compared_with_single_calls", len(order))
                if bad:
                    viols.append((f"as_dict_slot_differs_from_single_call:{fixture}",
                                  f"{how}(attrs={order}, ad_value={AD!r}) on the {fixture} fixture: " + "; ".join(bad[:6])))
                acc.case(dict(kind="asdict_policy", fixture=fixture, how=how, order=order), fixture != "live", viols)


def plan(tier, seed):
    names = [n for n, _ in ops_names()]
    shards = [dict(kind="shimdiff"), dict(kind="held_iterator")] + [dict(kind="asdict_policy", fixture=f) for f in ("live", "zombie", "kthread")]
    for fixture in ("live", "zombie", "kthread"):
        step = 4 if fixture != "kthread" else 8
        for chunk in range(0, len(names), step):
            shards.append(dict(kind="enum", fixture=fixture, ops=names[chunk:chunk + step], tier=tier))
    real = [n for n in names if n not in REAL_SKIP]
    step = 5 if tier == "quick" else 3
    for chunk in range(0, len(real), step):
        shards.append(dict(kind="realfault", ops=real[chunk:chunk + step], maxk=10 if tier == "quick" else 60))
    return shards


def ops_names():
    class _PS:  # names only; lambdas are never called here
        RLIMIT_NOFILE = 7
        IOPRIO_CLASS_BE = 2
    return ops(_PS)


def run_shard(shard):
    acc = harness.Acc(max_samples=2)
    setup()
    if shard["kind"] == "realfault":
        run_realfault(shard, acc)
    elif shard["kind"] == "held_iterator":
        run_held_iterator(acc)
    elif shard["kind"] == "asdict_policy":
        run_asdict_policy(shard["fixture"], acc)
    elif shard["kind"] == "enum":
        for opname in shard["ops"]:
            fixture = shard["fixture"]
            plans, clean, n = cases_for(opname, fixture, shard.get("tier", "quick"))
            acc.count("access_points_enumerated", n)
            acc.extra.setdefault("access_points_per_op", {})[f"{opname}/{fixture}"] = n
            clean_val = clean[1] if clean[0] == "value" else None
            # the clean run itself is a case: no fault => must not raise on live fixture
            out0, pid = run_op(opname, fixture, [])
            v0 = judge(opname, fixture, [], out0, pid, clean_val, acc)
            acc.case(dict(op=opname, fixture=fixture, plan=[]), False, v0)
            for pl in plans:
                do_post = any(a[1] in ("vanish", "halfvanish") and (len(a) < 3) for a in pl)
                out, pid = run_op(opname, fixture, pl, do_post=do_post)
                fired = len(out["fired"]) > 0
                if fired:
                    acc.count("faults_fired", len(out["fired"]))
                    for f in out["fired"]:
                        acc.count("fault_" + f[1])
                viols = judge(opname, fixture, pl, out, pid, clean_val, acc)
                case = dict(op=opname, fixture=fixture, plan=pl)
                acc.case(case, fired, viols, sample=dict(case, outcome=str(out["outcome"])[:160],
                                                         fired=[list(f) for f in out["fired"]]))
        acc.exhaustive = True
    elif shard["kind"] == "shimdiff":
        run_shimdiff(acc)
    elif shard["kind"] == "cases":
        for case in shard["cases"]:
            if case.get("kind") == "shimdiff":
                run_shimdiff(acc)
                continue
            if case.get("fixture") == "real":
                pl = [tuple(x) for x in case["plan"]]
                if pl:
                    out, pid, _n = run_real_op(case["op"], pl[0][0], pl[0][1], do_post=(pl[0][1] == "vanish"), single=case.get("single", False))
                else:
                    out, pid, _n = run_real_op(case["op"], None, None, single=case.get("single", False))
                viols = judge(case["op"], "live", pl, out, pid, None, acc)
                acc.case(case, True, viols)
                print("REPLAY", case, "->", out["outcome"], "fired", out["fired"])
                continue
            pl = [tuple(x) for x in case["plan"]]
            out0, pid = run_op(case["op"], case["fixture"], [])
            clean_val = out0["outcome"][1] if out0["outcome"][0] == "value" else None
            do_post = any(a[1] in ("vanish", "halfvanish") and (len(a) < 3) for a in pl)
            out, pid = run_op(case["op"], case["fixture"], pl, do_post=do_post)
            viols = judge(case["op"], case["fixture"], pl, out, pid, clean_val, acc)
            acc.case(case, True, viols)
            print("REPLAY", case, "->", out["outcome"], "fired", out["fired"])
            for v in viols:
                print("  ", v)
    return acc.result()
