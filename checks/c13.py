"""C13 - process memory figures are consistent with the kernel's per-mapping accounting.

Workload: generated mapping lists rendered as /proc/<pid>/smaps (fs/proc/task_mmu.c format), a consistent
smaps_rollup (present / ENOENT / ESRCH), statm and meminfo, all served by the vkernel ProcTable to the real
psutil functions.
Oracle: sums over the generator's mapping list (never a re-parse of the rendered text) - conservation between
the three views memory_full_info / memory_maps(grouped=False) / memory_maps(grouped=True), plus
memory_info = pages x page size and memory_percent = 100 * field / MemTotal.
"""
import contextlib
import errno
import math
import os
import warnings

from vlib import harness

ID = "C13"
LEVEL = "exploration"
TECHNIQUE = ("runtime monitor: generated smaps / smaps_rollup / statm / meminfo under the real parsers, "
             "conservation oracle over the generator's mapping list; live kernel: a real child with files mapped several times "
             "(non-adjacent), names with blanks, private / deleted / anonymous mappings vs an independent parse of its smaps")
RULE = ("one case = one simulated process with 0-60 generated mappings (start/end/perms/offset/dev/inode/path, "
        "kB figures up to 64 TB, a per-case subset of the kernel's optional smaps lines), a roll-up rendered from "
        "the same list (served, or ENOENT, or ESRCH), a statm record and a MemTotal. Every case is evaluated with "
        "both sources of uss/pss/swap (roll-up and per-mapping listing). non-trivial = at least 2 mappings share "
        "a path, or an optional smaps line is present, or the roll-up is withheld; distinct by case hash")
ASSUMPTIONS = [
    "smaps / smaps_rollup line formats transcribed from fs/proc/task_mmu.c and compared with the live 6.18 kernel "
    "(header padded to column 73, '%-16s%8lu kB' but 'Private_Hugetlb: %7lu kB', THPeligible/ProtectionKey "
    "without unit, 'VmFlags: xx yy ')",
    "the set of optional lines is per kernel (per case), identical for every mapping of the process",
    "the roll-up is exactly consistent with the listing (integer kB sums); the kernel's sub-kB Pss precision in "
    "smaps_rollup is not modelled",
    "VmFlags always carries at least one flag (every VMA has a may-flag on real kernels)",
    "newlines inside mapped paths appear escaped as \\012 (seq_path), never raw",
    "a path ending in ' (deleted)' may be reported with or without the suffix (statement silent); the generator "
    "never maps both 'X' and 'X (deleted)' in one process",
    "figures are bytes (kB x 1024) as everywhere in the psutil documentation; page size = os.sysconf(SC_PAGE_SIZE)",
    "psutil's cached total physical memory follows the simulated MemTotal through a public virtual_memory() call",
    "memory_percent compared with relative tolerance 1e-12 (floating point evaluation order is unspecified)",
]
REQUIRED_COUNTERS = ["memory_info_comparisons", "full_info_from_rollup", "full_info_from_smaps",
                     "ungrouped_rows_compared", "grouped_rows_compared", "percent_comparisons",
                     "unknown_memtype_rejected"]

PAGE = os.sysconf("SC_PAGE_SIZE")

# documented field names (docs/index.rst: memory_info / memory_full_info / memory_maps on Linux)
MEM_FIELDS = ["rss", "vms", "shared", "text", "lib", "data", "dirty"]
FULL_FIELDS = MEM_FIELDS + ["uss", "pss", "swap"]
STATM_INDEX = dict(vms=0, rss=1, shared=2, text=3, lib=4, data=5, dirty=6)
# documented memory_maps figure -> smaps key
MAP_FIELDS = [("rss", "Rss"), ("size", "Size"), ("pss", "Pss"), ("shared_clean", "Shared_Clean"),
              ("shared_dirty", "Shared_Dirty"), ("private_clean", "Private_Clean"),
              ("private_dirty", "Private_Dirty"), ("referenced", "Referenced"), ("anonymous", "Anonymous"),
              ("swap", "Swap")]

# kernel line order (show_smap / __show_smap)
ORDER = ["Size", "KernelPageSize", "MMUPageSize", "Rss", "Pss", "Pss_Dirty", "Pss_Anon", "Pss_File",
         "Pss_Shmem", "Shared_Clean", "Shared_Dirty", "Private_Clean", "Private_Dirty", "Referenced",
         "Anonymous", "KSM", "LazyFree", "AnonHugePages", "ShmemPmdMapped", "FilePmdMapped", "Shared_Hugetlb",
         "Private_Hugetlb", "Swap", "SwapPss", "Locked", "THPeligible", "ProtectionKey", "VmFlags"]
ALWAYS = ["Size", "Rss", "Pss", "Shared_Clean", "Shared_Dirty", "Private_Clean", "Private_Dirty", "Referenced",
          "Anonymous", "Swap"]
OPTIONAL = ["KernelPageSize", "MMUPageSize", "Pss_Dirty", "KSM", "LazyFree", "AnonHugePages", "ShmemPmdMapped",
            "FilePmdMapped", "Shared_Hugetlb", "Private_Hugetlb", "SwapPss", "Locked", "THPeligible",
            "ProtectionKey", "VmFlags"]
ROLLUP_ONLY = ["Pss_Anon", "Pss_File", "Pss_Shmem"]
NOT_IN_ROLLUP = {"Size", "KernelPageSize", "MMUPageSize", "THPeligible", "ProtectionKey", "VmFlags"}
NO_UNIT = {"THPeligible", "ProtectionKey"}
VMFLAGS = ["rd", "wr", "ex", "sh", "mr", "mw", "me", "ms", "gd", "pf", "dw", "lo", "io", "sr", "rr", "dc", "de",
           "ac", "nr", "ht", "sf", "nl", "ar", "wf", "dd", "sd", "mm", "hg", "nh", "mg", "um", "uw", "ss"]

PATHS_PLAIN = ["/usr/lib/x86_64-linux-gnu/libc.so.6", "/usr/bin/python3.12", "/usr/lib/locale/locale-archive",
               "/lib64/ld-linux-x86-64.so.2", "/dev/shm/seg", "/a"]
PATHS_SPACE = ["/opt/My App/lib foo.so", "/home/u/a  b", "/tmp/x y z", "/tmp/ lead"]
PATHS_COLON = ["/tmp/a:b:c", "/tmp/Size: 4 kB", "/tmp/Pss:", "/x/VmFlags: rd", "/tmp/Private_Dirty:  9 kB",
               "/srv/Swap: 7 kB/f", "/tmp/e:"]
PATHS_DELETED = ["/tmp/gone.so (deleted)", "/memfd:jit (deleted)", "/dev/zero (deleted)",
                 "/SYSV00000000 (deleted)", "/tmp/a b (deleted)", "/tmp/c: d (deleted)"]
# real files, so that psutil's own existence test of a ' (deleted)' name sees a genuine answer:
#  - "<fx>/lit (deleted)" EXISTS under that literal name -> it is the mapping's own path and must be reported verbatim
#  - "<fx>/recreated (deleted)": only "<fx>/recreated" exists (file replaced in place) -> either form accepted
from vlib.fixtures import FX_DIR as _FX  # noqa: E402
_C13_DIR = os.path.join(_FX, "c13")
os.makedirs(_C13_DIR, exist_ok=True)
for _n in ("lit (deleted)", "recreated", "report (deleted)"):
    if not os.path.exists(os.path.join(_C13_DIR, _n)):
        with open(os.path.join(_C13_DIR, _n), "w") as _f:
            _f.write("x")
PATHS_DELETED += [os.path.join(_C13_DIR, "lit (deleted)"), os.path.join(_C13_DIR, "recreated (deleted)"),
                  os.path.join(_C13_DIR, "report (deleted)"), os.path.join(_C13_DIR, "lit (deleted)")]
PATHS_SPECIAL = ["[heap]", "[stack]", "[vdso]", "[vvar]", "[vsyscall]", "[anon:scudo primary]",
                 "[anon_shmem:x y]", "[stack:1234]", "anon_inode:[io_uring]", "/dev/null", "/memfd:buf"]
PATHS_BYTES = ["/tmp/\xff\xfe.so", "/tmp/caf\xc3\xa9", "/tmp/a\\012b", "/tmp/\xe2\x82\xac uro"]
PATHS_TRAILING = ["/tmp/trail ", "/opt/lib.so  "]
# the kernel escapes only "\n" in a mapping's path: every other control byte is printed raw and is part of the name
PATHS_CTRL = ["/opt/plug\rin v1:2.so", "/tmp/a\x0bb", "/tmp/f\x0cf.so", "/tmp/x\x1cy", "/tmp/n\x85l", "/tmp/cr\r\rlf",
              "/tmp/t\tab"]
ALL_POOLS = [PATHS_PLAIN, PATHS_SPACE, PATHS_COLON, PATHS_DELETED, PATHS_SPECIAL, PATHS_BYTES, PATHS_CTRL]

BAD_MEMTYPES = ["", "RSS", "rss ", " rss", "count", "index", "_fields", "private_clean", "size", "path",
                "num_page_faults", "peak_wset", "pfaults", "swapped", "rss\n", "us", "total"]


def _b(s):
    return s.encode("latin-1")


# ------------------------------------------------------------------------------------------------
# generator
# ------------------------------------------------------------------------------------------------

def gen_pages(rng):
    r = rng.random()
    if r < 0.5:
        return rng.randrange(1, 64)
    if r < 0.8:
        return rng.randrange(64, 2**18)
    if r < 0.93:
        return rng.randrange(2**18, 2**28)          # up to 1 TB
    return rng.choice([2**28, 2**30, 2**32, 2**34 - 1, rng.randrange(2**28, 2**34)])   # up to 64 TB


def gen_kb(rng, opt):
    pages = gen_pages(rng)
    rss_p = rng.choice([0, pages, rng.randrange(0, pages + 1), rng.randrange(0, pages + 1)])
    cuts = sorted(rng.randrange(0, rss_p + 1) for _ in range(3))
    if rng.random() < 0.3:      # typical: everything private or everything shared
        cuts = rng.choice([[0, 0, 0], [rss_p, rss_p, rss_p], [0, 0, rss_p], [0, rss_p, rss_p]])
    sc, sd, pc, pd = cuts[0], cuts[1] - cuts[0], cuts[2] - cuts[1], rss_p - cuts[2]
    rss = rss_p * 4
    priv = (pc + pd) * 4
    pss = rng.randrange(priv, rss + 1)
    swap = 4 * rng.choice([0, 0, rng.randrange(0, pages - rss_p + 1)])
    kb = {
        "Size": pages * 4, "Rss": rss, "Pss": pss, "Shared_Clean": sc * 4, "Shared_Dirty": sd * 4,
        "Private_Clean": pc * 4, "Private_Dirty": pd * 4, "Referenced": 4 * rng.randrange(0, rss_p + 1),
        "Anonymous": 4 * rng.choice([0, rss_p, rng.randrange(0, rss_p + 1)]), "Swap": swap,
    }
    small = lambda top: 4 * rng.choice([0, 0, rng.randrange(0, top + 1)])   # noqa: E731
    hp = lambda: 2048 * rng.choice([0, 0, 0, 1, 3, rng.randrange(0, 2**20)])   # noqa: E731
    values = {
        "KernelPageSize": rng.choice([4, 4, 4, 2048, 1048576]), "MMUPageSize": rng.choice([4, 4, 2048]),
        "Pss_Dirty": rng.randrange(0, pss + 1), "KSM": small(rss_p), "LazyFree": small(rss_p),
        "AnonHugePages": 2048 * rng.choice([0, 0, rss // 2048]), "ShmemPmdMapped": 2048 * rng.choice([0, 0, 1]),
        "FilePmdMapped": 2048 * rng.choice([0, 0, 2]), "Shared_Hugetlb": hp(), "Private_Hugetlb": hp(),
        "SwapPss": rng.randrange(0, swap + 1), "Locked": rng.choice([0, 0, pss]),
        "THPeligible": rng.choice([0, 1]), "ProtectionKey": rng.choice([0, 0, 1, 15]),
    }
    for k in opt:
        if k == "VmFlags":
            n = rng.randrange(1, 9)
            kb[k] = rng.sample(VMFLAGS, n)
        else:
            kb[k] = values[k]
    kb["_cls"] = rng.choice(["anon", "file", "shmem"])
    return kb


def gen_opt(rng):
    r = rng.random()
    if r < 0.3:
        return list(OPTIONAL), list(ROLLUP_ONLY)
    if r < 0.4:
        return [], []
    opt = [k for k in OPTIONAL if rng.random() < 0.5]
    ropt = [k for k in ROLLUP_ONLY if rng.random() < 0.5]
    return opt, ropt


def gen_statm(rng):
    def v():
        r = rng.random()
        if r < 0.3:
            return rng.choice([0, 1, 2, 2**20, 2**34 - 1, 2**34, 2**40])
        if r < 0.8:
            return rng.randrange(0, 10**6)
        return rng.randrange(0, 2**36)
    out = [v() for _ in range(7)]
    if rng.random() < 0.7:
        out[4] = 0
        out[6] = 0
    return out


def gen_case(rng):
    n = rng.choice([0, 1, 1, 2, 3, 5, 8, 13, 21, 34, 60, rng.randrange(0, 61), rng.randrange(0, 61)])
    if rng.random() < 0.004:
        # JVMs, browsers, databases: thousands of mappings, a listing of several MiB (crossing every buffer / slice size)
        n = rng.choice([700, 1400, 2100, 3000, 4200])
    opt, ropt = gen_opt(rng)
    # names available to this process: a few, so that repeats are common
    pool = []
    for p in rng.sample(ALL_POOLS, rng.randrange(1, len(ALL_POOLS) + 1)):
        pool.extend(rng.sample(p, rng.randrange(1, min(3, len(p)) + 1)))
    if rng.random() < 0.15:
        pool.append("/r/" + "".join(rng.choice("ab :()[]-.\xe9") for _ in range(rng.randrange(1, 12))).strip() + "z")
    if rng.random() < 0.015:
        pool.append(rng.choice(PATHS_TRAILING))
    addr = rng.choice([0x1000, 0x400000, 0x55d0c0a00000, 0x7f0000000000, 0x10000])
    maps = []
    for i in range(n):
        kb = gen_kb(rng, opt)
        addr += 4096 * rng.choice([0, 0, 1, rng.randrange(0, 2**20)])
        size = kb["Size"] * 1024
        if addr + size >= 2**63:
            addr = addr % 2**40
            # keep the range consistent with Size even for giant mappings
        start, end = addr, addr + size
        addr = end
        r = rng.random()
        path = None if r < 0.3 else rng.choice(pool)
        perms = rng.choice(["r--p", "r-xp", "rw-p", "---p", "rw-s", "r--s", "rwxp", "-w-p", "--xp", "rwxs"])
        isfile = path is not None and path.startswith("/")
        maps.append(dict(
            start=start, end=end, perms=perms,
            offset=(4096 * rng.choice([0, 0, 1, rng.randrange(0, 2**30)])) if isfile else 0,
            dev=[rng.choice([0xfe, 8, 0x103, 0]), rng.choice([0, 1, 0x21])] if isfile else [0, 0],
            inode=rng.choice([1, 320173, 2**32 + 5, 2**63 - 1, rng.randrange(1, 10**8)]) if isfile else 0,
            path=path, kb=kb))
    if maps and rng.random() < 0.1:
        kb = gen_kb(rng, opt)
        for k, v in kb.items():
            if isinstance(v, int) and k not in ("KernelPageSize", "MMUPageSize"):
                kb[k] = 0
        kb["Size"] = 4
        maps.append(dict(start=0xffffffffff600000, end=0xffffffffff601000, perms="--xp", offset=0, dev=[0, 0],
                         inode=0, path="[vsyscall]", kb=kb))
    total = rng.choice([1, 4, 1024, 16000000, 2**31, 2**36, rng.randrange(1, 2**36), rng.randrange(1, 2**26)])
    return dict(
        pid=rng.choice([50, 7, 4194303]),
        maps=maps, opt=opt, ropt=ropt,
        rollup=rng.choice(["present", "present", "enoent", "esrch", "esrch_on_read"]),
        rollup_order=(rng.randrange(1 << 30) if rng.random() < 0.3 else None),
        statm=gen_statm(rng), memtotal_kb=total,
        memtypes=rng.sample(FULL_FIELDS, rng.choice([2, 3, 10])),
        bad_memtype=rng.choice(BAD_MEMTYPES),
        oneshot=rng.random() < 0.2,
    )


# ------------------------------------------------------------------------------------------------
# rendering (the simulated kernel)
# ------------------------------------------------------------------------------------------------

def render_header(start, end, perms, offset, dev, inode, name):
    line = b"%08x-%08x %s %08x %02x:%02x %d " % (start, end, perms.encode(), offset, dev[0], dev[1], inode)
    if name is not None:
        line = line.ljust(72) + b" " + _b(name)
    return line + b"\n"


def render_lines(kb, keys, order_seed=None):
    out = []
    order = list(ORDER)
    if order_seed is not None:
        # another kernel, another order of the same named lines (the order has changed between kernel releases and is no
        # part of the format): a reader keyed by names must not care
        import random
        random.Random(order_seed).shuffle(order)
    for k in order:
        if k not in keys or k not in kb:
            continue
        v = kb[k]
        if k == "VmFlags":
            out.append(b"VmFlags: " + b"".join(f.encode() + b" " for f in v) + b"\n")
        else:
            # SEQ_PUT_DEC("Key:   ", v): label padded to 16 columns + "%8lu"; the 16-character label
            # "Private_Hugetlb:" is followed by one blank and "%7lu" (task_mmu.c)
            label = k.encode() + b":"
            num = b"%-16s%8d" % (label, v) if len(label) < 16 else b"%s %7d" % (label, v)
            out.append(num + (b"\n" if k in NO_UNIT else b" kB\n"))
    return b"".join(out)


def render_smaps(case):
    keys = set(ALWAYS) | set(case["opt"])
    out = []
    for m in case["maps"]:
        out.append(render_header(m["start"], m["end"], m["perms"], m["offset"], m["dev"], m["inode"], m["path"]))
        out.append(render_lines(m["kb"], keys))
    return b"".join(out)


def render_rollup(case):
    maps = case["maps"]
    if not maps:
        return b""
    keys = (set(ALWAYS) | set(case["opt"]) | set(case["ropt"])) - NOT_IN_ROLLUP
    tot = {}
    for k in keys:
        if k in ROLLUP_ONLY:
            cls = {"Pss_Anon": "anon", "Pss_File": "file", "Pss_Shmem": "shmem"}[k]
            tot[k] = sum(m["kb"]["Pss"] for m in maps if m["kb"]["_cls"] == cls)
        else:
            tot[k] = sum(m["kb"][k] for m in maps)
    head = render_header(min(m["start"] for m in maps), max(m["end"] for m in maps), "---p", 0, [0, 0], 0,
                         "[rollup]")
    return head + render_lines(tot, keys, case.get("rollup_order"))


def render_meminfo(total):
    f = lambda num, den: total * num // den   # noqa: E731
    return (b"MemTotal:       %8d kB\nMemFree:        %8d kB\nMemAvailable:   %8d kB\nBuffers:        %8d kB\n"
            b"Cached:         %8d kB\nSwapCached:     %8d kB\nActive:         %8d kB\nInactive:       %8d kB\n"
            b"Active(file):   %8d kB\nInactive(file): %8d kB\nSwapTotal:      %8d kB\nSwapFree:       %8d kB\n"
            b"Shmem:          %8d kB\nSlab:           %8d kB\nSReclaimable:   %8d kB\n" % (
                total, f(1, 2), f(3, 4), f(1, 100), f(1, 8), 0, f(1, 5), f(1, 16), f(1, 32), f(1, 40),
                1000000, 900000, f(1, 300), f(1, 50), f(1, 80)))


# ------------------------------------------------------------------------------------------------
# oracle helpers (work on the generator's list only)
# ------------------------------------------------------------------------------------------------

def dec(path):
    return os.fsdecode(_b(path))


def names_for(path):
    """Acceptable reported names for a mapping path (None = anonymous)."""
    if path is None:
        return {"[anon]"}
    d = dec(path)
    out = {d}
    if d.endswith(" (deleted)") and not os.path.exists(d):
        out.add(d[:-10])
    return out


def path_feature(path):
    if path is None:
        return "anonymous"
    if path != path.strip():
        return "trailing_whitespace_stripped"
    if path.endswith(" (deleted)"):
        return "deleted_suffix"
    if ":" in path:
        return "colon_in_path"
    if " " in path:
        return "space_in_path"
    if any(ord(c) >= 0x80 for c in path):
        return "non_ascii_path"
    return "plain_path"


def expected_sums(case):
    maps = case["maps"]
    has_hp = "Private_Hugetlb" in case["opt"]
    uss = sum(m["kb"]["Private_Clean"] + m["kb"]["Private_Dirty"] + (m["kb"]["Private_Hugetlb"] if has_hp else 0)
              for m in maps) * 1024
    pss = sum(m["kb"]["Pss"] for m in maps) * 1024
    swap = sum(m["kb"]["Swap"] for m in maps) * 1024
    return uss, pss, swap


def nontrivial(case):
    seen = set()
    for m in case["maps"]:
        key = m["path"]
        if key in seen:
            return True
        seen.add(key)
    return bool(case["maps"]) and (bool(case["opt"]) or case["rollup"] != "present")


# ------------------------------------------------------------------------------------------------
# monitor
# ------------------------------------------------------------------------------------------------

_env = {}


def setup():
    if _env:
        return _env
    from vlib import psu, vkernel
    from vlib.proctable import ProcTable
    ps = psu.load()
    ps.PROCFS_PATH = "/vproc"
    warnings.simplefilter("ignore")
    _env.update(ps=ps, vkernel=vkernel, ProcTable=ProcTable)
    return _env


def run_case(case, acc):
    env = setup()
    ps, vkernel, ProcTable = env["ps"], env["vkernel"], env["ProcTable"]
    t = ProcTable(btime=1_700_000_000)
    t.spawn(1, 1, ppid=0, comm=b"init")
    p = t.spawn(case["pid"], 500, ppid=1, comm=b"memproc")
    p.statm = tuple(case["statm"])
    p.smaps = render_smaps(case)
    rollup_bytes = render_rollup(case)
    t.rootfiles["meminfo"] = render_meminfo(case["memtotal_kb"])
    total_bytes = case["memtotal_kb"] * 1024
    maps = case["maps"]
    viols = []

    def set_rollup(mode):
        p.smaps_rollup = {"present": rollup_bytes, "enoent": None, "esrch": errno.ESRCH,
                          "esrch_on_read": ("read_err", errno.ESRCH)}[mode]

    if harness.chash(case)[-1] in "01":
        t.fake_getpid = case["pid"]        # one case in eight: the process inspects itself (os.getpid() answers its pid)
        acc.count("cases_where_the_process_inspects_itself")
    vk = vkernel.VK()
    vk.table = t
    vk.mount("/vproc", t)

    exp_info = {f: case["statm"][STATM_INDEX[f]] * PAGE for f in MEM_FIELDS}
    exp_uss, exp_pss, exp_swap = expected_sums(case)
    exp_full = dict(exp_info, uss=exp_uss, pss=exp_pss, swap=exp_swap)

    def call(api, fn):
        try:
            return True, fn()
        except Exception as e:  # noqa: BLE001
            viols.append((f"{api}_exception:{type(e).__name__}", f"{api} raised {e!r} for a live process"))
            return False, None

    def check_fields(api, got, want, fields, mech):
        bad = []
        for f in fields:
            g = getattr(got, f, None)
            if g != want[f] or not isinstance(g, int):
                bad.append(f"{f}: got {g!r} want {want[f]!r}")
        if bad:
            viols.append((mech, f"{api}: " + "; ".join(bad)))

    def rollup_read(since):
        return any(k == "read" and path.endswith("/smaps_rollup") for k, path in vk.log[since:])

    with vk:
        if case.get("percent_first"):
            # a fresh program whose first question is memory_percent(): nothing has asked virtual_memory() in this interpreter
            if getattr(ps, "_TOTAL_PHYMEM", None) is not None:
                acc.inconclusive = "percent_first: this interpreter already knows a total physical memory"
                return
            try:
                pr0 = ps.Process(case["pid"])
                for mt in case["memtypes"][:2] or ["rss"]:
                    pc = pr0.memory_percent(mt)
                    acc.count("percent_comparisons_before_any_virtual_memory_call")
                    want = 100.0 * exp_full[mt] / total_bytes
                    if not isinstance(pc, float) or not math.isclose(pc, want, rel_tol=1e-12, abs_tol=0.0):
                        viols.append(("memory_percent_wrong:before_any_virtual_memory_call",
                                      f"memory_percent({mt!r}) = {pc!r} want {want!r} (field {exp_full[mt]}, total {total_bytes})"))
            except Exception as e:  # noqa: BLE001
                viols.append((f"memory_percent_exception:{type(e).__name__}:before_any_virtual_memory_call", repr(e)))
        # the cache of total physical memory follows the simulated kernel (public API)
        ok, vm = call("virtual_memory", ps.virtual_memory)
        if ok and vm.total != total_bytes:
            viols.append(("virtual_memory_total_wrong", f"total {vm.total} want {total_bytes}"))
        try:
            pr = ps.Process(case["pid"])
        except Exception as e:  # noqa: BLE001
            viols.append(("construct_exception", f"Process() raised {e!r}"))
            acc.case(case, nontrivial(case), viols)
            return
        moved = harness.chash(case)[-2] in "012"
        if moved:
            # psutil.PROCFS_PATH is re-pointed after the object was made: the object keeps describing the process of the
            # procfs it was created on; the tree PROCFS_PATH names from now on has somebody else under the same pid
            tb = ProcTable(btime=1_700_000_000)
            tb.spawn(1, 1, ppid=0, comm=b"init")
            pb = tb.spawn(case["pid"], 500, ppid=1, comm=b"somebody else")
            pb.statm = tuple(x + 3 for x in case["statm"])
            pb.smaps = (b"00400000-00401000 r--p 00000000 00:00 0    /other\nSize: 4 kB\nRss: 4 kB\nPss: 4 kB\n"
                        b"Private_Clean: 4 kB\nPrivate_Dirty: 0 kB\nSwap: 4 kB\n")
            pb.smaps_rollup = b"00400000-00401000 ---p 00000000 00:00 0    [rollup]\nRss: 4 kB\nPss: 4 kB\nPrivate_Clean: 4 kB\nPrivate_Dirty: 0 kB\nSwap: 4 kB\n"
            tb.rootfiles["meminfo"] = t.rootfiles["meminfo"]
            vk.mount("/vprocB", tb)
            ps.PROCFS_PATH = "/vprocB"
            acc.count("cases_with_procfs_path_moved_after_construction")
        ctx = pr.oneshot() if case["oneshot"] else contextlib.nullcontext()
        with ctx:
            set_rollup(case["rollup"])
            # --- memory_info -----------------------------------------------------------------
            ok, mi = call("memory_info", pr.memory_info)
            if ok:
                acc.count("memory_info_comparisons")
                check_fields("memory_info", mi, exp_info, MEM_FIELDS, "memory_info_wrong")
                if tuple(mi._fields) != tuple(MEM_FIELDS):
                    viols.append(("memory_info_fields", f"fields {mi._fields}"))
            # --- memory_full_info from both sources ------------------------------------------
            other = "enoent" if case["rollup"] == "present" else "present"
            results = {}
            for mode in (case["rollup"], other):
                set_rollup(mode)
                since = len(vk.log)
                ok, fi = call("memory_full_info", pr.memory_full_info)
                if not ok:
                    continue
                src = "rollup" if (rollup_read(since) and mode != "esrch_on_read") else "smaps"
                acc.count("full_info_from_" + src)
                results[mode] = tuple(getattr(fi, f, None) for f in ("uss", "pss", "swap"))
                check_fields(f"memory_full_info[{mode}]", fi, exp_full, FULL_FIELDS,
                             f"full_info_wrong:{src}_source")
            if len(results) == 2 and len(set(results.values())) != 1:
                viols.append(("full_info_sources_disagree", f"uss/pss/swap by source: {results!r}"))
            set_rollup(case["rollup"])
            # --- memory_maps(grouped=False) --------------------------------------------------
            ok, rows = call("memory_maps_ungrouped", lambda: pr.memory_maps(grouped=False))
            if ok:
                by_addr = {}
                for r in rows:
                    by_addr.setdefault(r.addr, []).append(r)
                if len(rows) != len(maps):
                    viols.append(("maps_ungrouped_count", f"{len(rows)} rows for {len(maps)} mappings"))
                for m in maps:
                    addr = "%08x-%08x" % (m["start"], m["end"])
                    got = by_addr.get(addr, [])
                    if len(got) != 1:
                        viols.append(("maps_ungrouped_missing_row", f"{len(got)} rows for mapping {addr}"))
                        continue
                    r = got[0]
                    acc.count("ungrouped_rows_compared")
                    if r.perms != m["perms"]:
                        viols.append(("maps_ungrouped_perms_wrong", f"{addr}: perms {r.perms!r} want {m['perms']!r}"))
                    if r.path not in names_for(m["path"]):
                        viols.append((f"memory_maps_path_wrong:{path_feature(m['path'])}",
                                      f"{addr}: path {r.path!r} for mapping name {m['path']!r}"))
                    bad = [f"{f}: got {getattr(r, f, None)!r} want {m['kb'][k] * 1024}" for f, k in MAP_FIELDS
                           if getattr(r, f, None) != m["kb"][k] * 1024]
                    if bad:
                        viols.append(("maps_ungrouped_figures_wrong", f"{addr} {m['path']!r}: " + "; ".join(bad)))
            # --- memory_maps(grouped=True) ---------------------------------------------------
            ok, rows = call("memory_maps_grouped", lambda: pr.memory_maps(grouped=True))
            if ok:
                groups = {}
                order = []
                for m in maps:
                    if m["path"] not in groups:
                        groups[m["path"]] = {f: 0 for f, _ in MAP_FIELDS}
                        order.append(m["path"])
                    for f, k in MAP_FIELDS:
                        groups[m["path"]][f] += m["kb"][k] * 1024
                name_to_group = {}
                for gpath in order:
                    for nm in names_for(gpath):
                        name_to_group[nm] = gpath
                seen = set()
                for r in rows:
                    gpath = name_to_group.get(r.path, KeyError)
                    if gpath is KeyError:
                        cause = [g for g in order if g is not None and g.strip() == r.path and g != r.path]
                        feat = "trailing_whitespace_stripped" if cause else "other"
                        viols.append((f"memory_maps_path_wrong:{feat}",
                                      f"grouped row path {r.path!r} is no mapping path of {order!r}"))
                        continue
                    if gpath in seen:
                        viols.append(("maps_grouped_duplicate_row", f"two rows for path {gpath!r}"))
                        continue
                    seen.add(gpath)
                    acc.count("grouped_rows_compared")
                    want = groups[gpath]
                    bad = [f"{f}: got {getattr(r, f, None)!r} want {want[f]}" for f, _ in MAP_FIELDS
                           if getattr(r, f, None) != want[f]]
                    if bad:
                        n = sum(1 for m in maps if m["path"] == gpath)
                        viols.append(("maps_grouped_sums_wrong", f"path {gpath!r} ({n} mappings): " + "; ".join(bad)))
                got_paths = [r.path for r in rows]
                for gpath in order:
                    if gpath not in seen:
                        if path_feature(gpath) == "trailing_whitespace_stripped" and gpath.strip() in got_paths:
                            continue     # already reported above under memory_maps_path_wrong
                        viols.append(("maps_grouped_missing_row", f"no row for path {gpath!r}; rows={got_paths!r}"))
            # --- memory_percent --------------------------------------------------------------
            for mt in case["memtypes"]:
                ok, pc = call("memory_percent", lambda: pr.memory_percent(mt))   # noqa: B023
                if ok:
                    acc.count("percent_comparisons")
                    want = 100.0 * exp_full[mt] / total_bytes
                    if not isinstance(pc, float) or not math.isclose(pc, want, rel_tol=1e-12, abs_tol=0.0):
                        viols.append(("memory_percent_wrong",
                                      f"memory_percent({mt!r}) = {pc!r} want {want!r} "
                                      f"(field {exp_full[mt]}, total {total_bytes})"))
            if harness.chash(case)[-5] in "0123":
                # the statm-based fields do not need the per-mapping files: with smaps and smaps_rollup refused (another user's
                # process, a ptrace-restricted one) their percentages are still answered
                rule = (lambda kind, path: PermissionError(13, "Permission denied", path)
                        if kind == "open" and (path.endswith("/smaps") or path.endswith("/smaps_rollup")) else None)
                vk.rules.append(rule)
                try:
                    for mt in MEM_FIELDS:
                        acc.count("percent_comparisons_with_mapping_files_refused")
                        ok, pc = call("memory_percent", lambda: pr.memory_percent(mt))   # noqa: B023
                        want = 100.0 * exp_full[mt] / total_bytes
                        if ok and (not isinstance(pc, float) or not math.isclose(pc, want, rel_tol=1e-12, abs_tol=0.0)):
                            viols.append(("memory_percent_wrong:mapping_files_refused", f"memory_percent({mt!r}) = {pc!r} want {want!r}"))
                finally:
                    vk.rules.remove(rule)
            try:
                r = pr.memory_percent(case["bad_memtype"])
            except ValueError:
                acc.count("unknown_memtype_rejected")
            except Exception as e:  # noqa: BLE001
                viols.append(("unknown_memtype_not_valueerror",
                              f"memory_percent({case['bad_memtype']!r}) raised {e!r}"))
            else:
                viols.append(("unknown_memtype_not_valueerror",
                              f"memory_percent({case['bad_memtype']!r}) returned {r!r}"))
        if moved:
            ps.PROCFS_PATH = "/vproc"
            viols = [(m + ":procfs_path_moved_after_construction", d) for m, d in viols]
    acc.case(case, nontrivial(case), viols)


def corner_cases():
    """Small fixed corpus: one mapping per path pool entry, every optional line alone, empty process."""
    import random
    out = []
    rng = random.Random("c13-corners")
    base = dict(pid=50, rollup="present", statm=[660, 330, 305, 5, 0, 123, 0], memtotal_kb=16000000,
                memtypes=list(FULL_FIELDS), bad_memtype="foo", oneshot=False, ropt=[])
    out.append(dict(base, maps=[], opt=[]))
    out.append(dict(base, maps=[], opt=[], rollup="enoent"))
    names = [None] + [p for pool in ALL_POOLS for p in pool] + PATHS_TRAILING
    for i, name in enumerate(names):
        for opt in ([], list(OPTIONAL)):
            maps = []
            addr = 0x7f0000000000
            for _ in range(2):
                kb = gen_kb(rng, opt)
                maps.append(dict(start=addr, end=addr + kb["Size"] * 1024, perms="r-xp", offset=0, dev=[0xfe, 0],
                                 inode=77 if name and name.startswith("/") else 0, path=name, kb=kb))
                addr += kb["Size"] * 1024 + 4096
            out.append(dict(base, maps=maps, opt=opt, ropt=list(ROLLUP_ONLY) if opt else [],
                            rollup=["present", "enoent", "esrch", "esrch_on_read"][i % 4]))
    for k in OPTIONAL:
        kb = gen_kb(rng, [k])
        out.append(dict(base, opt=[k], maps=[
            dict(start=0x400000, end=0x400000 + kb["Size"] * 1024, perms="rw-p", offset=0, dev=[0, 0], inode=0,
                 path=None, kb=kb)]))
    return out


def run_threads_case(cases, seed, acc):
    """Four threads query the memory figures of *different* simulated processes at once (static table)."""
    from vlib import concur
    env = setup()
    ps, vkernel, ProcTable = env["ps"], env["vkernel"], env["ProcTable"]
    t = ProcTable(btime=1_700_000_000)
    t.spawn(1, 1, ppid=0, comm=b"init")
    t.rootfiles["meminfo"] = render_meminfo(cases[0]["memtotal_kb"])
    pids = []
    for k, case in enumerate(cases):
        pid = 300 + k
        p = t.spawn(pid, 500 + k, ppid=1, comm=b"mem%d" % k)
        p.statm = tuple(case["statm"])
        p.smaps = render_smaps(case)
        p.smaps_rollup = render_rollup(case) if k % 2 == 0 else None
        pids.append(pid)
    vk = vkernel.VK()
    vk.table = t
    vk.mount("/vproc", t)
    with vk:
        ps.virtual_memory()
        jobs = {}
        for pid in pids:
            pr = ps.Process(pid)
            jobs[f"memory_info@{pid}"] = pr.memory_info
            jobs[f"memory_full_info@{pid}"] = pr.memory_full_info
            jobs[f"memory_maps@{pid}"] = pr.memory_maps
            jobs[f"memory_maps_ungrouped@{pid}"] = lambda pr=pr: pr.memory_maps(grouped=False)
            jobs[f"memory_percent@{pid}"] = lambda pr=pr: pr.memory_percent("pss")
        _b, errors, wrong = concur.concurrent_vs_sequential(jobs, seed, calls=50)
    acc.count("concurrent_calls_compared", 200)
    acc.case(dict(kind="threads", seed=seed), True, concur.violations(errors, wrong))


# ---- live kernel: a real child with files mapped several times, anonymous and deleted mappings -------------------------

LIVE_CHILD = r"""
import mmap, os, sys, time
d = sys.argv[1]
keep = []
def mapped(name, size, times=1, write=False, unlink=False):
    p = os.path.join(d, name)
    with open(p, "wb") as f:
        f.write(b"x" * size)
    fd = os.open(p, os.O_RDWR)
    for _ in range(times):
        m = mmap.mmap(fd, size, mmap.MAP_SHARED if not write else mmap.MAP_PRIVATE, mmap.PROT_READ | mmap.PROT_WRITE)
        m[0:1]
        if write:
            m[0:4096] = b"y" * 4096
        keep.append(m)
        keep.append(mmap.mmap(-1, 8192))          # an anonymous region in between: the file's mappings are not adjacent
    if unlink:
        os.unlink(p)
mapped("twice.bin", 65536, times=2)
mapped("name with space.bin", 16384)
mapped("trailing space .bin ", 16384)
mapped("private.bin", 32768, write=True)
mapped("gone.bin", 16384, unlink=True)
mapped("thrice.bin", 8192, times=3)
big = mmap.mmap(-1, 4 << 20); big[:] = b"z" * (4 << 20); keep.append(big)
print("up", flush=True)
while True:
    time.sleep(1000)
"""

SMAPS_FIELDS = dict(rss="Rss", size="Size", pss="Pss", shared_clean="Shared_Clean", shared_dirty="Shared_Dirty",
                    private_clean="Private_Clean", private_dirty="Private_Dirty", referenced="Referenced", anonymous="Anonymous",
                    swap="Swap")


def read_smaps(pid):
    """-> list of dict(addr, perms, path, <kB figures in bytes>) from an independent parse of /proc/<pid>/smaps."""
    import re as _re
    out = []
    cur = None
    with open(f"/proc/{pid}/smaps", "rb") as f:
        for ln in f.read().split(b"\n"):
            m = _re.match(rb"^([0-9a-f]+-[0-9a-f]+) (\S{4}) [0-9a-f]+ \S+ \d+ ?(.*)$", ln)
            if m:
                path = m.group(3).lstrip(b" ")
                cur = dict(addr=m.group(1).decode(), perms=m.group(2).decode(), path=os.fsdecode(path) if path else "[anon]")
                out.append(cur)
            elif cur is not None and b":" in ln:
                k, v = ln.split(b":", 1)
                v = v.split()
                if len(v) == 2 and v[1] == b"kB":
                    cur[k.decode()] = int(v[0]) * 1024
    return out


def run_live(shard, acc):
    import subprocess
    import sys
    ps = setup()["ps"]
    ps.PROCFS_PATH = "/proc"
    tmp = tempfile.mkdtemp(prefix="c13live_") if "tempfile" in globals() else __import__("tempfile").mkdtemp(prefix="c13live_")
    envp = {k: v for k, v in os.environ.items() if k != "LD_PRELOAD"}
    child = subprocess.Popen([sys.executable, "-S", "-c", LIVE_CHILD, tmp], env=envp, stdout=subprocess.PIPE, stdin=subprocess.DEVNULL)
    viols = []
    try:
        if not child.stdout.readline():
            acc.inconclusive = "live child did not start"
            return
        pid = child.pid
        pr = ps.Process(pid)
        before = read_smaps(pid)
        maps = pr.memory_maps(grouped=False)
        grouped = pr.memory_maps(grouped=True)
        full = pr.memory_full_info()
        info = pr.memory_info()
        after = read_smaps(pid)
        with open(f"/proc/{pid}/statm") as f:
            statm = [int(x) for x in f.read().split()]
        page = os.sysconf("SC_PAGE_SIZE")
        acc.count("live_mappings_read", len(before))
        exact = ("size", "rss", "private_clean", "private_dirty", "anonymous", "swap")      # pss/shared_* move with other processes

        def nd(path):
            # ' (deleted)' may be reported or not (statement silent, see ASSUMPTIONS): compared without it on both sides
            return path[:-10] if path.endswith(" (deleted)") else path
        maps = [m._replace(path=nd(m.path)) for m in maps]
        grouped_raw = grouped
        merged = {}
        for g in grouped_raw:
            merged.setdefault(nd(g.path), []).append(g)
        grouped = [gs[0]._replace(path=k) for k, gs in merged.items() if len(gs) == 1]
        for k, gs in merged.items():
            if len(gs) > 1 and len({g.path for g in gs}) == 1:
                viols.append(("live:maps_grouped_duplicate_path", k))
        refs = [{(m["addr"], m["perms"], nd(m["path"])): m for m in snap} for snap in (before, after)]
        if set(refs[0]) != set(refs[1]):
            acc.count("live_unstable_layout")
        else:
            got = {(m.addr, m.perms, m.path): m for m in maps}
            acc.count("maps_rows_compared", len(got))
            if set(got) != set(refs[0]):
                lost = sorted(set(refs[0]) - set(got))[:3]
                extra = sorted(set(got) - set(refs[0]))[:3]
                feat = ":trailing_whitespace_stripped" if any(k[2].rstrip() != k[2] for k in lost) else ""
                viols.append(("live:memory_maps_rows_wrong" + feat, f"missing {lost} unexpected {extra}"))
            else:
                for key, m in got.items():
                    for f_ in exact:
                        w = {r[key].get(SMAPS_FIELDS[f_], 0) for r in refs}
                        if getattr(m, f_) not in w:
                            viols.append(("live:memory_maps_field_wrong", f"{key}: {f_} got {getattr(m, f_)} kernel {sorted(w)}"))
            # grouped: one row per path, every exact field the sum over that path's mappings
            paths = {}
            for r in refs:
                for key, m in r.items():
                    paths.setdefault(key[2], [{}, {}])
            for i, r in enumerate(refs):
                for key, m in r.items():
                    for f_ in exact:
                        paths[key[2]][i][f_] = paths[key[2]][i].get(f_, 0) + m.get(SMAPS_FIELDS[f_], 0)
            gp = {}
            for g in grouped:
                if g.path in gp:
                    viols.append(("live:maps_grouped_duplicate_path", g.path))
                gp[g.path] = g
            acc.count("grouped_rows_compared", len(gp))
            if set(gp) != set(paths):
                viols.append(("live:maps_grouped_paths_wrong", f"missing {sorted(set(paths) - set(gp))[:3]} unexpected {sorted(set(gp) - set(paths))[:3]}"))
            else:
                for path, g in gp.items():
                    for f_ in exact:
                        if getattr(g, f_) not in (paths[path][0].get(f_, 0), paths[path][1].get(f_, 0)):
                            viols.append(("maps_grouped_sums_wrong", f"live: path {path!r}: {f_} got {getattr(g, f_)} want "
                                                                     f"{paths[path][0].get(f_, 0)}"))
            # uss = private clean + private dirty (+ hugetlb), swap: sums over the listing
            for name, fields in (("uss", ("Private_Clean", "Private_Dirty", "Private_Hugetlb")), ("swap", ("Swap",))):
                w = {sum(m.get(k, 0) for m in snap for k in fields) for snap in (before, after)}
                acc.count("full_info_fields_compared")
                if getattr(full, name) not in w:
                    viols.append((f"live:memory_full_info_{name}_wrong", f"got {getattr(full, name)} kernel {sorted(w)}"))
        acc.count("memory_info_compared")
        if info.rss != statm[1] * page or info.vms != statm[0] * page:
            acc.count("live_statm_moved") if False else None
            with open(f"/proc/{pid}/statm") as f:
                statm2 = [int(x) for x in f.read().split()]
            if statm2 == statm:
                viols.append(("live:memory_info_wrong", f"rss/vms got {(info.rss, info.vms)} kernel {(statm[1] * page, statm[0] * page)}"))
    finally:
        child.kill()
        child.wait()
        child.stdout.close()
        import shutil as _sh
        _sh.rmtree(tmp, ignore_errors=True)
    acc.case(dict(kind="live"), True, viols)


def plan(tier, seed):
    n = 20000 if tier == "quick" else 480_000
    shards = [dict(kind="corners")]
    for s, c in harness.split_range(n, 16 if tier == "quick" else 48):
        shards.append(dict(kind="gen", seed=seed, start=s, count=c))
    shards.append(dict(kind="live"))
    shards.append(dict(kind="threads", seed=seed, count=15 if tier == "quick" else 400))
    # one fresh interpreter each: memory_percent() is the program's very first question
    for k in range(3 if tier == "quick" else 12):
        shards.append(dict(kind="fresh_percent", seed=seed, k=k))
    return shards


def run_shard(shard):
    acc = harness.Acc()
    setup()
    if shard["kind"] == "corners":
        for case in corner_cases():
            run_case(case, acc)
        acc.count("corner_cases", acc.evals)
    elif shard["kind"] == "gen":
        for i in range(shard["start"], shard["start"] + shard["count"]):
            rng = harness.rng_for(shard["seed"], "c13", i)
            run_case(gen_case(rng), acc)
    elif shard["kind"] == "live":
        run_live(shard, acc)
    elif shard["kind"] == "fresh_percent":
        rng = harness.rng_for(shard["seed"], "c13fresh", shard["k"])
        case = gen_case(rng)
        while not case["memtypes"] or case.get("zombie"):
            case = gen_case(rng)
        case["percent_first"] = True
        run_case(case, acc)
        # and then the ordinary course of things in the same interpreter
        for _ in range(20):
            run_case(gen_case(rng), acc)
    elif shard["kind"] == "threads":
        for i in range(shard["count"]):
            cs = [gen_case(harness.rng_for(shard["seed"], "c13t", i, k)) for k in range(4)]
            run_threads_case(cs, shard["seed"] * 7919 + i, acc)
    elif shard["kind"] == "cases":
        for case in shard["cases"]:
            if case.get("kind") == "threads":
                cs = [gen_case(harness.rng_for(case["seed"] // 7919, "c13t", case["seed"] % 7919, k)) for k in range(4)]
                run_threads_case(cs, case["seed"], acc)
            elif case.get("kind") == "live":
                run_live({}, acc)
            else:
                run_case(case, acc)
    return acc.result()
