"""C20 - every platform layer keeps the same error contract and record layout.

The real Python code of the FreeBSD/OpenBSD/NetBSD, macOS, Solaris, AIX and Windows layers runs on Linux over
the stub native layer of vlib.platstub (one worker process = one platform).  Per platform:
 (1) clean run of every Process method (through the public psutil.Process front end) and of the system
     functions; named tuples: field names vs docs/index.rst, values vs the native slots (slot order
     transcribed from the Py_BuildValue calls, platstub.LAYOUT - not the *_map dicts of the layer);
 (2) fault enumeration: every per-process native call / procfs access issued from within the platform
     method x errno (x winerror on Windows) x {fail-one, fail-all-from-i} x {live, gone, zombie} x {pid, pid 0};
 (3) front-end post-processing of net_if_addrs() (Windows broadcast, MAC padding);
 (4) names promised by the documentation for that platform are exposed.
"""
import collections
import collections.abc
import contextlib
import errno
import glob
import inspect
import ipaddress
import json
import os
import re
import signal
import socket
import stat        # noqa: F401  (everything is imported before platstub patches sys.platform / os.name)
import sys         # noqa: F401
import traceback

from vlib import harness

ID = "C20"
LEVEL = "fault_enumeration"
ENGINE = "platstub"
TECHNIQUE = ("runtime monitoring of the real foreign platform layers over a stub native layer: record-layout "
             "oracle from the C builders + errno/winerror fault enumeration at every native call index with an "
             "error-translation-contract oracle")
RULE = ("one case = (platform, operation, pid|pid 0, fault plan, process state) or (platform, operation/system "
        "function, record variant) or (platform, net_if_addrs rows: 9-11 single-purpose tables + 60 generated ones with several adapters and rows, computable and un-computable netmasks side by side) or (platform, documented name). Operations = the "
        "public psutil.Process methods of that platform plus every public method of the layer's own Process class "
        "called directly (found by dir()). Fault plans enumerate every per-process native call / procfs access / "
        "waitpid index i the platform method issues (call stack decides) x errno in {ESRCH, ENOENT, EPERM, EACCES, "
        "EIO, EINVAL, ENODEV, EBUSY, ENOMEM} (+ winerror 5, 1314, 299, 87 on Windows) x {only call i fails, all calls "
        "from i fail} x state {live, gone (probes say no such pid from the moment the fault fires), zombie (probes "
        "say zombie)}, all ordered fail-pairs (i<j, errno a != b), one 'pid already gone, everything ESRCH' run per "
        "operation, and the same on PID 0 with 0 listed / not listed in pids(); thorough adds every errno of "
        "errno.errorcode, winerror 6/998/1/2 and three more record variants. The seed only moves the pid and the "
        "record values. non-trivial = the planned fault fired (stub call log proves it) or a record / name / address "
        "comparison was made; distinct by case descriptor")
ASSUMPTIONS = [
    "only the Python halves of the platform layers execute; the native records are the stub's (slot order "
    "transcribed from Py_BuildValue in psutil/arch/*, _psutil_sunos.c, _psutil_aix.c, arch/windows/*.c)",
    "faults are injected only into per-process natives / procfs accesses / waitpid issued from within the "
    "platform Process method under test (sys._getframe call-stack classification): not into check_pid_range, "
    "system-wide natives (virtual_mem, per_cpu_times, ppid_map, pids, QueryDosDevice), the front end's identity "
    "re-check (is_running() -> Process(pid)), the layer's status probes (is_zombie, pid_exists, pids) or "
    "os.path.exists/islink style predicates (they cannot report an error)",
    "status probes answer by scenario state: live / gone (ESRCH, ENOENT, kill -> ESRCH) / zombie; the zombie state "
    "is run once per native status code that kernel uses for a zombie (platstub.ZOMBIE_CODES, transcribed from "
    "sys/proc.h and the comments of _psbsd.py: FreeBSD/NetBSD/macOS SZOMB, OpenBSD SDEAD and SZOMB; Solaris/AIX: "
    "the pid still exists); Windows has no zombie state",
    "a fail-one value that differs from the clean answer must be the answer of the documented fall-back, computed "
    "from the other native record's slots by documented field name (Windows proc_info for memory_info/"
    "memory_full_info/memory_percent/cpu_times/create_time/io_counters/num_handles, SunOS psinfo uid/gid for "
    "uids()/gids()/username(), SunOS unresolved link path / '' / sub-list answers, exe guess, 'zombie')",
    "ENOENT from a native call is 'no such process'-class only where the layer says so (procfs layers sunos/aix, "
    "NetBSD exe): elsewhere NoSuchProcess or the unchanged FileNotFoundError are both accepted, AccessDenied never",
    "fail-all is crisp (must be NSP/AD, or the unchanged OSError for unrelated errnos); fail-one additionally "
    "accepts a well-formed value for permission errors and procfs-ENOENT (documented fall-backs: Windows "
    "proc_info, SunOS uids()/gids(), SunOS/AIX 'link not resolvable' handlers) and for fail-pairs; for ESRCH and "
    "unrelated errnos a value is accepted only from the handlers the code documents: SunOS exe() readlink -> "
    "guess, NetBSD cmdline EINVAL -> [], the front end's exe() guess, status() -> 'zombie' on a zombie, "
    "wait() -> None/TimeoutExpired; Windows ERROR_PARTIAL_COPY may become AccessDenied only after the 33 "
    "retries on the virtual sleep",
    "PID-0 rule (BSD, Solaris): with 0 in pids() an EIO/EINVAL(/ENOENT on BSD) must come out as AccessDenied; "
    "without 0 in pids() unchanged",
    "Windows errors as CPython raises them: winerror 5 -> errno EACCES (PermissionError); 1314, 299, 87 -> errno "
    "EINVAL; errno-built OSErrors carry winerror None",
    "host os.path is posixpath: Windows exe()/name()/cwd()/open_files()/memory_maps() paths are compared only by "
    "drive prefix / suffix",
    "named-tuple identity is judged by _fields (type names such as puids returned by gids() are observations)",
    "names: '.. function/data/method::' directives of docs/index.rst with their 'Availability:' clause, a "
    "parenthesised platform list on the directive line, or no qualifier (= all platforms); asserted only in the "
    "direction promised => hasattr(psutil, name) and name in psutil.__all__ (methods: hasattr(psutil.Process)); "
    "the FreeBSD stub _psutil_posix exports the RLIMIT_* names the C source defines under FreeBSD 13 headers",
    "system functions: only fields filled directly from a native slot are compared (derived available/used/"
    "percent are not part of the statement); field names must be documented names of that function",
]
REQUIRED_COUNTERS = ["faults_fired", "records_compared", "names_checked", "native_call_points", "ifaddrs_compared"]
SHARD_TIMEOUT = 600

PLATS = ["freebsd", "openbsd", "netbsd", "osx", "sunos", "aix", "windows"]
BSDS = ("freebsd", "openbsd", "netbsd")
PID0_RULE = BSDS + ("sunos",)
ZOMBIE_PLATS = BSDS + ("osx", "sunos", "aix")
PROCFS_NSP = ("sunos", "aix")
PID = 4321
CACHED = "cachedname"

E = errno
FAULTS_POSIX = [dict(errno=E.ESRCH), dict(errno=E.ENOENT), dict(errno=E.EPERM), dict(errno=E.EACCES),
                dict(errno=E.EIO), dict(errno=E.EINVAL)]
FAULTS_WIN_EXTRA = [dict(errno=E.EACCES, winerror=5), dict(errno=E.EINVAL, winerror=1314),
                    dict(errno=E.EINVAL, winerror=299), dict(errno=E.EINVAL, winerror=87)]
FAULTS_MORE = [dict(errno=E.ENODEV), dict(errno=E.EBUSY), dict(errno=E.ENOMEM)]
FAULTS_WIN_MORE = [dict(errno=E.EBADF, winerror=6), dict(errno=E.EINVAL, winerror=998),
                   dict(errno=E.EINVAL, winerror=1), dict(errno=E.ENOENT, winerror=2)]
CORE_ERRNOS = {E.ESRCH, E.ENOENT, E.EPERM, E.EACCES, E.EIO, E.EINVAL, E.ENODEV, E.EBUSY, E.ENOMEM}
FAULTS_THOROUGH = [dict(errno=e) for e in sorted(errno.errorcode) if e not in CORE_ERRNOS]


def fault_class(platform, f):
    w = f.get("winerror")
    if w in (5, 1314):
        return "perm"
    if w == 299:
        return "partial"
    if w is not None and f["errno"] != E.ENOENT:
        return "other"
    e = f["errno"]
    if e == E.ESRCH:
        return "nsp"
    if e == E.ENOENT:
        return "enoent"
    if e in (E.EPERM, E.EACCES):
        return "perm"
    return "other"


def fname(f):
    s = errno.errorcode.get(f["errno"], str(f["errno"]))
    if f.get("winerror") is not None:
        s += f"/winerror{f['winerror']}"
    return s


# ---------------------------------------------------------------------------------------------------
# operations (through the public front end)
# ---------------------------------------------------------------------------------------------------

def _oneshot(p):
    with p.oneshot():
        return (p.name(), p.ppid(), p.cpu_times(), p.memory_info(), p.num_threads(), p.status(),
                p.num_ctx_switches())


def build_ops(ps):
    PP = ps.Process
    has = lambda n: hasattr(PP, n)   # noqa: E731
    win = ps.WINDOWS
    ops = collections.OrderedDict()
    ops["name"] = lambda p: p.name()
    ops["exe"] = lambda p: p.exe()                                # front end: falls back to guessing from cmdline
    ops["exe_layer"] = lambda p: p._proc.exe()                    # the layer's own method (crisp contract)
    ops["cmdline"] = lambda p: p.cmdline()
    ops["environ"] = lambda p: p.environ()
    ops["ppid"] = lambda p: p.ppid()
    ops["cwd"] = lambda p: p.cwd()
    ops["username"] = lambda p: p.username()
    ops["create_time"] = lambda p: p._proc.create_time()          # the front end caches it at construction
    ops["status"] = lambda p: p.status()
    ops["nice_get"] = lambda p: p.nice()
    ops["nice_set"] = lambda p: p.nice(ps.HIGH_PRIORITY_CLASS if win else 5)
    ops["cpu_times"] = lambda p: p.cpu_times()
    ops["memory_info"] = lambda p: p.memory_info()
    ops["memory_full_info"] = lambda p: p.memory_full_info()
    ops["memory_percent"] = lambda p: p.memory_percent()
    ops["num_ctx_switches"] = lambda p: p.num_ctx_switches()
    ops["num_threads"] = lambda p: p.num_threads()
    ops["open_files"] = lambda p: p.open_files()
    ops["net_connections_inet"] = lambda p: p.net_connections("inet")
    ops["net_connections_all"] = lambda p: p.net_connections("all")
    ops["net_connections_tcp4"] = lambda p: p.net_connections("tcp4")
    ops["wait0"] = lambda p: p.wait(0)
    ops["oneshot"] = _oneshot
    if has("threads"):
        ops["threads"] = lambda p: p.threads()
    if has("uids"):
        ops["uids"] = lambda p: p.uids()
        ops["gids"] = lambda p: p.gids()
        ops["terminal"] = lambda p: p.terminal()
        ops["num_fds"] = lambda p: p.num_fds()
    if has("io_counters"):
        ops["io_counters"] = lambda p: p.io_counters()
    if has("cpu_num"):
        ops["cpu_num"] = lambda p: p.cpu_num()
    if has("cpu_affinity"):
        ops["cpu_affinity_get"] = lambda p: p.cpu_affinity()
        ops["cpu_affinity_set"] = lambda p: p.cpu_affinity([0, 1])
    if has("rlimit"):
        ops["rlimit_get"] = lambda p: p.rlimit(ps.RLIMIT_NOFILE)
        ops["rlimit_set"] = lambda p: p.rlimit(ps.RLIMIT_NOFILE, (100, 200))
    if has("memory_maps"):
        ops["memory_maps"] = lambda p: p.memory_maps()
        ops["memory_maps_ungrouped"] = lambda p: p.memory_maps(grouped=False)
    if has("ionice"):
        ops["ionice_get"] = lambda p: p.ionice()
        ops["ionice_set"] = lambda p: p.ionice(ps.IOPRIO_LOW)
    # every public method of the layer's own Process class, called directly (no front-end fall-backs)
    layer_args = {"nice_set": (ps.HIGH_PRIORITY_CLASS if win else 5,), "cpu_affinity_set": ([0, 1],),
                  "rlimit": (getattr(ps, "RLIMIT_NOFILE", 8),), "ionice_set": (1, None),
                  "send_signal": (signal.SIGTERM,), "wait": (0,)}
    skipped = []
    for m in sorted(dir(ps._psplatform.Process)):
        fn = getattr(ps._psplatform.Process, m)
        if m.startswith("_") or not callable(fn) or m in ("oneshot_enter", "oneshot_exit") or isinstance(fn, type):
            continue
        args = layer_args.get(m)
        if args is None:
            try:
                params = list(inspect.signature(fn).parameters.values())[1:]
            except (TypeError, ValueError):
                params = []
            if any(q.default is q.empty and q.kind in (q.POSITIONAL_ONLY, q.POSITIONAL_OR_KEYWORD) for q in params):
                skipped.append(m)
                continue
            args = ()
        ops["L:" + m] = (lambda m, args: lambda p: getattr(p._proc, m)(*args))(m, args)
    build_ops.layer_skipped = skipped
    if not win:
        # the front end's signalling path has platform-conditional steps of its own (OpenBSD: "kill() lies for zombies")
        ops["kill"] = lambda p: p.kill()
        ops["terminate"] = lambda p: p.terminate()
        ops["send_signal_term"] = lambda p: p.send_signal(signal.SIGTERM)
        ops["suspend"] = lambda p: p.suspend()
        ops["resume"] = lambda p: p.resume()
    if win:
        ops["num_handles"] = lambda p: p.num_handles()
        ops["kill"] = lambda p: p.kill()
        ops["terminate"] = lambda p: p.terminate()
        ops["send_signal_term"] = lambda p: p.send_signal(signal.SIGTERM)
        ops["suspend"] = lambda p: p.suspend()
        ops["resume"] = lambda p: p.resume()
    return ops


_env = {}


def setup(platform):
    if _env:
        if _env["platform"] != platform:
            raise RuntimeError(f"worker already is {_env['platform']}; a C20 shard is exactly one platform")
        return _env
    from vlib import platstub
    w = platstub.load(platform)
    _env.update(platform=platform, w=w, ps=w.ps, platstub=platstub, ops=build_ops(w.ps), ttys=tty_map())
    return _env


def tty_map():
    """Independent rdev -> name map of the host (what Process.terminal() documents: the tty device path)."""
    seen = collections.defaultdict(list)
    for name in glob.glob("/dev/tty*") + glob.glob("/dev/pts/*"):
        try:
            st = os.stat(name)
        except OSError:
            continue
        seen[st.st_rdev].append(name)
    return {rdev: names[0] for rdev, names in seen.items() if len(names) == 1}


# ---------------------------------------------------------------------------------------------------
# running one operation
# ---------------------------------------------------------------------------------------------------

class Res:
    pass


def run_op(platform, opname, pid=PID, one=None, from_=None, state="live", pid0_listed=True,
           salt=1, no_tty=False, tty_rdev=None, status=None, zcode=None):
    """Run `opname` on a fresh psutil.Process under a fault plan. -> Res"""
    env = setup(platform)
    w, ps = env["w"], env["ps"]
    w.reset(pid=pid, state="live", salt=salt, pid0_listed=pid0_listed, no_tty=no_tty, tty_rdev=tty_rdev,
            status=status, zombie_code=zcode)
    r = Res()
    r.construct_error = None
    with w.vk:
        try:
            p = ps.Process(pid)
        except BaseException as e:  # noqa: BLE001
            r.kind, r.exc, r.value = "construct", e, None
            r.fired, r.calls, r.faultable, r.sleeps, r.cached = [], [], [], 0, None
            return r
        if opname != "name":
            # what the front end does after a successful name(): self._name = self._proc._name = name
            p._name = CACHED
            p._proc._name = CACHED
        r.cached = p._proc._name
        if hasattr(p._proc, "_ppid") and opname not in ("ppid", "L:ppid"):
            p._proc._ppid = 1           # what an earlier ppid() leaves behind on the layers that remember it
        w.state = state
        w.stub.arm(one=one, from_=from_)
        r.exc = None
        r.value = None
        try:
            v = env["ops"][opname](p)
            if isinstance(v, collections.abc.Iterator):
                v = list(v)
            r.kind, r.value = "value", v
        except ps.ZombieProcess as e:
            r.kind, r.exc = "ZombieProcess", e
        except ps.NoSuchProcess as e:
            r.kind, r.exc = "NoSuchProcess", e
        except ps.AccessDenied as e:
            r.kind, r.exc = "AccessDenied", e
        except ps.TimeoutExpired as e:
            r.kind, r.exc = "TimeoutExpired", e
        except OSError as e:
            r.kind, r.exc = "OSError", e
        except BaseException as e:  # noqa: BLE001
            r.kind, r.exc = "leak", e
            r.tb = traceback.format_exc(limit=6)
        finally:
            w.stub.disarm()
        r.cached_after = p._proc._name
    r.fired = list(w.stub.fired)
    r.calls = [c for c in w.stub.log]
    r.faultable = [c for c in w.stub.log if c.faultable]
    r.sleeps = len(w.clock.sleeps)
    return r


def run_exit_case(platform, opname, pid, prime, salt=1):
    """The process exits for real (natives fail with ESRCH, the table-walking ones answer with nothing) before `opname`
    is called: directly (prime None), or inside a oneshot() block after `prime` was fetched while it was alive."""
    env = setup(platform)
    w, ps = env["w"], env["ps"]
    w.reset(pid=pid, state="live", salt=salt)
    r = Res()
    r.kind, r.exc, r.value, r.tb = None, None, None, None
    with w.vk:
        p = ps.Process(pid)
        if opname != "name":
            p._name = CACHED
            p._proc._name = CACHED
        w.silent_exit = True
        try:
            with (p.oneshot() if prime else contextlib.nullcontext()):
                if prime:
                    env["ops"][prime](p)
                w.state = "gone"
                w.stub.arm()
                try:
                    v = env["ops"][opname](p)
                    if isinstance(v, collections.abc.Iterator):
                        v = list(v)
                    r.kind, r.value = "value", v
                except (ps.NoSuchProcess, ps.AccessDenied, ps.TimeoutExpired) as e:
                    r.kind, r.exc = type(e).__name__, e
                except OSError as e:
                    r.kind, r.exc = "OSError", e
                except BaseException as e:  # noqa: BLE001
                    r.kind, r.exc = "leak", e
                    r.tb = traceback.format_exc(limit=6)
                finally:
                    w.stub.disarm()
        finally:
            w.silent_exit = False
    r.calls = [c for c in w.stub.log]
    r.asked = [c.name for c in w.stub.log if c.in_method and not c.recheck and c.name not in
               setup(platform)["platstub"].SYSTEM_WIDE]
    return r


POSIX_SIGNAL_OPS = {"kill", "terminate", "send_signal_term", "suspend", "resume"}
SETTERS_AND_SIGNALS = {"nice_set", "cpu_affinity_set", "rlimit_set", "ionice_set", "kill", "terminate", "send_signal_term",
                       "suspend", "resume", "wait0", "oneshot"}
# Solaris exe(): a failed readlink of /proc/PID/path/a.out is tolerated by design ("" / the cmdline guess, the fault cases
# above accept it too) and the follow-up cmdline() is legitimately answered from the oneshot cache
EXIT_DIFF_EXEMPT = {("sunos", "exe"), ("sunos", "exe_layer")}
EXIT_PRIMES = ("ppid", "status", "cpu_times", "name", "memory_info")


def do_recycled_case(platform, case, acc):
    """The front end's guard on every platform: the PID of the object now belongs to somebody else (same PID, another creation
    time in the kernel's records) - every signalling and setting method raises NoSuchProcess and nothing reaches the stub
    kernel's sinks, whichever spelling of the request is used."""
    env = setup(platform)
    w, ps = env["w"], env["ps"]
    op, pid = case["op"], case.get("pid", PID)
    viols = []
    w.reset(pid=pid, state="live", salt=case.get("salt", 1))
    with w.vk:
        try:
            p = ps.Process(pid)
        except BaseException as e:  # noqa: BLE001
            acc.case(case, True, [(f"construct_exception:{platform}", repr(e))])
            return
        if case.get("asked_before"):
            p.is_running()
        w.salt = case.get("salt", 1) + 7          # another process under the same PID: every record differs, its creation time too
        if w.fs is not None:
            w.build_fs()
        del w.sink[:]
        if case.get("asked_after"):
            try:
                if p.is_running():
                    viols.append((f"is_running_True_for_recycled_pid:{platform}", f"{case}"))
            except Exception as e:  # noqa: BLE001
                viols.append((f"is_running_exception:{platform}", repr(e)))
        try:
            env["ops"][op](p)
            res = "returned"
        except ps.NoSuchProcess as e:
            res = "NoSuchProcess" if type(e) is ps.NoSuchProcess else type(e).__name__
        except BaseException as e:  # noqa: BLE001
            res = type(e).__name__
        acc.count("setters_and_signals_on_a_recycled_pid")
        delivered = [e for e in w.sink if not (e[0] == "kill" and len(e) > 2 and e[2] == 0)]      # (signal 0 is a probe)
        if delivered:
            viols.append((f"delivered_to_new_owner:{platform}:{op}", f"{case}: reached the kernel as {w.sink!r} ({res})"))
        if res != "NoSuchProcess":
            viols.append((f"no_NoSuchProcess_for_recycled_pid:{platform}:{op}", f"{case}: {res}"))
    acc.case(case, True, viols)


def do_longname_case(platform, case, acc):
    """A kernel name cut at 15 bytes that name() completed from cmdline()[0]: the errors raised afterwards - by the front end and
    by the platform layer alike - carry the name the object reports."""
    env = setup(platform)
    w, ps = env["w"], env["ps"]
    op, pid = case["op"], case.get("pid", PID)
    viols = []
    w.reset(pid=pid, state="live", salt=case.get("salt", 1), name="gnome-keyring-d")
    w.argv0 = "/usr/bin/gnome-keyring-daemon"
    with w.vk:
        try:
            p = ps.Process(pid)
            full = p.name()
        except BaseException as e:  # noqa: BLE001
            acc.case(case, True, [(f"name_exception:{platform}", repr(e))])
            return
        if full != "gnome-keyring-daemon":
            acc.count("longname_cases_without_completion")        # (this platform does not complete names: nothing to compare)
            acc.case(case, False, [])
            return
        w.gone_on_fire = True
        w.stub.arm(one={0: dict(errno=E.ESRCH)}, from_=None)
        try:
            env["ops"][op](p)
            exc = None
        except ps.Error as e:
            exc = e
        except BaseException:  # noqa: BLE001
            exc = None
        finally:
            w.stub.disarm()
            w.gone_on_fire = False
        if exc is not None and w.stub.fired:
            acc.count("errors_after_a_completed_long_name")
            if exc.name != full:
                viols.append((f"error_without_cached_name:{platform}:after_name_was_completed_from_cmdline",
                              f"{case}: name() said {full!r}, the error of {op}() says {exc.name!r}"))
    acc.case(case, True, viols)


def do_exit_case(platform, case, acc):
    """Call-path differential for a process that exits: oneshot() is a cache, so a method that does go to the kernel
    inside a oneshot() block must report the exit exactly as it does outside one."""
    op, pid, prime = case["op"], case.get("pid", PID), case["prime"]
    plain = run_exit_case(platform, op, pid, None, case.get("salt", 1))
    inside = run_exit_case(platform, op, pid, prime, case.get("salt", 1))
    viols = []

    def key(r):
        if r.kind == "value":
            return ("value", repr(r.value))
        # after a successful name() the front end legitimately remembers the real name instead of the planted one
        return (r.kind, type(r.exc).__name__, getattr(r.exc, "pid", None),
                getattr(r.exc, "name", None) if prime != "name" else None, getattr(r.exc, "errno", None))
    compared = False
    if inside.kind == "leak" or plain.kind == "leak":
        lk = inside if inside.kind == "leak" else plain
        viols.append((f"leak:{type(lk.exc).__name__}:{platform}:{op}:after_exit", f"{describe(lk)}\n{lk.tb}"))
    elif (platform, op) in EXIT_DIFF_EXEMPT:
        acc.count("exit_in_oneshot_exempt")
    elif inside.asked:
        compared = True
        acc.count("exit_in_oneshot_compared")
        if key(inside) != key(plain):
            viols.append((f"oneshot_changes_report_of_exit:{platform}:{op}",
                          f"{platform} {op}() on a process that has exited: outside oneshot() -> {describe(plain)}; inside a "
                          f"oneshot() block in which {prime}() was fetched while it was alive -> {describe(inside)}, although the "
                          f"method did ask the kernel ({inside.asked}) and was not answered from the cache"))
    else:
        acc.count("exit_in_oneshot_answered_from_cache")
    acc.case(case, compared, viols)
    return viols


def describe(r):
    if r.kind == "value":
        return "value " + repr(r.value)[:160]
    e = r.exc
    extra = ""
    if r.kind in ("NoSuchProcess", "ZombieProcess", "AccessDenied"):
        extra = f" pid={e.pid!r} name={e.name!r}"
    if r.kind == "OSError":
        extra = f" errno={e.errno} winerror={getattr(e, 'winerror', None)!r} type={type(e).__name__}"
    try:
        text = str(e)[:100]
    except Exception as e2:  # noqa: BLE001  (a psutil exception that cannot even be printed: judged elsewhere)
        text = f"<str() raised {e2!r}>"
    return f"{r.kind}({text}){extra}"


def shape(v):
    if hasattr(v, "_fields"):
        return ("nt", v._fields)
    if isinstance(v, (list, tuple)):
        return (type(v).__name__, tuple(sorted({shape(x) for x in v}, key=str)))
    if isinstance(v, dict):
        return ("dict",)
    if isinstance(v, bool) or v is None:
        return type(v).__name__
    if isinstance(v, (int, float)):
        return "num"
    return type(v).__name__


def shape_ok(got, clean):
    g, c = shape(got), shape(clean)
    if g == c or got is None or clean is None:
        return True
    if isinstance(g, tuple) and isinstance(c, tuple) and g[0] == c[0] and g[0] in ("list", "tuple"):
        return not g[1] or not c[1] or set(g[1]) <= set(c[1]) or g[0] == "tuple"
    return False


# ---------------------------------------------------------------------------------------------------
# (2) the translation-contract oracle
# ---------------------------------------------------------------------------------------------------

def judge_fault(platform, case, r, clean):
    """-> [(mech, detail)]"""
    op, pid, mode, state = case["op"], case["pid"], case["mode"], case["state"]
    faults = [f for (_i, _n, f) in r.fired]
    desc = (f"{platform} {op}() pid={pid} {mode} i={case['i']} inject={[fname(f) for f in case['faults']]} "
            f"state={state}{'/' + case['zcode'] if case.get('zcode') else ''} pid0_listed={case.get('pid0_listed', True)} fired="
            f"{[(i, n, fname(f)) for i, n, f in r.fired]} -> {describe(r)}")
    viols = []

    def v(what, more=""):
        viols.append((f"{what}:{platform}", desc + (" | " + more if more else "")))

    if r.kind == "construct":
        v("construct_failed", repr(r.exc))
        return viols
    if state == "gone0":
        if r.kind == "leak":
            viols.append((f"leak:{type(r.exc).__name__}:{platform}:{op}", desc + " | " + getattr(r, "tb", "")[-700:]))
        elif r.kind in ("NoSuchProcess", "ZombieProcess", "AccessDenied") and r.exc.pid != pid:
            v("error_without_pid", f"exception pid={r.exc.pid!r}")
        elif r.kind == "ZombieProcess" and platform not in PROCFS_NSP:
            v("zombie_reported_for_gone_pid")
        elif r.kind == "AccessDenied" and clean.kind != "AccessDenied":
            v("esrch_reported_as_ad")
        if not faults:
            return viols
        state = "gone"
    if not faults:
        if r.kind != clean.kind:
            v("error_without_fault")
        return viols
    if r.kind == "leak":
        viols.append((f"leak:{type(r.exc).__name__}:{platform}:{op}", desc + " | " + getattr(r, "tb", "")[-700:]))
        return viols

    crisp = mode == "from"
    pid0rule = platform in PID0_RULE and pid == 0 and case.get("pid0_listed", True)
    classes = {fault_class(platform, f) for f in faults}
    allowed = set()        # subset of {"NSP", "AD", "value", ("OSError", errno, winerror)}
    for (_fi, fired_name, f) in r.fired:
        k = fault_class(platform, f)
        raw = ("OSError", f["errno"], f.get("winerror"))
        if k == "enoent" and fired_name.startswith("fs:"):
            k = "enoent_procfs"        # ENOENT on a /proc/<pid>/... access is how a procfs layer sees "no such process"
            allowed.add("NSP")
            if pid0rule:
                allowed.add("AD")
        elif k == "nsp":
            allowed.add("NSP")
        elif k == "perm":
            allowed.add("AD")
        elif k == "enoent":
            allowed.add("NSP")
            if platform not in PROCFS_NSP:
                allowed.add(raw)
            if pid0rule:
                allowed.add("AD")
        elif k == "partial":
            allowed.add(raw)
            allowed.add("AD_after_retry")
        else:
            if pid0rule:
                allowed.add("AD")
            else:
                allowed.add(raw)
        if platform == "netbsd" and op in ("cmdline", "L:cmdline") and f["errno"] == E.EINVAL:
            if state in ("gone", "zombie"):
                allowed.add("NSP")      # ... and reports the process gone / a zombie when that is what the second look finds
            else:
                allowed.add("value")    # documented: cmdline() ignores EINVAL of a live process -> []
    # fail-one: documented fall-backs may answer with a value.  Permission errors and procfs-ENOENT have many
    # (Windows proc_info, SunOS uids()/gids(), SunOS "link not resolvable" handlers); for ESRCH and unrelated
    # errnos only the handlers named here are deliberate, everything else must still raise.
    if not crisp:
        if classes & {"perm", "enoent", "partial"} or mode == "pair" or pid0rule:
            allowed.add("value")        # (under the PID-0 rule every error is a permission error)
        if platform == "sunos" and op in ("L:exe", "exe_layer") and all(n == "fs:readlink" for _i, n, _f in r.fired):
            allowed.add("value")        # SunOS exe(): readlink failure -> guess from cmdline (comment in the code)
    if platform == "sunos" and pid == 0:
        state = "live"                  # the Solaris layer's pid_exists(0) is True by definition: no 'gone' PID 0
    if op in ("status",) and state in ("zombie", "live") and classes <= {"nsp", "enoent"}:
        allowed.add("value")            # STATUS_ZOMBIE is the documented answer to ZombieProcess
    if op == "exe":
        allowed.add("value")            # front end: guess from cmdline / '' (documented "may be an empty string")
    if op in ("wait0", "L:wait"):
        allowed.add("value")            # wait() answers None / TimeoutExpired for a pid that is not ours

    kind = r.kind
    if kind in ("NoSuchProcess", "ZombieProcess", "AccessDenied"):
        # the exception itself is well formed: it can be printed / logged, and its message is a message
        try:
            str(r.exc), repr(r.exc)
            if r.exc.msg is not None and not isinstance(r.exc.msg, str):
                raise TypeError(f"msg={r.exc.msg!r}")
        except Exception as e:  # noqa: BLE001
            v("malformed_exception", f"{kind} whose msg is {getattr(r.exc, 'msg', None)!r}: str()/repr() -> {e!r}")
    if mode == "pair" and len(r.fired) == 2 and not pid0rule:
        # the method went on after the first error (it asked the kernel again): that error was tolerated, and what ends the
        # call is the second one - a first error that resurfaces hides what really happened (e.g. the process exiting
        # between a refused direct query and its fall-back)
        k1, k2 = (fault_class(platform, f) for (_i, _n, f) in r.fired)
        # (the front end's exe() is the documented exception: "guess from the command line, else raise the original AccessDenied")
        if k1 == "perm" and k2 in ("nsp", "other") and kind == "AccessDenied" and op != "exe":
            v("tolerated_first_error_resurfaced_after_second:" + k2)
    if kind in ("NoSuchProcess", "ZombieProcess", "AccessDenied"):
        if r.exc.pid != pid:
            v("error_without_pid", f"exception pid={r.exc.pid!r}")
        if r.exc.name != r.cached and r.exc.name != r.cached_after:
            v("error_without_cached_name", f"exception name={r.exc.name!r} cached={r.cached!r}/{r.cached_after!r}")
    if kind in ("NoSuchProcess", "ZombieProcess"):
        if "NSP" not in allowed:
            what = {"perm": "perm_reported_as_nsp", "other": "other_errno_converted_to_nsp",
                    "partial": "other_errno_converted_to_nsp"}.get(sorted(classes)[0], "unexpected_nsp")
            v(what)
        elif classes <= {"nsp", "enoent"}:
            if state == "zombie" and kind != "ZombieProcess":
                zc = case.get("zcode", "SZOMB")
                viols.append((f"zombie_not_reported:{platform}:{zc}", desc + f" | the status probe answered "
                              f"cext.{zc}, which is how this kernel lists a zombie; ZombieProcess expected"))
            if state == "gone" and kind == "ZombieProcess":
                v("zombie_reported_for_gone_pid")
    elif kind == "AccessDenied":
        if "AD" in allowed:
            pass
        elif "AD_after_retry" in allowed and r.sleeps >= 32:
            pass
        else:
            what = {"nsp": "esrch_reported_as_ad", "enoent": "enoent_reported_as_ad",
                    "other": "other_errno_converted_to_ad", "partial": "other_errno_converted_to_ad"
                    }.get(sorted(classes)[0], "unexpected_ad")
            v(what)
    elif kind == "OSError":
        got = ("OSError", r.exc.errno, getattr(r.exc, "winerror", None) if platform == "windows" else None)
        want = {a for a in allowed if isinstance(a, tuple)}
        want = {(a[0], a[1], a[2] if platform == "windows" else None) for a in want}
        if got not in want:
            if "NSP" in allowed and classes <= {"nsp", "enoent"} and not want:
                v("esrch_not_translated")
            elif "AD" in allowed and classes <= {"perm"}:
                v("perm_not_translated")
            elif pid0rule and "AD" in allowed:
                v("pid0_rule_not_applied")
            elif want:
                v("other_errno_changed", f"want one of {sorted(want, key=str)}")
            else:
                v("raw_oserror_leaked")
    elif kind == "TimeoutExpired":
        if clean.kind != "TimeoutExpired":
            v("unexpected_timeout")
    elif kind == "value":
        if "value" not in allowed:
            what = {"nsp": "esrch_swallowed", "perm": "perm_swallowed", "enoent": "enoent_swallowed",
                    "other": "other_errno_swallowed", "partial": "other_errno_swallowed"}[sorted(classes)[0]]
            v(what, "fail-all must raise" if crisp else "no documented fall-back swallows this error here")
        elif clean.kind == "value" and not shape_ok(r.value, clean.value):
            v("malformed_value_under_fault", f"clean={clean.value!r}"[:300])
        elif mode == "one" and len(r.fired) == 1 and clean.kind == "value" and r.value != clean.value:
            # a tolerated error changed the answer: it must be the answer the documented fall-back gives,
            # computed here from the *other* native record's slots by documented field name (platstub.LAYOUT)
            ok, want = fallback_value(platform, op, pid, r.fired[0][1], r, clean)
            if not ok:
                viols.append((f"fallback_value_wrong:{platform}:{op}", desc + f" | the value answered after the "
                              f"tolerated error differs from the clean answer {str(clean.value)[:300]!r} and from "
                              f"what the documented fall-back must give: {str(want)[:500]}"))
    return viols


def _plain(v):
    if isinstance(v, (list, tuple)):
        return [_plain(x) for x in v]
    return v


def fallback_value(platform, op, pid, native, r, clean):
    """Expected answer of a value-returning fall-back taken because `native` failed. -> (ok, description)"""
    env = setup(platform)
    w = env["w"]
    got = r.value
    base = op[2:] if op.startswith("L:") else op
    layer = op.startswith("L:") or op.endswith("_layer")
    want = None            # list of acceptable values
    if base == "status":
        want = ["zombie"]                       # front end: ZombieProcess -> STATUS_ZOMBIE
    elif base in ("exe", "exe_layer"):
        # layer: SunOS "" after a failed readlink; front end: absolute cmdline[0] if it is an executable, else ""
        want = [""] if layer else ["/bin/sh", ""]
    elif platform == "netbsd" and base == "cmdline":
        want = [[]]
    elif base == "cwd" and platform in ("sunos", "aix") and native == "fs:readlink":
        want = [""]                             # documented: link not resolvable although the pid is alive
    elif platform == "sunos" and native == "proc_cred":
        b = w.record("proc_basic_info")
        if base == "uids":
            want = [(b["uid"], b["euid"], None)]
        elif base == "gids":
            want = [(b["gid"], b["egid"], None)]
        elif base == "username":
            want = [str(b["uid"])]
    elif platform == "sunos" and base in ("open_files", "threads"):
        rows = [tuple(x) for x in clean.value]
        if all(tuple(x) in rows for x in got) and len(got) < len(rows):
            return True, "a sub-list of the clean answer (entry gone in the meantime)"
        want = ["<a sub-list of the clean answer>"]
    elif platform == "sunos" and base in ("memory_maps", "memory_maps_ungrouped") and native == "fs:readlink":
        link = f"/proc/{pid}/path/a.out"        # documented: "we just return the unresolved link path"
        want = [[tuple(link if x == "/usr/bin/python3.9" else x for x in row) for row in clean.value]]
    elif platform == "windows":
        i = w.record("proc_info")
        mem = (i["wset"], i["pagefile"], i["num_page_faults"], i["peak_wset"], i["wset"], i["peak_paged_pool"],
               i["paged_pool"], i["peak_non_paged_pool"], i["non_paged_pool"], i["pagefile"], i["peak_pagefile"],
               i["mem_private"])
        cpu = (i["user_time"], i["kernel_time"], 0.0, 0.0)
        if native == "proc_memory_info":
            if base == "memory_info":
                want = [mem]
            elif base == "memory_full_info":
                want = [mem + ((4242 + w.salt) * 4096,)]
            elif base == "memory_percent":
                # total physical memory is cached by the front end: compare the ratio to the clean answer
                m = w.record("proc_memory_info")
                if abs(got * m["wset"] - clean.value * i["wset"]) <= 1e-9 * abs(clean.value * i["wset"]):
                    return True, "clean * proc_info.wset / proc_memory_info.wset"
                want = [clean.value * i["wset"] / m["wset"]]
            elif base == "oneshot":
                c = list(clean.value)
                c[3] = mem
                want = [tuple(c)]
        elif native == "proc_times":
            if base == "cpu_times":
                want = [cpu]
            elif base == "create_time":
                want = [i["create_time"]]
            elif base == "oneshot":
                c = list(clean.value)
                c[2] = cpu
                want = [tuple(c)]
        elif native == "proc_io_counters" and base == "io_counters":
            want = [(i["io_rcount"], i["io_wcount"], i["io_rbytes"], i["io_wbytes"], i["io_count_others"],
                     i["io_bytes_others"])]
        elif native == "proc_num_handles" and base == "num_handles":
            want = [i["num_handles"]]
    if want is None:
        return False, "no documented fall-back answers with a different value here"
    g = _plain(got)
    for x in want:
        if g == _plain(x):
            return True, x
    return False, want


def fault_cases(platform, opname, pid, n, tier, pid0_listed=True):
    faults = list(FAULTS_POSIX) + FAULTS_MORE
    if platform == "windows":
        faults += FAULTS_WIN_EXTRA
    pair_faults = list(faults)
    if tier == "thorough":
        faults += FAULTS_THOROUGH
        if platform == "windows":
            faults += FAULTS_WIN_MORE
    if getattr(setup(platform)["w"].plat, "IS_64_BIT", True) is False:
        # (EOVERFLOW there is the documented "64-bit process seen by a 32-bit interpreter": answered with zeros / skipped)
        faults = [f for f in faults if f["errno"] != E.EOVERFLOW]
    out = []
    zcodes = setup(platform)["platstub"].ZOMBIE_CODES.get(platform, [])
    if opname in POSIX_SIGNAL_OPS and platform != "windows":
        # the only call point is kill(2), whose errors are ESRCH, EPERM and EINVAL
        faults = [f for f in faults if f["errno"] in (E.ESRCH, E.EPERM, E.EINVAL)]
        pair_faults = [f for f in pair_faults if f["errno"] in (E.ESRCH, E.EPERM, E.EINVAL)]
    if opname in POSIX_SIGNAL_OPS and platform not in ("windows", "openbsd"):
        # kill(2) succeeds on a zombie everywhere but on OpenBSD: an ESRCH from it with the process still listed as a zombie
        # is not a situation these kernels produce
        zcodes = []
    base = dict(k="fault", platform=platform, op=opname, pid=pid)
    if not pid0_listed:
        base["pid0_listed"] = False
    if pid != 0:
        # the pid is gone before the call starts and every native fails with ESRCH: whatever the method
        # consults (ppid_map, pids, pid_exists...) the answer must be a psutil error or a value, never a leak
        out.append(dict(base, mode="from", i=0, faults=[dict(errno=E.ESRCH)], state="gone0"))
    for i in range(n):
        for f in faults:
            k = fault_class(platform, f)
            out.append(dict(base, mode="one", i=i, faults=[f], state="live"))
            out.append(dict(base, mode="from", i=i, faults=[f], state="gone" if k in ("nsp", "enoent") else "live"))
            if k in ("nsp", "enoent") and platform in ZOMBIE_PLATS and pid0_listed:
                for zc in zcodes:        # once per native status code this kernel uses for a zombie
                    out.append(dict(base, mode="one", i=i, faults=[f], state="zombie", zcode=zc))
                    out.append(dict(base, mode="from", i=i, faults=[f], state="zombie", zcode=zc))
    if platform == "netbsd" and opname in ("cmdline", "L:cmdline") and pid != 0:
        # NetBSD's sysctl answers EINVAL for the argument vector of a process that is going / gone: the layer looks again
        for i in range(n):
            for st in ("gone", "zombie"):
                for zc in (zcodes if st == "zombie" else [None]):
                    out.append(dict(base, mode="one", i=i, faults=[dict(errno=E.EINVAL)], state=st, **({"zcode": zc} if zc else {})))
    for i in range(n):
        for j in range(i + 1, n):
            for fa in pair_faults:
                for fb in pair_faults:
                    if fa is not fb:
                        out.append(dict(base, mode="pair", i=i, j=j, faults=[fa, fb], state="live"))
    return out


def run_fault_case(platform, case, clean=None):
    op, pid = case["op"], case["pid"]
    listed = case.get("pid0_listed", True)
    if clean is None:
        clean = run_op(platform, op, pid=pid, pid0_listed=listed)
    one = from_ = None
    if case["mode"] == "one":
        one = {case["i"]: case["faults"][0]}
    elif case["mode"] == "from":
        from_ = (case["i"], case["faults"][0])
    else:
        one = {case["i"]: case["faults"][0], case["j"]: case["faults"][1]}
    state = case["state"]
    start_state = {"zombie": "zombie", "gone0": "gone"}.get(state, "live")
    env = setup(platform)
    env["w"].gone_on_fire = state == "gone"
    r = run_op(platform, op, pid=pid, one=one, from_=from_, state=start_state, pid0_listed=listed,
               zcode=case.get("zcode"))
    env["w"].gone_on_fire = False
    return r, judge_fault(platform, case, r, clean)


# ---------------------------------------------------------------------------------------------------
# (1) record layout: documented fields + expected values from the native slots
# ---------------------------------------------------------------------------------------------------

F_CPU = ("user", "system", "children_user", "children_system")
F_IDS = ("real", "effective", "saved")
F_CTX = ("voluntary", "involuntary")
F_THR = ("id", "user_time", "system_time")
F_OF = ("path", "fd")
F_CONN = ("fd", "family", "type", "laddr", "raddr", "status")
F_IO = ("read_count", "write_count", "read_bytes", "write_bytes")
F_WIN_MEM = ("rss", "vms", "num_page_faults", "peak_wset", "wset", "peak_paged_pool", "paged_pool",
             "peak_nonpaged_pool", "nonpaged_pool", "pagefile", "peak_pagefile", "private")
DOC_MEM = {"bsd": ("rss", "vms", "text", "data", "stack"), "osx": ("rss", "vms", "pfaults", "pageins"),
           "sunos": ("rss", "vms"), "aix": ("rss", "vms"), "windows": F_WIN_MEM}
DOC_FULLMEM = {"bsd": DOC_MEM["bsd"], "osx": DOC_MEM["osx"] + ("uss",), "sunos": ("rss", "vms"),
               "aix": ("rss", "vms"), "windows": F_WIN_MEM + ("uss",)}
DOC_MAPS = {"freebsd": ("rss", "private", "ref_count", "shadow_count"), "sunos": ("rss", "anonymous", "locked"),
            "windows": ("rss",)}
# documented status strings (docs/index.rst "Process status constants"), keyed by the kernel's state name
DOC_STATUS = {"SDEAD": "zombie", "SSLEEP": "sleeping", "SSTOP": "stopped", "SZOMB": "zombie", "SIDL": "idle", "SACTIVE": "running",
              "SWAIT": "waiting", "SLOCK": "locked", "SONPROC": "running"}
# docs net_connections() kind table
KINDS = {"inet": ({socket.AF_INET, socket.AF_INET6}, {socket.SOCK_STREAM, socket.SOCK_DGRAM}),
         "tcp4": ({socket.AF_INET}, {socket.SOCK_STREAM}),
         "all": ({socket.AF_INET, socket.AF_INET6, socket.AF_UNIX}, {socket.SOCK_STREAM, socket.SOCK_DGRAM,
                                                                      socket.SOCK_SEQPACKET})}


def fam_of(platform):
    return "bsd" if platform in BSDS else platform


def expected_conns(w, platform, kind, extra_unix=None):
    fams, types = KINDS[kind]
    c = w.consts
    names = {c.get("TCPS_ESTABLISHED", c.get("MIB_TCP_STATE_ESTAB")): "ESTABLISHED",
             c.get("TCPS_LISTEN", c.get("MIB_TCP_STATE_LISTEN")): "LISTEN"}
    out = []
    for fd, fam, typ, la, ra, st in w.conn_rows():
        if fam not in fams or typ not in types:
            continue
        status = names.get(st, "NONE") if (typ == socket.SOCK_STREAM and fam != socket.AF_UNIX) else "NONE"
        out.append((fd, int(fam), int(typ), tuple(la) if not isinstance(la, str) else la,
                    tuple(ra) if not isinstance(ra, str) else ra, status))
    if extra_unix and socket.AF_UNIX in fams:
        out.extend(extra_unix)
    return out


def norm_conns(v):
    return sorted(((x.fd, int(x.family), int(x.type), tuple(x.laddr) if not isinstance(x.laddr, str) else x.laddr,
                    tuple(x.raddr) if not isinstance(x.raddr, str) else x.raddr, x.status) for x in v), key=repr)


def expectations(platform, w, env, no_tty=False):
    """op -> (documented fields or None, expected value, comparator name) from the *native slots*."""
    P = platform
    fam = fam_of(P)
    R = w.record
    salt = w.salt
    ex = {}
    tty = None if no_tty else env["ttys"].get(w.ttynr())
    cmd = ["/bin/sh", "-c", "sleep %d" % salt]
    envd = {"HOME": "/root", "LANG": "C", "SALT": str(salt)}
    thr = [tuple(t) for t in w.threads_rows()]
    status_doc = DOC_STATUS[w.status_name or ("SACTIVE" if P == "aix" else "SSLEEP")]
    if fam in ("bsd", "osx"):
        o = R("proc_oneshot_info") if fam == "bsd" else R("proc_kinfo_oneshot")
        ex["name"] = (None, w.name)
        ex["ppid"] = (None, o["ppid"])
        ex["uids"] = (F_IDS, (o["ruid"], o["euid"], o["suid"]))
        ex["gids"] = (F_IDS, (o["rgid"], o["egid"], o["sgid"]))
        ex["create_time"] = (None, o["ctime"])
        ex["terminal"] = (None, tty)
        ex["status"] = (None, status_doc)
        ex["username"] = (None, str(o["ruid"]))
        ex["nice_get"] = (None, 5)
        ex["cmdline"] = (None, cmd)
        ex["environ"] = (None, envd)
        ex["cwd"] = (None, "/home/user%d" % salt)
        ex["threads"] = (F_THR, thr)
        ex["num_fds"] = (None, 7 + salt)
        for kind in KINDS:
            ex["net_connections_" + kind] = (F_CONN, expected_conns(w, P, kind))
    if fam == "bsd":
        ex["cpu_times"] = (F_CPU, (o["utime"], o["stime"], o["ch_utime"], o["ch_stime"]))
        ex["memory_info"] = (DOC_MEM["bsd"], (o["rss"], o["vms"], o["text"], o["data"], o["stack"]))
        ex["memory_full_info"] = (DOC_FULLMEM["bsd"], ex["memory_info"][1])
        ex["num_ctx_switches"] = (F_CTX, (o["nvcsw"], o["nivcsw"]))
        ex["io_counters"] = (F_IO, (o["inblock"], o["oublock"], -1, -1))
        ex["num_threads"] = (None, 2)
        ex["open_files"] = (F_OF, [("/etc/passwd", 3), ("/nonexistent/gone", 4)])
        ex["exe"] = (None, {"freebsd": "/usr/local/bin/python3.9", "netbsd": "/usr/pkg/bin/python3.9",
                            "openbsd": "/bin/sh"}[P])
        ex["exe_layer"] = ex["exe"]
        if P == "freebsd":
            ex["cpu_num"] = (None, o["oncpu"])
            ex["cpu_affinity_get"] = (None, [0, 2])
            ex["rlimit_get"] = (None, (1024 + salt, 4096))
            b = 100000 * salt
            ex["memory_maps"] = (("path",) + DOC_MAPS["freebsd"],
                                 [("/lib/libc.so.7", 2 * b + 6, 2 * b + 8, 2 * b + 10, 2 * b + 12),
                                  ("[heap]", b + 9, b + 10, b + 11, b + 12)])
            ex["memory_maps_ungrouped"] = (
                ("addr", "perms", "path") + DOC_MAPS["freebsd"],
                [("0x1000-0x2000", "r-x", "/lib/libc.so.7", b + 1, b + 2, b + 3, b + 4),
                 ("0x3000-0x4000", "rw-", "/lib/libc.so.7", b + 5, b + 6, b + 7, b + 8),
                 ("0x5000-0x6000", "rw-", "[heap]", b + 9, b + 10, b + 11, b + 12)])
    if fam == "osx":
        t = R("proc_pidtaskinfo_oneshot")
        ex["cpu_times"] = (F_CPU, (t["utime"], t["stime"], 0.0, 0.0))
        ex["memory_info"] = (DOC_MEM["osx"], (t["rss"], t["vms"], t["pfaults"], t["pageins"]))
        ex["memory_full_info"] = (DOC_FULLMEM["osx"], ex["memory_info"][1] + (4242 + salt,))
        ex["num_ctx_switches"] = (F_CTX, (t["volctxsw"], 0))
        ex["num_threads"] = (None, t["numthreads"])
        ex["open_files"] = (F_OF, [("/etc/passwd", 3)])
        ex["exe"] = ex["exe_layer"] = (None, "/usr/local/bin/python3.9")
    if fam in ("sunos", "aix"):
        b = R("proc_basic_info")
        cr = R("proc_cred")
        ct = R("proc_cpu_times")
        cs = R("proc_num_ctx_switches")
        ex["name"] = (None, w.name)
        ex["ppid"] = (None, b["ppid"])
        ex["uids"] = (F_IDS, (cr["ruid"], cr["euid"], cr["suid"]))
        ex["gids"] = (F_IDS, (cr["rgid"], cr["egid"], cr["sgid"]))
        ex["username"] = (None, str(cr["ruid"]))
        ex["create_time"] = (None, b["ctime"])
        ex["status"] = (None, status_doc)
        ex["cmdline"] = (None, " ".join(cmd).split(" ") if fam == "sunos" else cmd)   # psinfo pr_psargs is flat
        ex["environ"] = (None, envd)
        ex["cwd"] = (None, "/home/user%d" % salt)
        ex["cpu_times"] = (F_CPU, tuple(ct.values()))
        ex["memory_info"] = (DOC_MEM[fam], (b["rss"] * 1024, b["vms"] * 1024))
        ex["memory_full_info"] = (DOC_FULLMEM[fam], (b["rss"] * 1024, b["vms"] * 1024))
        ex["num_threads"] = (None, b["nlwp"])
        ex["num_ctx_switches"] = (F_CTX, tuple(cs.values()))
        ex["num_fds"] = (None, 4)
        ex["open_files"] = (F_OF, [("/etc/passwd", 3)])
    if fam == "sunos":
        q = R("query_process_thread")
        ex["nice_get"] = (None, b["nice"])
        ex["exe"] = ex["exe_layer"] = (None, "/usr/bin/python3.9")
        ex["cpu_num"] = (None, 3)
        ex["terminal"] = (None, None if no_tty else "/dev/pts/3")
        ex["threads"] = (F_THR, [(tid, q["utime"] + tid, q["stime"] + tid) for tid in (1, 2)])
        unix = [(-1, int(socket.AF_UNIX), int(socket.SOCK_STREAM), "/tmp/sock.b", "", "NONE")]
        for kind in KINDS:
            ex["net_connections_" + kind] = (F_CONN, expected_conns(w, P, kind, unix if kind == "all" else None))
        bb = 100000 * salt
        ex["memory_maps"] = (("path",) + DOC_MAPS["sunos"],
                             [("/usr/bin/python3.9", bb + 1, bb + 2, bb + 3), ("[heap]", bb + 4, bb + 5, bb + 6)])
        ex["memory_maps_ungrouped"] = (("addr", "perms", "path") + DOC_MAPS["sunos"],
                                       [("1000-2000", "r-x", "/usr/bin/python3.9", bb + 1, bb + 2, bb + 3),
                                        ("8000-9000", "rw-", "[heap]", bb + 4, bb + 5, bb + 6)])
    if fam == "aix":
        io = R("proc_io_counters")
        ex["nice_get"] = (None, 5)
        ex["exe"] = ex["exe_layer"] = (None, "/bin/sh")
        ex["threads"] = (F_THR, thr)
        ex["io_counters"] = (F_IO, tuple(io.values()))
        for kind in KINDS:
            ex["net_connections_" + kind] = (F_CONN, expected_conns(w, P, kind))
    if fam == "windows":
        i = R("proc_info")
        t = R("proc_times")
        m = R("proc_memory_info")
        io = R("proc_io_counters")
        ex["ppid"] = (None, 1)
        ex["cmdline"] = (None, cmd)
        ex["environ"] = (None, envd)
        ex["username"] = (None, "DOMAIN%d\\user" % salt)
        ex["create_time"] = (None, t["create"])
        ex["cpu_times"] = (F_CPU, (t["user"], t["kernel"], 0.0, 0.0))
        mv = tuple(m.values())
        ex["memory_info"] = (DOC_MEM["windows"], (m["wset"], m["pagefile"]) + mv)
        ex["memory_full_info"] = (DOC_FULLMEM["windows"], (m["wset"], m["pagefile"]) + mv + ((4242 + salt) * 4096,))
        ex["num_threads"] = (None, i["num_threads"])
        ex["num_ctx_switches"] = (F_CTX, (i["ctx_switches"], 0))
        ex["num_handles"] = (None, 99 + salt)
        ex["threads"] = (F_THR, thr)
        ex["io_counters"] = (F_IO + ("other_count", "other_bytes"), tuple(io.values()))
        ex["status"] = (None, "running")
        ex["nice_get"] = (None, 0x20)
        ex["ionice_get"] = (None, 2)
        ex["cpu_affinity_get"] = (None, [0, 2])
        for kind in KINDS:
            ex["net_connections_" + kind] = (F_CONN, expected_conns(w, P, kind))
    return ex


def compare_record(platform, opname, r, ex, env, w):
    """-> (compared: bool, [(mech, detail)])"""
    viols = []
    if r.kind == "leak" or r.kind == "construct" or (r.kind != "value" and opname not in ("wait0", "L:wait")):
        if opname in ("cwd",) and platform == "windows" and r.kind == "AccessDenied":
            return False, viols
        viols.append((f"clean_run_raised:{platform}:{opname}", f"{platform} {opname}() on a live pid without any "
                      f"fault -> {describe(r)} {getattr(r, 'tb', '')[-500:]}"))
        return False, viols
    key = opname
    if opname.startswith("L:"):
        m = opname[2:]
        key = next((k for k in (m, m + "_get", {"exe": "exe_layer", "net_connections": "net_connections_inet",
                                                "rlimit": "rlimit_get"}.get(m, m)) if k in ex), None)
        if m in ("memory_maps", "exe") and key != "exe_layer":
            key = None          # raw tuples at layer level; compared through the front end
    if key not in ex:
        return False, viols
    fields, want = ex[key]
    got = r.value
    where = f"{platform} {opname}() salt={w.salt}"
    if fields is not None:
        items = got if isinstance(got, list) else [got]
        for it in items:
            gf = getattr(it, "_fields", None)
            if gf != tuple(fields):
                viols.append((f"fields_differ_from_docs:{platform}:{opname}",
                              f"{where}: _fields={gf!r} documented={tuple(fields)!r}"))
                break
    try:
        if opname.startswith("net_connections"):
            g, wv = norm_conns(got), sorted(want, key=repr)
        elif isinstance(want, list) and want and isinstance(want[0], tuple):
            g, wv = sorted(tuple(x) for x in got), sorted(want)
        elif isinstance(want, tuple):
            g, wv = tuple(got), want
        else:
            g, wv = got, want
    except (TypeError, AttributeError) as e:
        g, wv = f"<{type(e).__name__}: {e}> {got!r}", want
    if g != wv or (isinstance(wv, (int, float, str)) and type(g) is not type(wv) and not isinstance(g, type(wv))):
        mech = f"slot_mismatch:{platform}:{opname}"
        more = ""
        if platform == "sunos" and opname in ("terminal", "L:terminal") and w.no_tty and got is not None:
            mech = "sunos_terminal_ignores_PRNODEV"
            more = (" | reproducer: cext.proc_basic_info() hands back ttynr == cext.PRNODEV (no controlling "
                    "terminal) while /proc/<pid>/path/0 -> /dev/pts/3 (an inherited descriptor); Process.terminal() "
                    "must be None but returns the link target: the slot value is wrapped in wrap_exceptions(...), "
                    "so `tty != cext.PRNODEV` compares a function object and is always true")
        viols.append((mech, f"{where}: got {g!r} want (from the native slots) {wv!r}{more}"))
    return True, viols


def windows_path_checks(platform, opname, r, w):
    """Windows results that depend on ntpath are compared only for the host-independent parts."""
    out = []
    if r.kind != "value":
        return out
    v = r.value
    s = w.salt
    if opname in ("L:exe", "L:name", "L:cwd"):
        opname = opname[2:]
    ps_ = setup(platform)["platstub"]
    if opname in ("exe", "exe_layer"):
        # os.path.join on a posix host puts a "/" between drive and remainder: only drive and remainder are judged
        drive, rest = ps_.win_drive(s, 0), "\\Windows\\notepad%d.exe" % s
        if not (v.startswith(drive) and v.endswith(rest) and len(v) <= len(drive) + len(rest) + 1):
            out.append(("slot_mismatch:windows:exe", f"exe() -> {v!r}; the native name is {ps_.win_device(s, 0) + rest!r} "
                        f"and QueryDosDevice maps that device to {drive!r}"))
    if opname == "name" and not v.endswith("notepad%d.exe" % s):
        out.append(("slot_mismatch:windows:name", f"name() -> {v!r}"))
    if opname == "cwd" and not v.startswith("C:\\Users\\user%d" % s):
        out.append(("slot_mismatch:windows:cwd", f"cwd() -> {v!r}"))
    if opname == "memory_maps":
        b = 100000 * s
        drive, rest = ps_.win_drive(s, 1), "\\Windows\\n.dll"
        ok = (len(v) == 1 and v[0]._fields == ("path", "rss") and v[0].rss == 2 * b + 3
              and v[0].path.startswith(drive) and v[0].path.endswith(rest) and len(v[0].path) <= len(drive) + len(rest) + 1)
        if not ok:
            out.append(("slot_mismatch:windows:memory_maps", f"memory_maps() -> {v!r}; the mapped file is on "
                        f"{ps_.win_device(s, 1)!r} = {drive!r}"))
    if opname == "memory_maps_ungrouped":
        b = 100000 * s
        drive, rest = ps_.win_drive(s, 1), "\\Windows\\n.dll"
        ok = ([x._fields for x in v] == [("addr", "perms", "path", "rss")] * 2
              and [(x.addr, x.perms, x.rss) for x in v] == [("0x400000", "r", b + 1), ("0x800000", "rw", b + 2)]
              and all(x.path.startswith(drive) and x.path.endswith(rest) and len(x.path) <= len(drive) + len(rest) + 1 for x in v))
        if not ok:
            out.append(("slot_mismatch:windows:memory_maps_ungrouped", f"-> {v!r}"))
    return out


# system functions --------------------------------------------------------------------------------

DOC_SYS_FIELDS = {
    "cpu_times": {"user", "system", "idle", "nice", "iowait", "irq", "softirq", "steal", "guest", "guest_nice",
                  "interrupt", "dpc"},
    "virtual_memory": {"total", "available", "percent", "used", "free", "active", "inactive", "buffers", "cached",
                       "shared", "slab", "wired"},
    "swap_memory": {"total", "used", "free", "percent", "sin", "sout"},
    "cpu_stats": {"ctx_switches", "interrupts", "soft_interrupts", "syscalls"},
    "disk_io_counters": {"read_count", "write_count", "read_bytes", "write_bytes", "read_time", "write_time",
                         "busy_time", "read_merged_count", "write_merged_count"},
    "net_io_counters": {"bytes_sent", "bytes_recv", "packets_sent", "packets_recv", "errin", "errout", "dropin",
                        "dropout"},
    "disk_partitions": {"device", "mountpoint", "fstype", "opts"},
    "users": {"name", "terminal", "host", "started", "pid"},
    "cpu_freq": {"current", "min", "max"},
    "sensors_battery": {"percent", "secsleft", "power_plugged"},
    "net_if_stats": {"isup", "duplex", "speed", "mtu", "flags"},
    "net_connections": {"fd", "family", "type", "laddr", "raddr", "status", "pid"},
}
VMEM_MAP = {   # psutil field -> native slot (docs: virtual_memory(); C builders)
    "bsd": dict(total="total", free="free", active="active", inactive="inactive", wired="wired", cached="cached"),
    "osx": dict(total="total", active="active", inactive="inactive", wired="wired"),
    "aix": dict(total="total", available="avail", free="free", used="inuse"),
    "windows": dict(total="totphys", available="availphys", free="availphys"),
}


def sys_cases(platform):
    fns = ["cpu_times", "cpu_times_percpu", "cpu_count", "cpu_stats", "virtual_memory", "swap_memory",
           "disk_partitions", "disk_io_counters", "net_io_counters", "net_connections", "net_if_stats", "boot_time",
           "users", "pids", "pid_exists", "cpu_freq", "sensors_battery", "sensors_temperatures", "win_services",
           "getloadavg", "disk_usage"]
    return fns


def run_sysfn(platform, fn, salt, PID=PID):
    """-> (compared, viols)"""
    env = setup(platform)
    w, ps, pst = env["w"], env["ps"], env["platstub"]
    w.reset(salt=salt, pid=PID)
    fam = fam_of(platform)
    viols = []

    def bad(what, detail):
        viols.append((f"{what}:{platform}:{fn}", f"{platform} psutil.{fn} salt={salt}: {detail}"))

    def slots(name, add):
        return pst.fill(pst.layout(platform, name), 50000 * salt + add)

    def fields_ok(nt, key):
        extra = set(nt._fields) - DOC_SYS_FIELDS[key]
        if extra:
            bad("fields_differ_from_docs", f"undocumented fields {sorted(extra)} in {nt!r}")

    def same_name(nt, s, key, skip=()):
        fields_ok(nt, key)
        for f in nt._fields:
            if f in s and f not in skip and getattr(nt, f) != s[f]:
                bad("slot_mismatch", f"field {f}={getattr(nt, f)!r} but native slot {f}={s[f]!r} ({nt!r})")

    try:
        with w.vk:
            if fn == "cpu_times":
                if not hasattr(ps, "cpu_times"):
                    return False, viols
                r = ps.cpu_times()
                if platform in ("sunos", "aix"):
                    rows = [pst.fill(pst.layout(platform, "per_cpu_times"), 50000 * salt + 2500 + 400 * k) for k in (0, 1)]
                    s = {f: float(rows[0][f]) + float(rows[1][f]) for f in rows[0]}
                elif platform == "windows":
                    s = dict(slots("cpu_times", 1700))
                    rows = [pst.fill(pst.layout(platform, "per_cpu_times"), 50000 * salt + 2500 + 400 * k) for k in (0, 1)]
                    s["interrupt"] = float(rows[0]["interrupt"]) + float(rows[1]["interrupt"])
                    s["dpc"] = float(rows[0]["dpc"]) + float(rows[1]["dpc"])
                else:
                    s = slots("cpu_times", 1700)
                same_name(r, s, "cpu_times")
            elif fn == "cpu_times_percpu":
                r = ps.cpu_times(percpu=True)
                nm = "per_cpu_times" if platform in ("sunos", "aix", "windows") else "cpu_times"
                if len(r) != 2:
                    bad("slot_mismatch", f"{len(r)} rows for 2 native rows")
                for k, row in enumerate(r):
                    s = {f: float(x) for f, x in pst.fill(pst.layout(platform, nm), 50000 * salt + 2500 + 400 * k).items()}
                    same_name(row, s, "cpu_times")
            elif fn == "cpu_count":
                lg, ph = ps.cpu_count(), ps.cpu_count(logical=False)
                if platform in ("sunos", "aix"):
                    if lg != os.sysconf("SC_NPROCESSORS_ONLN"):
                        bad("slot_mismatch", f"logical={lg!r}")
                elif lg != 4:
                    bad("slot_mismatch", f"logical={lg!r} native 4")
                want = {"openbsd": None, "netbsd": None, "freebsd": 2, "aix": 2}.get(platform, 2)
                if ph != want:
                    bad("slot_mismatch", f"cores={ph!r} want {want!r}")
            elif fn == "cpu_stats":
                r = ps.cpu_stats()
                s = dict(slots("cpu_stats", 3300))
                if platform == "netbsd":
                    s["interrupts"] = 91000 + salt          # documented: taken from /proc/stat on NetBSD
                if platform in ("sunos", "windows"):
                    s["soft_interrupts"] = 0                # documented: always 0
                same_name(r, s, "cpu_stats")
            elif fn == "virtual_memory":
                r = ps.virtual_memory()
                fields_ok(r, "virtual_memory")
                if fam in VMEM_MAP:
                    s = slots("virtual_mem", 100)
                    for f, slot in VMEM_MAP[fam].items():
                        if getattr(r, f) != s[slot]:
                            bad("slot_mismatch", f"field {f}={getattr(r, f)!r} but native slot {slot}={s[slot]!r}")
                    if platform == "netbsd" and (r.buffers, r.shared) != ((640 + salt) * 1024, (320 + salt) * 1024):
                        bad("slot_mismatch", f"buffers/shared {r.buffers}/{r.shared} vs /proc/meminfo")
                    if platform in ("freebsd", "openbsd") and (r.buffers, r.shared) != (s["buffers"], s["shared"]):
                        bad("slot_mismatch", f"buffers/shared {r.buffers}/{r.shared} vs slots")
            elif fn == "swap_memory":
                r = ps.swap_memory()
                fields_ok(r, "swap_memory")
                if fam in ("bsd", "osx"):
                    same_name(r, slots("swap_mem", 900), "swap_memory")
                elif fam == "aix":
                    same_name(r, slots("swap_mem", 900), "swap_memory", skip=("used",))
                elif fam == "sunos":
                    s = slots("swap_mem", 900)
                    if (r.total, r.free, r.sin, r.sout) != (4194296 * 512, 2097148 * 512, s["sin"] * 4096, s["sout"] * 4096):
                        bad("slot_mismatch", f"{r!r} vs swap -l / kstat slots {dict(s)}")
            elif fn == "disk_partitions":
                r = ps.disk_partitions(all=True)
                want = [("/dev/ada0p2", "/", "ufs", "rw,noatime"),
                        ("none" if fam in ("bsd", "windows") else "", "/proc", "procfs", "rw")]
                for x in r:
                    fields_ok(x, "disk_partitions")
                if [tuple(x) for x in r] != want:
                    bad("slot_mismatch", f"{r!r} want {want!r}")
            elif fn == "disk_io_counters":
                r = ps.disk_io_counters(perdisk=True, nowrap=False)
                names = pst.layout(platform, "disk_io_counters")
                for k, (disk, add) in enumerate((("disk0", 4100), ("disk1", 4900))):
                    s = pst.fill(names, 50000 * salt + add, floats=())
                    same_name(r[disk], s, "disk_io_counters")
                    if tuple(r[disk]) != tuple(s.values()):
                        bad("slot_mismatch", f"{disk}: {tuple(r[disk])} vs {tuple(s.values())}")
            elif fn == "net_io_counters":
                if not (platform != "aix" or hasattr(ps._psplatform, "net_io_counters")):
                    return False, viols
                r = ps.net_io_counters(pernic=True, nowrap=False)
                for nic, add in (("em0", 5700), ("lo0", 6500)):
                    s = pst.fill(pst.layout(platform, "net_io_counters"), 50000 * salt + add)
                    same_name(r[nic], s, "net_io_counters")
            elif fn == "net_connections":
                if platform == "osx":
                    return False, viols        # iterates Process(pid).net_connections(); covered per process
                r = ps.net_connections("inet")
                want = []
                for fd, fa, ty, la, ra, st in [x[:6] for x in expected_conns(w, platform, "inet")]:
                    want.append((fd, fa, ty, la, ra, st, PID))
                want.append((-1, int(socket.AF_INET), int(socket.SOCK_STREAM), ("9.9.9.9", 9), (), "LISTEN", 77))
                for x in r:
                    fields_ok(x, "net_connections")
                got = sorted(((x.fd, int(x.family), int(x.type), tuple(x.laddr), tuple(x.raddr), x.status, x.pid)
                              for x in r), key=repr)
                if got != sorted(want, key=repr):
                    bad("slot_mismatch", f"{got!r} want {sorted(want, key=repr)!r}")
            elif fn == "net_if_stats":
                r = ps.net_if_stats()
                for x in r.values():
                    fields_ok(x, "net_if_stats")
                e = r["em0"]
                want_speed = 1000
                if (e.isup, e.speed, e.mtu) != (True, want_speed, 1500) or int(e.duplex) != 2:
                    bad("slot_mismatch", f"em0 -> {e!r}")
            elif fn == "boot_time":
                bt = ps.boot_time()
                # Windows: documented 1-second de-jitter (returns the previous value if it moved by <= 1 s)
                if bt != 1600000000.0 + salt and not (platform == "windows" and abs(bt - 1600000000.0 - salt) <= 1):
                    bad("slot_mismatch", f"{bt!r}")
            elif fn == "users":
                r = ps.users()
                ts = 1600000100.0 + salt
                want = {"bsd": [("alice", "ttyv0", "host.example", ts, None if platform == "openbsd" else 501)],
                        "osx": [("alice", "ttyv0", "host.example", ts, 501)],
                        "sunos": [("alice", "pts/1", "localhost", ts, 501)],
                        "aix": [("alice", "pts/1", "localhost", ts, 501)],
                        "windows": [("alice", None, "10.1.1.1", ts, None)]}[fam]
                for x in r:
                    fields_ok(x, "users")
                if [tuple(x) for x in r] != want:
                    bad("slot_mismatch", f"{r!r} want {want!r}")
            elif fn == "pids":
                if ps.pids() != [0, 1, 77, PID]:
                    bad("slot_mismatch", f"{ps.pids()!r}")
            elif fn == "pid_exists":
                got = (ps.pid_exists(PID), ps.pid_exists(0), ps.pid_exists(-1))
                if got != (True, True, False):
                    bad("slot_mismatch", f"{got!r}")
                w.state = "gone"
                if ps.pid_exists(PID) is not False:
                    bad("slot_mismatch", "pid_exists(gone pid) is not False")
            elif fn == "cpu_freq":
                if not hasattr(ps, "cpu_freq"):
                    return False, viols
                if not hasattr(ps._psplatform, "cpu_freq"):
                    bad("feature_gate", "psutil.cpu_freq exists but the layer has none")
                r = ps.cpu_freq()
                fields_ok(r, "cpu_freq")
                want = {"freebsd": (2100.0 + salt, 1200.0, 2400.0), "openbsd": (2200.0 + salt, 0.0, 0.0),
                        "windows": (2300.0 + salt, 0.0, 3300.0), "osx": (2400 + salt, 800, 3400)}[platform]
                if tuple(r) != want:
                    bad("slot_mismatch", f"{r!r} want {want!r}")
            elif fn == "sensors_battery":
                if not hasattr(ps, "sensors_battery"):
                    return False, viols
                r = ps.sensors_battery()
                fields_ok(r, "sensors_battery")
                want = (77, 3600 + salt, False) if platform == "windows" else (77, (120 + salt) * 60, False)
                if (r.percent, int(r.secsleft), r.power_plugged) != want:
                    bad("slot_mismatch", f"{r!r} want {want!r}")
            elif fn == "sensors_temperatures":
                if not hasattr(ps, "sensors_temperatures"):
                    return False, viols
                r = ps.sensors_temperatures()
                got = [(x.label, x.current, x.high, x.critical) for x in r["coretemp"]]
                if got != [(f"Core {k}", 40 + k, 100, 100) for k in range(4)]:
                    bad("slot_mismatch", f"{got!r}")
            elif fn == "win_services":
                if platform != "windows":
                    return False, viols
                got = [s.as_dict() for s in ps.win_service_iter()]
                want = [dict(display_name="Service " + n[-1], binpath="C:\\svc.exe -k", username="LocalSystem",
                             start_type="automatic", status="running", pid=77, name=n, description="descr of " + n)
                        for n in ("svcA", "svcB")]
                if got != want or ps.win_service_get("svcB").display_name() != "Service B":
                    bad("slot_mismatch", f"{got!r}")
            elif fn == "getloadavg":
                if platform != "windows":
                    return False, viols
                if ps._psplatform.getloadavg() != (0.51, 0.25, 0.12):
                    bad("slot_mismatch", f"{ps._psplatform.getloadavg()!r}")
            elif fn == "disk_usage":
                if platform != "windows":
                    return False, viols
                r = ps.disk_usage("C:\\")
                tot = 10 ** 9 + salt
                if (r.total, r.free, r.used) != (tot, 4 * 10 ** 8, tot - 4 * 10 ** 8):
                    bad("slot_mismatch", f"{r!r}")
            else:
                return False, viols
    except Exception as e:  # noqa: BLE001
        bad("clean_run_raised", f"{type(e).__name__}: {e} {traceback.format_exc(limit=4)[-600:]}")
    return True, viols


# ---------------------------------------------------------------------------------------------------
# (3) net_if_addrs() front-end post-processing
# ---------------------------------------------------------------------------------------------------

def ifaddr_cases(platform):
    win = platform == "windows"
    link = -1 if win else 18
    sep = "-" if win else ":"
    mac = lambda *b: sep.join(b)   # noqa: E731
    cases = [
        dict(label="ipv4", rows=[["eth0", int(socket.AF_INET), "192.168.1.10", "255.255.255.0", None, None]]),
        dict(label="ipv4_b", rows=[["eth0", int(socket.AF_INET), "10.20.30.40", "255.255.0.0", None, None]]),
        dict(label="ipv6_prefixlen", rows=[["eth0", int(socket.AF_INET6), "2001:db8::5", "64", None, None]]),
        dict(label="ipv6_nomask", rows=[["eth0", int(socket.AF_INET6), "fe80::1", None, None, None]]),
        dict(label="nomask", rows=[["eth0", int(socket.AF_INET), "192.168.1.10", None, None, None]]),
        dict(label="mac3", rows=[["eth0", link, mac("00", "11", "22"), None, None, None]]),
        dict(label="mac1", rows=[["eth0", link, mac("AB"), None, None, None]]),
        dict(label="mac6", rows=[["eth0", link, mac("00", "11", "22", "33", "44", "55"), None, None, None]]),
        dict(label="mixed", rows=[["eth1", link, mac("0A", "0B", "0C", "0D"), None, None, None],
                                  ["eth1", int(socket.AF_INET), "172.16.5.4", "255.255.252.0", None, None],
                                  ["lo", int(socket.AF_INET), "127.0.0.1", "255.0.0.0", None, None]]),
    ]
    if not win:
        cases.append(dict(label="posix_bcast", rows=[["eth0", int(socket.AF_INET), "192.168.1.10", "255.255.255.0",
                                                      "192.168.1.255", None]]))
        cases.append(dict(label="posix_ptp", rows=[["tun0", int(socket.AF_INET), "10.8.0.2", "255.255.255.255",
                                                    None, "10.8.0.1"]]))
    # generated tables: several addresses per adapter and several adapters per table, computable and un-computable netmasks
    # side by side (a non-contiguous IPv4 mask; an IPv6 address carrying an IPv4-style mask, which is what the Windows
    # native layer hands over for an IPv6 address listed after an IPv4 one; no mask at all) - each row is judged by itself
    import random
    rng = random.Random(f"c20-ifaddrs-{platform}")
    v4 = int(socket.AF_INET)
    v6 = int(socket.AF_INET6)
    for t in range(60):
        rows, used = [], set()
        for _ in range(rng.randrange(2, 8)):
            nic = rng.choice(["eth0", "eth1", "Wi-Fi", "lo", "vEthernet (WSL)"])
            kind = rng.choice(["v4", "v4", "v4_badmask", "v4_nomask", "v6_prefix", "v6_v4mask", "v6_nomask", "mac"])
            if kind == "mac":
                n = rng.randrange(1, 7)
                a = mac(*["%02X" % rng.randrange(256) for _ in range(n)])
                row = [nic, link, a, None, None, None]
            elif kind.startswith("v4"):
                a = "%d.%d.%d.%d" % (rng.randrange(1, 224), rng.randrange(256), rng.randrange(256), rng.randrange(1, 255))
                m = {"v4": rng.choice(["255.255.255.0", "255.255.0.0", "255.0.0.0", "255.255.252.0", "255.255.255.255",
                                       "255.255.255.128", "0.0.0.0"]),
                     "v4_badmask": rng.choice(["255.0.255.0", "255.255.0.255", "0.255.0.0", "255.255.255.1", "garbage"]),
                     "v4_nomask": None}[kind]
                row = [nic, v4, a, m, None, None]
            else:
                a = rng.choice(["fe80::%x", "2001:db8::%x", "fd00:1:2:3::%x"]) % rng.randrange(1, 65535)
                m = {"v6_prefix": rng.choice(["64", "128", "48", "10", "0"]),
                     "v6_v4mask": rng.choice(["255.255.255.0", "255.0.0.0"]),
                     "v6_nomask": None}[kind]
                row = [nic, v6, a, m, None, None]
            if (row[0], row[2]) in used or any(r[2] == row[2] for r in rows):
                continue
            used.add((row[0], row[2]))
            rows.append(row)
        if len(rows) >= 2:
            cases.append(dict(label=f"generated_{t}", rows=rows))
    return [dict(k="ifaddrs", platform=platform, **c) for c in cases]


def run_ifaddrs(platform, case):
    env = setup(platform)
    w, ps = env["w"], env["ps"]
    w.reset()
    win = platform == "windows"
    viols = []
    w.net_if_addrs_rows = case["rows"]
    try:
        with w.vk:
            got = ps.net_if_addrs()
    except Exception as e:  # noqa: BLE001
        return [(f"net_if_addrs_raised:{platform}", f"{case['rows']} -> {type(e).__name__}: {e}")]
    finally:
        w.net_if_addrs_rows = None
    sep = "-" if win else ":"
    for name, fam, addr, mask, bcast, ptp in case["rows"]:
        is_link = fam == (-1 if win else 18)
        want_addr = addr
        want_b = bcast
        if is_link:
            parts = addr.split(sep)
            want_addr = sep.join(parts + ["00"] * (6 - len(parts)))
        elif win and mask and fam in (int(socket.AF_INET), int(socket.AF_INET6)):
            try:
                want_b = str(ipaddress.ip_network(f"{addr}/{mask}", strict=False).broadcast_address)
            except ValueError:
                want_b = None          # not computable: the front end documents "may be None"
        hits = [x for x in got.get(name, []) if (x.family == ps.AF_LINK if is_link else int(x.family) == fam)
                and x.address == want_addr]
        where = f"{platform} net_if_addrs() fed {[name, fam, addr, mask, bcast, ptp]} -> {got.get(name)!r}"
        if not hits:
            viols.append((f"mac_not_padded:{platform}" if is_link else f"ifaddr_lost:{platform}",
                          where + f" want address {want_addr!r}"))
            continue
        x = hits[0]
        if x._fields != ("family", "address", "netmask", "broadcast", "ptp"):
            viols.append((f"fields_differ_from_docs:{platform}:net_if_addrs", where))
        if x.broadcast != want_b:
            mech = "windows_broadcast_discarded" if (win and x.broadcast is None) else f"broadcast_wrong:{platform}"
            more = ""
            if mech == "windows_broadcast_discarded":
                more = (" | reproducer: as Windows, cext.net_if_addrs() -> [(name, AF_INET, addr, netmask, None, None)]; "
                        "psutil.net_if_addrs() computes _common.broadcast_addr(nt) and calls nt._replace(broadcast=...) "
                        "without keeping the result, so broadcast stays None")
            viols.append((mech, where + f" want broadcast {want_b!r} (HISTORY.rst 7.0.0: 'net_if_addrs() also "
                          f"returns the broadcast address' on Windows){more}"))
        if (x.netmask, x.ptp) != (mask, ptp):
            viols.append((f"ifaddr_slot_mismatch:{platform}", where))
    return viols


# ---------------------------------------------------------------------------------------------------
# (4) documented names
# ---------------------------------------------------------------------------------------------------

TOKENS = [
    (r"linux", []), (r"macos|osx", ["osx"]), (r"windows", ["windows"]), (r"freebsd", ["freebsd"]),
    (r"openbsd", ["openbsd"]), (r"netbsd", ["netbsd"]), (r"bsd", ["freebsd", "openbsd", "netbsd"]),
    (r"unix|posix", ["freebsd", "openbsd", "netbsd", "osx", "sunos", "aix"]), (r"sunos|solaris", ["sunos"]),
    (r"aix", ["aix"]),
]


def parse_platforms(text):
    """'Linux, Windows Vista+, BSD' -> set of our platform keys (None if a token is unknown)."""
    out = set()
    for tok in re.split(r"[,/]| and ", text):
        t = tok.strip().lower().strip("*`.:")
        if not t:
            continue
        for rx, plats in TOKENS:
            if re.match(r"^(%s)\b" % rx, t):
                out.update(plats)
                break
        else:
            return None
    return out


def doc_promises():
    """-> list of dict(kind=function|data|method, name, cls, platforms=set|None(all), line, how)"""
    repo = os.environ.get("VERIF_REPO", "/repo")
    with open(os.path.join(repo, "docs", "index.rst"), encoding="utf-8") as f:
        lines = f.read().split("\n")
    rx = re.compile(r"^(\s*)\.\. (function|data|method|class|attribute|exception)::\s*([A-Za-z_][\w.]*)\s*(.*)$")
    entries = []
    cur_class = None
    section_q = None          # 'Linux / FreeBSD:' style qualifier lines (RLIMIT block)
    group = []                # directives stacked directly on each other share the following body
    last_was_directive = False
    for n, ln in enumerate(lines):
        m = rx.match(ln)
        if n + 1 < len(lines) and re.match(r"^[-=~^]{3,}\s*$", lines[n + 1]) and ln.strip():
            section_q = None
            group = []
        q = re.match(r"^([A-Za-z]+(?: / [A-Za-z]+)*)(?: specific)?:\s*$", ln)
        if q and not ln.startswith(" "):
            section_q = parse_platforms(q.group(1).replace(" / ", ","))
            continue
        if m:
            indent, kind, name, rest = len(m.group(1)), m.group(2), m.group(3), m.group(4)
            if kind == "class":
                cur_class = name if indent == 0 else cur_class
            if not last_was_directive:
                group = []
            last_was_directive = True
            if kind not in ("function", "data", "method"):
                continue
            if kind in ("function", "data") and indent == 0:
                cur_class = None if kind == "function" else cur_class
            plats, how = None, "unqualified"
            par = re.match(r"^\(([^()]*)\)\s*$", rest) if kind == "data" else None
            if par:
                plats, how = parse_platforms(par.group(1)), "directive"
                if plats is None:
                    continue
            if section_q is not None and kind == "data" and indent > 0:
                plats, how = set(section_q), "section"
            e = dict(kind=kind, name=name.split(".")[-1], cls=cur_class if kind == "method" else None,
                     platforms=plats, line=n + 1, how=how, indent=indent)
            entries.append(e)
            group.append(e)
            continue
        if ln.strip() and not ln.strip().startswith(".. _"):
            last_was_directive = False
        a = re.match(r"^(\s*)Availability:\s*(.*)$", ln)
        if a:
            text = a.group(2)
            if not re.search(r"\.\s|\.$", text) and n + 1 < len(lines) and lines[n + 1].strip() \
                    and not lines[n + 1].strip().startswith(".."):
                text += " " + lines[n + 1].strip()
            text = re.split(r"\.(\s|$)", text)[0]
            plats = parse_platforms(text)
            if plats is None:
                continue
            aind = len(a.group(1))
            if aind == 0:
                # section-wide clause (RLIMIT block): restricts every indented data directive of the section
                for e in entries:
                    if e["how"] == "section" and e["platforms"] is not None:
                        e["platforms"] &= plats
                        e["how"] = "section+availability"
                continue
            owners = [e for e in group if e["indent"] < aind]
            for e in owners:
                e["platforms"] = set(plats) if e["platforms"] is None else (e["platforms"] & plats)
                e["how"] = "availability"
    return entries


def run_names(platform, acc):
    env = setup(platform)
    ps = env["ps"]
    promised = 0
    for e in doc_promises():
        if e["kind"] == "method" and e["cls"] != "Process":
            continue
        if e["platforms"] is not None and platform not in e["platforms"]:
            continue
        name = e["name"]
        case = dict(k="name", platform=platform, name=name, kind=e["kind"], how=e["how"])
        viols = []
        tag = "doc_promised" if e["how"] != "unqualified" else "doc_unqualified"
        src = f"docs/index.rst:{e['line']} ({e['how']}: .. {e['kind']}:: {name})"
        if e["kind"] == "method":
            if not hasattr(ps.Process, name):
                viols.append((f"{tag}_method_missing:{platform}:{name}",
                              f"as {platform}: psutil.Process has no attribute {name!r}; promised by {src}"))
        else:
            if not hasattr(ps, name):
                viols.append((f"{tag}_name_missing:{name}" if e["how"] == "unqualified"
                              else f"{tag}_name_missing:{platform}:{name}",
                              f"as {platform}: psutil.{name} -> AttributeError; promised by {src}"))
            elif name not in ps.__all__:
                viols.append((f"{tag}_name_not_in_all:{platform}:{name}",
                              f"as {platform}: psutil.{name} exists but is not in psutil.__all__; promised by {src}"))
        acc.count("names_checked")
        acc.count("names_checked:" + platform)
        promised += 1
        acc.case(case, True, viols)
    # the layer's own __extra__all__ must be importable names of the package
    for name in getattr(ps._psplatform, "__extra__all__", []):
        case = dict(k="name", platform=platform, name=name, kind="extra_all", how="__extra__all__")
        viols = []
        if not hasattr(ps, name):
            viols.append((f"extra_all_name_missing:{platform}:{name}",
                          f"as {platform}: {name!r} is listed in __all__ (via __extra__all__) but psutil.{name} "
                          f"does not exist"))
        acc.count("names_checked")
        acc.case(case, True, viols)
    return promised


# ---------------------------------------------------------------------------------------------------
# plan / shards
# ---------------------------------------------------------------------------------------------------

def plan(tier, seed):
    shards = []
    for P in PLATS:
        shards.append(dict(kind="faults", variant=P, tier=tier, seed=seed))
        shards.append(dict(kind="static", variant=P, tier=tier, seed=seed))
    # the Solaris layer has code for a 32-bit interpreter looking at 64-bit processes (IS_64_BIT False): same contract
    shards.append(dict(kind="faults", variant="sunos", tier=tier, seed=seed, bits=32))
    return shards


def record_variants(platform, tier, env, salts=(1, 2)):
    out = [dict(salt=s0) for s0 in salts]
    if tier == "thorough":
        out += [dict(salt=salts[0] + 17), dict(salt=salts[1] + 17), dict(salt=salts[0] + 40)]
    if platform != "windows":
        out.append(dict(salt=1, no_tty=True))
        ttys = env["ttys"]
        if ttys and platform in BSDS + ("osx",):
            out.append(dict(salt=1, tty_rdev=sorted(ttys)[0]))
        for st in ("SSTOP", "SIDL", "SZOMB", "SWAIT", "SLOCK", "SONPROC", "SSLEEP", "SACTIVE", "SDEAD"):
            if st == "SDEAD" and platform != "openbsd":
                continue            # only OpenBSD's table documents SDEAD (= zombie)
            if st in env["w"].consts and not (st == "SONPROC" and platform in BSDS):
                out.append(dict(salt=1, status=st, only=["status", "L:status", "oneshot"]))
    return out


def do_record_case(platform, case, acc):
    env = setup(platform)
    w = env["w"]
    kw = {k: case[k] for k in ("salt", "no_tty", "tty_rdev", "status") if k in case}
    r = run_op(platform, case["op"], pid=case.get("pid", PID), **kw)
    ex = expectations(platform, w, env, no_tty=case.get("no_tty", False))
    compared, viols = compare_record(platform, case["op"], r, ex, env, w)
    if platform == "windows":
        viols += windows_path_checks(platform, case["op"], r, w)
        compared = compared or case["op"] in ("L:exe", "L:name", "L:cwd", "exe", "exe_layer", "name", "cwd", "memory_maps", "memory_maps_ungrouped")
    if compared:
        acc.count("records_compared")
        acc.count("records_compared:" + platform)
    ty = type(r.value).__name__ if r.kind == "value" else None
    if case["op"] == "gids" and ty and ty != "pgids":
        acc.count("observation:gids_returns_" + ty)
    acc.case(case, compared, viols, sample=dict(case, outcome=describe(r)[:200]))
    return r, viols


def do_dospaths_case(platform, case, acc):
    """Windows: processes living on different volumes queried one after the other (the way process_iter() does); some
    device names are textual prefixes of others.  The order of the queries must not matter."""
    env = setup(platform)
    w = env["w"]
    viols = []
    for salt, opname in case["seq"]:
        r = run_op(platform, opname, pid=case.get("pid", PID), salt=salt)
        for mech, detail in windows_path_checks(platform, opname, r, w):
            viols.append((mech, f"query {[salt, opname]} of the sequence {case['seq']}: {detail}"))
        if r.kind != "value":
            viols.append((f"unexpected_outcome:windows:{opname}", f"query {[salt, opname]}: {describe(r)[:200]}"))
    acc.count("records_compared", len(case["seq"]))
    acc.count("windows_volume_sequences")
    acc.case(case, True, viols[:3])
    return viols


def dospaths_cases(platform, pid, seed):
    n = 4
    fwd = [[s0, "exe"] for s0 in range(n, 2 * n)]                    # HarddiskVolume1, 12, 20, 2
    maps = [[s0, "memory_maps"] for s0 in range(n, 2 * n)]            # 12, 20, 2, 1
    r = harness.rng_for(seed, "dospaths")
    mixed = fwd + maps
    r.shuffle(mixed)
    return [dict(k="dospaths", platform=platform, pid=pid, seq=fwd + maps + fwd[::-1]),
            dict(k="dospaths", platform=platform, pid=pid, seq=mixed + [[s0 + n, o] for s0, o in mixed])]


def do_fault_case(platform, case, acc, clean=None):
    r, viols = run_fault_case(platform, case, clean)
    fired = bool(r.fired)
    if fired:
        acc.count("faults_fired", len(r.fired))
        acc.count("faults_fired:" + platform, len(r.fired))
        acc.count("outcome:" + r.kind)
    else:
        acc.count("faults_not_reached")
    acc.case(case, fired, viols, sample=dict(case, outcome=describe(r)[:200],
                                             fired=[[i, n, fname(f)] for i, n, f in r.fired]))
    return r, viols


def run_shard(shard):
    acc = harness.Acc(max_samples=2)
    platform = shard.get("variant")
    kind = shard["kind"]
    if kind == "cases":
        platform = platform or shard["cases"][0]["platform"]
    env = setup(platform)
    if shard.get("bits") == 32:
        if not hasattr(env["w"].plat, "IS_64_BIT"):
            raise RuntimeError("the 32-bit variant has nothing to switch in this platform layer")
        env["w"].plat.IS_64_BIT = False
        acc.count("shards_run_as_a_32_bit_interpreter")
    tier = shard.get("tier", "quick")
    seed = int(shard.get("seed", 0) or 0)
    pid = PID + 13 * (seed % 1000)          # the seed only moves the pid and the record values
    salts = [1 + 3 * (seed % 1000), 2 + 3 * (seed % 1000)]

    if kind == "faults" or kind == "static":
        extra = acc.extra.setdefault(f"platform:{platform}:{kind}", {})
    if kind == "faults":
        per_op = {}
        sites = set()
        for opname in env["ops"]:
            clean = run_op(platform, opname, pid=pid)
            n = len(clean.faultable)
            per_op[opname] = n
            for c in clean.faultable:
                sites.add(c.name)
            acc.count("native_call_points", n)
            acc.count("native_call_points:" + platform, n)
            for case in fault_cases(platform, opname, pid, n, tier):
                do_fault_case(platform, case, acc, clean)
            # call points that exist only *after* an error (fall-back queries, retries): a second error there
            faults1 = list(FAULTS_POSIX) + FAULTS_MORE + (FAULTS_WIN_EXTRA if platform == "windows" else [])
            for i in range(n):
                for fa in faults1:
                    r1 = run_op(platform, opname, pid=pid, one={i: fa})
                    n1 = len(r1.faultable)
                    for j in range(max(n, i + 1), n1):
                        acc.count("call_points_reached_only_after_an_error")
                        for fb in faults1:
                            if fb is not fa:
                                do_fault_case(platform, dict(k="fault", platform=platform, op=opname, pid=pid, mode="pair", i=i, j=j,
                                                             faults=[fa, fb], state="live"), acc, clean)
        layer = sorted(o[2:] for o in per_op if o.startswith("L:"))
        extra.update(operations=len(per_op), layer_methods=len(layer), layer_methods_list=layer,
                     layer_methods_skipped=getattr(build_ops, "layer_skipped", []),
                     call_points=sum(per_op.values()), call_points_per_operation=per_op,
                     natives_faulted=sorted(sites))
        acc.exhaustive = True
    elif kind == "static":
        # (0) Windows volumes, before anything else has asked about a device in this process
        if platform == "windows":
            for case in dospaths_cases(platform, pid, seed):
                do_dospaths_case(platform, case, acc)
        # (0a) the PID was recycled: the front end's guard, on this platform's layer and with this platform's conditional steps
        for opname in env["ops"]:
            if opname in SETTERS_AND_SIGNALS and not opname.startswith("L:") and not opname.startswith("wait"):
                for before, after in ((False, False), (True, False), (False, True)):
                    do_recycled_case(platform, dict(k="recycled", platform=platform, op=opname, pid=pid, salt=salts[0],
                                                    asked_before=before, asked_after=after), acc)
        # (0a') a name of 15 bytes completed from the command line, then an error
        if platform != "windows":
            for opname in env["ops"]:
                if opname not in ("name", "L:name") and opname not in SETTERS_AND_SIGNALS:
                    do_longname_case(platform, dict(k="longname", platform=platform, op=opname, pid=pid, salt=salts[0]), acc)
        # (0b) the process exits: plain call vs. the same call inside a primed oneshot()
        primes = [a for a in EXIT_PRIMES if a in env["ops"]]
        for opname in env["ops"]:
            if opname.startswith("L:") or opname in SETTERS_AND_SIGNALS:
                continue
            for prime in (primes if tier == "thorough" else primes[:2]):
                do_exit_case(platform, dict(k="exit", platform=platform, op=opname, pid=pid, prime=prime, salt=salts[0]), acc)
        # (1) records
        for var in record_variants(platform, tier, env, salts):
            only = var.pop("only", None)
            for opname in env["ops"]:
                if only is None or opname in only:
                    do_record_case(platform, dict(k="record", platform=platform, op=opname, pid=pid, **var), acc)
        for salt in (salts if tier == "quick" else salts + [s0 + 17 for s0 in salts] + [salts[0] + 40]):
            for fn in sys_cases(platform):
                case = dict(k="sysfn", platform=platform, fn=fn, salt=salt, pid=pid)
                compared, viols = run_sysfn(platform, fn, salt, pid)
                if compared:
                    acc.count("records_compared")
                    acc.count("sysfn_compared:" + platform)
                acc.case(case, compared, viols)
        # (2b) pid 0 variants
        per_op0 = {}
        for listed in (True, False):
            for opname in env["ops"]:
                clean = run_op(platform, opname, pid=0, pid0_listed=listed)
                n = len(clean.faultable)
                if listed:
                    per_op0[opname] = n
                    acc.count("native_call_points_pid0", n)
                if not listed and platform not in PID0_RULE:
                    continue        # "0 not in pids()" only matters to the layers that have the PID-0 rule
                for case in fault_cases(platform, opname, 0, n, tier, pid0_listed=listed):
                    if case["mode"] == "pair":
                        continue
                    do_fault_case(platform, case, acc, clean)
        extra.update(call_points_pid0=sum(per_op0.values()), call_points_pid0_per_method=per_op0)
        # (3) net_if_addrs
        for case in ifaddr_cases(platform):
            viols = run_ifaddrs(platform, case)
            acc.count("ifaddrs_compared", len(case["rows"]))
            acc.case(case, True, viols)
        # (4) names
        extra["names_promised"] = run_names(platform, acc)
        extra["all_len"] = len(env["ps"].__all__)
        acc.exhaustive = True
    elif kind == "cases":
        for case in shard["cases"]:
            if case.get("platform") != platform:
                raise RuntimeError(f"case platform {case.get('platform')} != shard variant {platform}")
            k = case["k"]
            if k == "fault":
                r, viols = do_fault_case(platform, case, acc)
                print("REPLAY", json.dumps(case), "->", describe(r))
                for c in r.calls:
                    print("   call", c.as_list())
            elif k == "record":
                r, viols = do_record_case(platform, case, acc)
                print("REPLAY", json.dumps(case), "->", describe(r))
            elif k == "exit":
                viols = do_exit_case(platform, case, acc)
                print("REPLAY", json.dumps(case))
            elif k == "recycled":
                do_recycled_case(platform, case, acc)
                print("REPLAY", json.dumps(case))
            elif k == "longname":
                do_longname_case(platform, case, acc)
                print("REPLAY", json.dumps(case))
            elif k == "dospaths":
                viols = do_dospaths_case(platform, case, acc)
                print("REPLAY", json.dumps(case))
            elif k == "sysfn":
                compared, viols = run_sysfn(platform, case["fn"], case["salt"], case.get("pid", PID))
                acc.case(case, compared, viols)
                print("REPLAY", json.dumps(case))
            elif k == "ifaddrs":
                viols = run_ifaddrs(platform, case)
                acc.case(case, True, viols)
                print("REPLAY", json.dumps(case))
            elif k == "name":
                sub = harness.Acc()
                run_names(platform, sub)
                viols = [(v["mech"], v["detail"]) for v in sub.violations
                         if v["case"] and v["case"].get("name") == case["name"]]
                acc.case(case, True, viols)
                print("REPLAY", json.dumps(case))
            else:
                raise RuntimeError(f"unknown case kind {k}")
            for v in viols:
                print("   VIOL", v)
    else:
        raise RuntimeError(f"unknown shard kind {kind}")
    return acc.result()
