"""C01 - signals and setters never reach a recycled PID or a process group.

Generated process-table histories (spawn/exit/reap/reuse/queries/signals/setters) run through the real
psutil over the simulated kernel; the kill/setpriority/ioprio/affinity/prlimit *sinks* record what was
actually delivered and to which incarnation.
"""
import signal

from vlib import harness

ID = "C01"
LEVEL = "exploration"
TECHNIQUE = ("runtime monitor: syscall sinks (kill/setpriority/ioprio_set/sched_setaffinity/prlimit) + incarnation model over generated "
             "PID-reuse histories; live kernel: a really recycled PID with an innocent bystander whose state is watched")
RULE = ("one case = one history over a simulated process table with Process objects created at arbitrary points; "
        "all valid histories up to depth D over a 12-op alphabet on one recycled pid are enumerated (exhaustive), "
        "plus random histories (<=40 ops, 6 pids, every signal number 1..64, nice -20..19, ioclass x level, "
        "cpu subsets, rlimit pairs), plus pid-0 / negative-pid histories. non-trivial = a signal or setter is issued "
        "on an object whose pid has been freed or re-used; distinct by history hash. Live part: a real child is remembered by a "
        "psutil object (Process / Popen / process_iter entry), killed and reaped, then vlib.livereuse forks until the kernel hands "
        "the same pid to a new unrelated process; every signal form and setter on the stale object must raise NoSuchProcess and "
        "leave that bystander as it was (alive, not stopped, same nice / affinity / limits / start time)")
ASSUMPTIONS = [
    "process identity is (pid, start tick); a pid is never re-used within the same clock tick (documented psutil assumption)",
    "the table does not change during a single psutil call (check-then-kill TOCTOU is inherent and not claimed)",
    "sinks replace os.kill/os.waitpid and the per-pid native wrappers; everything above them is the real psutil code",
]
REQUIRED_COUNTERS = ["signals_on_recycled_pid", "sink_events_checked"]

PID = 7
SIGNOS = sorted(set(range(0, 65)) | {int(s) for s in signal.Signals})       # 0: the null signal is a request like any other


def alphabet():
    return [("exit", PID), ("reap", PID), ("vanish", PID), ("spawn", PID, False), ("spawn", PID, True),
            ("isrun", 0), ("q", 0, "name"), ("iter",), ("new", PID), ("sig", 0, "kill", None),
            ("set", 0, "nice", 5), ("sig", -1, "terminate", None), ("wait", 0)]


def valid(op, st):
    """st: dict(state=free|live|zombie, nh=number of handles)"""
    k = op[0]
    s = st["state"]
    if k == "exit" or k == "vanish":
        return s == "live"
    if k == "reap":
        return s == "zombie"
    if k == "spawn":
        return s == "free"
    if k == "new":
        return st["nh"] < 3
    return True


def step(op, st):
    k = op[0]
    st = dict(st)
    if k == "exit":
        st["state"] = "zombie"
    elif k in ("reap", "vanish"):
        st["state"] = "free"
        st["freed"] = True
    elif k == "spawn":
        st["state"] = "zombie" if op[2] else "live"
    elif k == "new":
        st["nh"] += 1
    return st


def enum_histories(depth):
    prefix = [("spawn", PID, False), ("new", PID)]
    st0 = dict(state="live", nh=1, freed=False)
    alpha = alphabet()
    out = []

    def rec(hist, st, d):
        if d == 0:
            return
        for op in alpha:
            if not valid(op, st):
                continue
            h2 = hist + [op]
            st2 = step(op, st)
            if op[0] in ("sig", "set"):
                out.append(prefix + h2)
            rec(h2, st2, d - 1)
    rec([], st0, depth)
    return out


def gen_random(rng):
    pids = [7, 8, 9, 10, 11, 12]
    state = {p: "free" for p in pids}
    hist = []
    nh = 0
    n = rng.randrange(6, 41)
    for _ in range(n):
        r = rng.random()
        p = rng.choice(pids)
        if state[p] == "tid":
            # the number lives on as a thread id of another process: only the objects made earlier can still name it
            if nh and r < 0.6:
                k = rng.choice(["send_signal", "suspend", "resume", "terminate", "kill"])
                hist.append(("sig", rng.randrange(nh), k, rng.choice(SIGNOS) if k == "send_signal" else None))
            elif nh and r < 0.8:
                hist.append(("set", rng.randrange(nh), "nice", rng.randrange(-20, 20)))
            elif nh:
                hist.append(("isrun", rng.randrange(nh)))
            continue
        if r < 0.02 and state[p] == "free":
            hist.append(("thread", rng.choice([1, 2]), p))      # recycled as a *thread* id (kill/setpriority/... accept those)
            state[p] = "tid"
        elif r < 0.05 and state[p] == "live":
            hist.append(("thread", p, 300 + len(hist)))         # the process becomes multi-threaded (ids of their own)
        elif r < 0.065 and nh:
            # the machine is short of descriptors / memory for a moment: the next open of a /proc/<pid>/stat file fails once.
            # (Outside the statement's quantifier - what is demanded under it is only "no effect on the new owner".)
            hist.append(("fault", rng.choice(["EMFILE", "ENFILE", "ENOMEM", "EIO"])))
        elif r < 0.08 and nh:
            # a handle is duplicated (copy.copy works for these objects; pickle / deepcopy are refused - if they ever
            # are not, the duplicate is a handle like any other)
            hist.append(("copy", rng.randrange(nh), rng.choice(["copy", "copy", "pickle", "deepcopy"])))
            if hist[-1][2] == "copy":
                nh += 1
        elif r < 0.18:
            if state[p] == "free":
                z = rng.random() < 0.2
                if rng.random() < 0.25:
                    # names the kernel prints verbatim inside the parentheses of /proc/PID/stat: blanks, parentheses
                    hist.append(("spawn", p, z, None, rng.choice(ODD_NAMES)))
                else:
                    hist.append(("spawn", p, z))
                state[p] = "zombie" if z else "live"
        elif r < 0.28:
            if state[p] == "live":
                hist.append(("exit", p))
                state[p] = "zombie"
        elif r < 0.40:
            if state[p] == "zombie":
                hist.append(("reap", p))
                state[p] = "free"
            elif state[p] == "live":
                hist.append(("vanish", p))
                state[p] = "free"
        elif r < 0.50:
            hist.append(("new", p))
            if state[p] != "free":
                nh += 1
        elif r < 0.52:
            hist.append(("newp", p))
            nh += 1
        elif nh == 0:
            continue
        elif r < 0.57:
            hist.append((rng.choice(["osenter", "osenter", "osexit"]), rng.randrange(nh)))
        elif r < 0.60:
            hist.append(("isrun", rng.randrange(nh)))
        elif r < 0.66:
            hist.append(("q", rng.randrange(nh), rng.choice(["name", "ppid", "status", "create_time", "cpu_times", "nice"])))
        elif r < 0.69:
            hist.append(("iter", "keep") if rng.random() < 0.5 else ("iter",))
            nh += sum(1 for q in pids if state[q] != "free")
        elif r < 0.70:
            hist.append(("step", rng.choice([300, -300, 86400, 7])))
        elif r < 0.705:
            hist.append(("boot",))
        elif r < 0.71:
            hist.append(("wait", rng.randrange(nh)) if rng.random() < 0.7 else ("wait", rng.randrange(nh), "procs"))
        elif r < 0.74:
            hist.append(("pidex", p))
        elif r < 0.88:
            k = rng.choice(["send_signal", "send_signal", "suspend", "resume", "terminate", "kill"])
            hist.append(("sig", rng.randrange(nh), k, rng.choice(SIGNOS) if k == "send_signal" else None))
        else:
            k = rng.choice(["nice", "ionice", "rlimit", "affinity"])
            if k == "nice":
                v = rng.randrange(-20, 20)
            elif k == "ionice":
                c = rng.choice([1, 2, 3, 0])
                v = [c, rng.randrange(0, 8) if c in (1, 2) else 0]
            elif k == "rlimit":
                s = rng.choice([0, 1, 1024, 2**31, 2**63 - 1])
                v = [rng.randrange(0, 16), [s, rng.choice([s, s + 1, 2**63 - 1, -1])]]
            else:
                cpus = [c for c in range(4) if rng.random() < 0.5] or [rng.randrange(4)]
                if rng.random() < 0.2:
                    cpus = cpus + cpus[:1]
                if rng.random() < 0.15:
                    cpus = []               # "all eligible CPUs"
                v = cpus
            hist.append(("set", rng.randrange(nh), k, v) + (("kw",) if rng.random() < 0.3 else ()))
    return hist


_env = {}


def setup():
    if not _env:
        from vlib import histories, psu
        _env.update(ps=psu.load(), H=histories)
    return _env


def expected_event(op, h):
    """The single non-probe sink event a delivered op must produce."""
    k = op[2]
    if op[0] == "sig":
        signo = op[3] if k == "send_signal" else int(_env["H"].SIG_KINDS[k])
        return ["kill", h.pid, int(signo), h.inc]
    v = op[3]
    if k == "nice":
        return ["setpriority", h.pid, v, h.inc]
    if k == "ionice":
        return ["ioprio_set", h.pid, [int(v[0]), int(v[1] or 0)], h.inc]
    if k == "rlimit":
        return ["prlimit_set", h.pid, [v[0], list(v[1])], h.inc]
    if k == "affinity":
        if not v:
            return ["affinity_set", h.pid, "<all eligible>", h.inc]
        return ["affinity_set", h.pid, sorted(set(v)), h.inc]


def norm(e):
    e = list(e)
    if isinstance(e[2], tuple):
        e[2] = [list(x) if isinstance(x, tuple) else x for x in e[2]]
    if e[0] == "affinity_set" and not isinstance(e[2], str):
        e[2] = sorted(set(e[2]))
    return e


def run_history(hist, acc, with_pid0=False, caller_pid=None):
    env = setup()
    H = env["H"]
    viols = []
    nontrivial = False
    seen_gone = set()       # handle indexes that psutil has already observed as gone while the pid was free
    w = H.World(env["ps"], with_pid0=with_pid0)
    # caller_pid: os.getpid() answers this pid - the program itself is (after a fork) the process that was handed the
    # recycled pid, and still holds objects made for the previous owner
    w.t.fake_getpid = caller_pid
    if caller_pid is not None:
        acc.count("histories_where_the_caller_owns_the_recycled_pid")
    with w:
        for op in hist:
            op = tuple(op)
            if op[0] in ("isrun", "q", "sig", "set", "osenter", "osexit", "wait", "copy"):
                hi = op[1]
                if hi == -1:
                    hi = len(w.handles) - 1
                if hi >= len(w.handles) or hi < 0:
                    continue
                op = (op[0], hi) + op[2:]
            if op[0] == "spawn" and w.t.owner_of(op[1])[0] is not None:
                continue
            if op[0] == "thread" and (w.t.owner_of(op[2])[0] is not None or op[1] not in w.t.procs):
                continue
            if op[0] in ("exit",) and (op[1] not in w.t.procs or w.t.procs[op[1]].zombie):
                continue
            if op[0] == "reap" and (op[1] not in w.t.procs or not w.t.procs[op[1]].zombie):
                continue
            if op[0] == "vanish" and op[1] not in w.t.procs:
                continue
            rec = w.apply(op)
            if op[0] == "copy":
                acc.count("handles_duplicated" if rec.get("res") == ("ok", None) else "handle_duplication_refused")
            ctx = f"history={[list(o) for o in hist]} at op={list(op)} res={rec.get('res')} events={rec['events']}"
            if rec["breaches"]:
                viols.append(("kill_nonpositive_pid", ctx + f" breaches={rec['breaches']}"))
            real_events = [norm(e) for e in rec["events"] if not (e[0] == "kill" and e[2] == 0) and e[0] != "reaped"]
            acc.count("sink_events_checked", len(rec["events"]))
            if op[0] in ("sig", "set"):
                h = w.handles[op[1]]
                res = rec["res"]
                if h.pid == 0:
                    # PID 0: must be refused before any kill
                    if op[0] == "sig":
                        if res[0] != "exc:ValueError":
                            viols.append(("pid0_signal_not_refused", ctx))
                        if any(e[0] == "kill" and e[1] == 0 and e[2] != 0 for e in rec["events"]):
                            viols.append(("pid0_signalled", ctx))
                    else:
                        # the kernel reads "0" in setpriority/ioprio_set/sched_setaffinity/prlimit as "the calling process":
                        # a setting asked of the PID 0 object must not land on the program itself
                        acc.count("setters_on_pid0_object")
                        if any(e[1] != 0 for e in real_events):
                            viols.append((f"pid0_setting_reached_the_caller:{op[2]}", ctx))
                    continue
                fault_now = w.fault_fired_tick == rec["tick"]      # a transient resource error hit this very call
                if fault_now:
                    acc.count("signals_or_settings_under_a_transient_fault")
                if rec["model_alive"]:
                    acc.count("signals_on_live_target")
                    want = norm(expected_event(op, h))
                    if fault_now and res[0].startswith("exc:") and not real_events:
                        pass        # the call failed with the resource error and did nothing
                    elif res[0] != "ok":
                        viols.append((f"live_target_{op[0]}_raised:{res[0]}", ctx))
                    elif want[0] == "kill" and want[2] == 0:
                        # the null signal: the request reaches the kernel as signal 0 - and as nothing else
                        acc.count("null_signals_on_live_target")
                        if real_events or not any(e[0] == "kill" and e[1] == h.pid and e[2] == 0 for e in rec["events"]):
                            viols.append(("wrong_delivery:send_signal:null_signal", ctx + f" want={want}"))
                    elif want[2] == "<all eligible>":
                        # which CPUs are "eligible" is C18's business: here exactly one request, to the right process
                        if not (len(real_events) == 1 and real_events[0][0] == "affinity_set" and real_events[0][1] == want[1]
                                and real_events[0][3] == want[3] and real_events[0][2]):
                            viols.append((f"wrong_delivery:{op[2]}", ctx + f" want={want}"))
                    elif real_events != [want]:
                        viols.append((f"wrong_delivery:{op[2]}", ctx + f" want={want}"))
                else:
                    nontrivial = True
                    acc.count("signals_on_recycled_pid" if rec["model_owner"] is not None else "signals_on_freed_pid")
                    if real_events:
                        mech = "delivered_to_new_owner"
                        if op[1] in seen_gone:
                            mech += ":after_object_saw_pid_free"
                        viols.append((mech + ":" + op[0], ctx))
                    if fault_now and res[0].startswith("exc:"):
                        pass        # (which error a call reports when its own probe could not be made is not stated)
                    elif res[0] != "NoSuchProcess":
                        mech = "no_NoSuchProcess_for_gone_target"
                        if op[1] in seen_gone and rec["model_owner"] is not None:
                            mech += ":after_object_saw_pid_free"
                        viols.append((mech + ":" + op[0], ctx))
                    elif res[1] != h.pid:
                        viols.append(("wrong_pid_in_error", ctx))
                    if rec["model_owner"] is None:
                        seen_gone.add(op[1])
            else:
                if real_events:
                    viols.append((f"getter_caused_sink_event:{op[0]}", ctx))
                if op[0] in ("isrun", "q"):
                    h = w.handles[op[1]]
                    if w.cur_inc(h.pid) is None and (rec["res"] == ("ok", False) or rec["res"][0] == "NoSuchProcess"):
                        seen_gone.add(op[1])
                if op[0] == "wait":
                    h = w.handles[op[1]]
                    acc.count("wait_calls_in_histories")
                    if w.cur_inc(h.pid) is None and rec["res"][0] == "ok":
                        seen_gone.add(op[1])
                if op[0] == "newneg":
                    if rec["res"][0] != "exc:ValueError":
                        viols.append(("negative_pid_accepted", ctx))
    case = dict(hist=[list(o) for o in hist], pid0=with_pid0)
    if caller_pid is not None:
        case["caller_pid"] = caller_pid
    acc.case(case, nontrivial, viols, sample=dict(case, records=[H.summarize(r) for r in w.records][:30]))


ODD_NAMES = ["Web Content", "tmux: server", "a b c", "x) S 1 (y", "(sd-pam)", " lead", "trail "]


def odd_name_histories():
    """PID re-use between processes whose names contain blanks / parentheses (old and new owner named alike or not)."""
    out = []
    for a in ODD_NAMES[:5]:
        for b in (a, ODD_NAMES[(ODD_NAMES.index(a) + 1) % 5], None):
            for z in (False, True):
                for tail in (("sig", 0, "kill", None), ("sig", 0, "send_signal", 10), ("set", 0, "nice", 5), ("set", 0, "affinity", [1])):
                    out.append([("spawn", 7, False, None, a), ("new", 7), ("vanish", 7), ("spawn", 7, z, None, b), tail, ("isrun", 0)])
                out.append([("spawn", 7, False, None, a), ("iter", "keep"), ("exit", 7), ("reap", 7), ("spawn", 7, z, None, b),
                            ("sig", 0, "terminate", None), ("set", 0, "rlimit", [7, [5, 9]])])
    return out


def tid_reuse_histories():
    """The number comes back as the id of a non-leader *thread* of another process: not listed in /proc, refused by
    pid_exists(), yet kill(2), setpriority(2), sched_setaffinity(2), ioprio_set(2) and prlimit(2) all accept it."""
    out = []
    tails = [("set", 0, "nice", 5, "kw"), ("set", 0, "ionice", [2, 3], "kw"), ("set", 0, "affinity", [0], "kw"),
             ("set", 0, "rlimit", [7, [5, 9]], "kw"),
             ("sig", 0, "kill", None), ("sig", 0, "terminate", None), ("sig", 0, "suspend", None), ("sig", 0, "send_signal", 10),
             ("set", 0, "nice", 5), ("set", 0, "ionice", [2, 3]), ("set", 0, "affinity", [0]), ("set", 0, "rlimit", [7, [5, 9]])]
    for tail in tails:
        for seen in ([], [("isrun", 0)], [("sig", 0, "send_signal", 0)], [("wait", 0)], [("q", 0, "name")]):
            out.append([("spawn", 7, False), ("new", 7), ("vanish", 7)] + seen + [("thread", 1, 7), tail, ("isrun", 0), tail])
        out.append([("spawn", 7, False), ("iter", "keep"), ("exit", 7), ("reap", 7), ("iter", "keep"), ("thread", 2, 7), tail])
    return out


def copy_histories():
    """Handles that were duplicated or serialised (copy.copy, copy.deepcopy, pickle) before or after the PID changed hands;
    multi-threaded targets (a setting goes to the PID of the object, not to ids found in its task directory)."""
    out = []
    tails = [("sig", 1, "kill", None), ("sig", 1, "send_signal", 10), ("set", 1, "nice", 5), ("set", 1, "affinity", [1]),
             ("set", 1, "ionice", [2, 3]), ("set", 1, "rlimit", [7, [5, 9]])]
    for how in ("copy", "deepcopy", "pickle"):
        for tail in tails:
            out.append([("spawn", 7, False), ("new", 7), ("vanish", 7), ("spawn", 7, False), ("copy", 0, how), tail, ("isrun", 1)])
            out.append([("spawn", 7, False), ("new", 7), ("copy", 0, how), ("vanish", 7), ("spawn", 7, False), tail, ("isrun", 1)])
            out.append([("spawn", 7, False), ("new", 7), ("vanish", 7), ("spawn", 7, False), ("isrun", 0), ("copy", 0, how), tail])
            out.append([("spawn", 7, False), ("new", 7), ("vanish", 7), ("isrun", 0), ("copy", 0, how), ("spawn", 7, False), tail])
            out.append([("spawn", 7, False), ("new", 7), ("copy", 0, how), tail, ("isrun", 1)])
    for tail in [("sig", 0, "kill", None), ("sig", 0, "suspend", None), ("set", 0, "nice", 5), ("set", 0, "affinity", [1]),
                 ("set", 0, "affinity", []), ("set", 0, "ionice", [2, 3]), ("set", 0, "rlimit", [7, [5, 9]])]:
        out.append([("spawn", 7, False), ("thread", 7, 301), ("thread", 7, 302), ("new", 7), tail, ("isrun", 0)])
        out.append([("spawn", 7, False), ("new", 7), ("thread", 7, 301), tail, ("thread", 7, 302), tail])
    return out


def fault_histories():
    """A transient resource error (EMFILE, ENFILE, ENOMEM, EIO on the next open of a stat file) right at the call made on a
    handle whose PID was recycled - or is still the right one."""
    out = []
    tails = [("sig", 0, "kill", None), ("sig", 0, "terminate", None), ("sig", 0, "send_signal", 10), ("sig", 0, "send_signal", 0),
             ("set", 0, "nice", 5), ("set", 0, "ionice", [2, 3]), ("set", 0, "affinity", [1]), ("set", 0, "rlimit", [7, [5, 9]])]
    for err in ("EMFILE", "ENFILE", "ENOMEM", "EIO"):
        for tail in tails:
            out.append([("spawn", 7, False), ("new", 7), ("vanish", 7), ("spawn", 7, False), ("fault", err), tail, tail, ("isrun", 0)])
            out.append([("spawn", 7, False), ("new", 7), ("exit", 7), ("reap", 7), ("spawn", 7, True), ("fault", err), tail, tail])
            out.append([("spawn", 7, False), ("new", 7), ("fault", err), tail, tail])
            out.append([("spawn", 7, False), ("iter", "keep"), ("vanish", 7), ("spawn", 7, False), ("fault", err), tail, ("iter",), tail])
    return out


def pid0_histories():
    out = []
    for k in ("send_signal", "suspend", "resume", "terminate", "kill"):
        for signo in ([1, 9, 15, 19] if k == "send_signal" else [None]):
            out.append([("new", 0), ("sig", 0, k, signo)])
            out.append([("new", 0), ("isrun", 0), ("sig", 0, k, signo)])
            out.append([("new", 0), ("iter",), ("sig", 0, k, signo), ("sig", 0, k, signo)])
    for k, v in (("nice", 5), ("ionice", [2, 3]), ("rlimit", [7, [5, 9]]), ("affinity", [0]), ("affinity", [])):
        out.append([("new", 0), ("set", 0, k, v, "kw")])
        out.append([("new", 0), ("set", 0, k, v)])
        out.append([("iter", "keep"), ("set", 0, k, v), ("isrun", 0), ("set", 0, k, v)])
    for neg in (-1, -2, -7, -2**31, -2**70):
        out.append([("newneg", neg), ("spawn", 7, False), ("new", 7), ("sig", 0, "kill", None)])
    return out


def signo_histories():
    out = []
    # state left behind by wait()/wait_procs() between the death and the re-use
    for w_ in (("wait", 0), ("wait", 0, "procs")):
        for z in (False, True):
            for tail in (("sig", 0, "kill", None), ("set", 0, "nice", 5), ("set", 0, "affinity", []), ("sig", 0, "send_signal", 10),
                         ("set", 0, "nice", 5, "kw"), ("set", 0, "ionice", [2, 3], "kw"), ("set", 0, "affinity", [1], "kw"),
                         ("set", 0, "rlimit", [7, [5, 9]], "kw")):
                out.append([("spawn", 7, False), ("new", 7), ("exit", 7), ("reap", 7), w_, ("spawn", 7, z), tail])
                out.append([("spawn", 7, False), ("newp", 7), ("vanish", 7), w_, ("isrun", 0), ("spawn", 7, z), tail])
    for z in (False, True):
        out.append([("spawn", 7, False), ("new", 7), ("vanish", 7), ("spawn", 7, z), ("set", 0, "affinity", [])])
        out.append([("spawn", 7, False), ("new", 7), ("vanish", 7), ("isrun", 0), ("spawn", 7, z), ("set", 0, "affinity", [])])
    # guards served from a cache / skipped for special object kinds must still see a recycled pid
    for kind, signo in (("kill", None), ("terminate", None), ("suspend", None), ("send_signal", 10)):
        for z in (False, True):
            # identity check inside an open oneshot() block, then the pid is recycled, then the signal - all in the block
            for pre in ([("isrun", 0)], [("q", 0, "ppid")], [("set", 0, "nice", 3)], [("sig", 0, "resume", None)]):
                out.append([("spawn", 7, False), ("new", 7), ("osenter", 0)] + pre + [("vanish", 7), ("spawn", 7, z),
                           ("sig", 0, kind, signo), ("set", 0, "nice", 7), ("osexit", 0), ("sig", 0, kind, signo)])
            # psutil.Popen objects whose child was reaped elsewhere (returncode still None)
            out.append([("spawn", 7, False), ("newp", 7), ("sig", 0, kind, signo), ("vanish", 7), ("spawn", 7, z), ("sig", 0, kind, signo),
                        ("set", 0, "nice", 5), ("set", 0, "ionice", [2, 3]), ("set", 0, "affinity", [0]), ("set", 0, "rlimit", [7, [5, 9]])])
            out.append([("spawn", 7, False), ("newp", 7), ("isrun", 0), ("exit", 7), ("reap", 7), ("spawn", 7, z), ("q", 0, "name"),
                        ("sig", 0, kind, signo)])
    for s in SIGNOS:
        out.append([("spawn", 7, False), ("new", 7), ("sig", 0, "send_signal", s), ("vanish", 7),
                    ("spawn", 7, False), ("sig", 0, "send_signal", s)])
    for n in range(-20, 20):
        out.append([("spawn", 7, False), ("new", 7), ("set", 0, "nice", n), ("vanish", 7), ("spawn", 7, True),
                    ("set", 0, "nice", n)])
    for c in (0, 1, 2, 3):
        for lv in range(8):
            if c in (0, 3) and lv:
                continue
            out.append([("spawn", 7, False), ("new", 7), ("set", 0, "ionice", [c, lv]), ("exit", 7), ("reap", 7),
                        ("isrun", 0), ("spawn", 7, False), ("set", 0, "ionice", [c, lv])])
    for mask in range(1, 16):
        cpus = [i for i in range(4) if mask >> i & 1]
        out.append([("spawn", 7, False), ("new", 7), ("set", 0, "affinity", cpus), ("vanish", 7),
                    ("spawn", 7, False), ("iter",), ("set", 0, "affinity", cpus)])
    for res in range(16):
        out.append([("spawn", 7, False), ("new", 7), ("set", 0, "rlimit", [res, [10, 20]]), ("vanish", 7),
                    ("spawn", 7, False), ("set", 0, "rlimit", [res, [10, 20]])])
    return out


def run_suite_audit(shard, acc):
    """Secondary workload: the upstream tests run under an audit hook on os.kill/os.killpg."""
    import json
    import os
    import subprocess
    import sys
    import tempfile
    ov = os.environ["VERIF_OVERLAY"]
    log = tempfile.mktemp(prefix="c01audit_")
    env = dict(os.environ, VERIF_AUDIT_LOG=log)
    cmd = [sys.executable, "-B", "-m", "pytest", "-q", "--no-header", "-p", "no:cacheprovider", "-p", "vlib.pytest_killaudit",
           "--timeout=600"] + [os.path.join(ov, "psutil", "tests", f) for f in shard["files"]]
    subprocess.run(cmd, cwd=ov, env=env, stdout=subprocess.PIPE, stderr=subprocess.STDOUT, text=True)
    counts = {}
    if os.path.exists(log + ".counts"):
        with open(log + ".counts") as f:
            counts = json.load(f)
        os.unlink(log + ".counts")
    for k, v in counts.items():
        acc.count("suite_audit_" + k, v)
    viols = []
    if os.path.exists(log):
        with open(log) as f:
            for line in f:
                viols.append(("kill_nonpositive_pid:upstream_suite", line.strip()))
        os.unlink(log)
    if not counts:
        acc.inconclusive = "audit plugin did not report (pytest run failed to start?)"
    acc.case(dict(kind="suite_audit", files=shard["files"]), True, viols)


# ---- live kernel: a REAL recycled pid -------------------------------------------------------------------

LIVE_VARIANTS = ["saw_pid_free", "waited_after_death", "never_saw_pid_free", "popen_waited", "from_process_iter",
                 "queried_then_reused"]


def run_live_reuse(shard, acc):
    """A real child is started, remembered by a psutil object, killed and reaped; vlib.livereuse then forks until the
    kernel hands the same pid to a new, unrelated process (an innocent bystander that only pauses).  Every signal form
    and every setter is then tried on the stale object: each must raise NoSuchProcess and the bystander must stay
    exactly as it was (alive, not stopped, same nice / affinity / limits)."""
    import os
    import subprocess
    import sys
    import time
    from vlib import livereuse
    ps = setup()["ps"]
    assert ps.PROCFS_PATH == "/proc", ps.PROCFS_PATH
    variant = shard["variant"]
    case = dict(kind="live_reuse", variant=variant)
    viols = []
    env = {k: v for k, v in os.environ.items() if k != "LD_PRELOAD"}
    argv = [sys.executable, "-S", "-c", "import time\nwhile True: time.sleep(1000)"]
    ps.process_iter.cache_clear()        # no entry left over from an earlier owner of a recycled pid
    if variant == "popen_waited":
        child = ps.Popen(argv, env=env)
        obj = child
    else:
        child = subprocess.Popen(argv, env=env)
        if variant == "from_process_iter":
            obj = [p for p in ps.process_iter() if p.pid == child.pid][0]
        else:
            obj = ps.Process(child.pid)
    pid = child.pid
    if variant == "queried_then_reused":
        obj.name(), obj.ppid(), obj.status(), obj.is_running()
    os.kill(pid, 9)
    child.wait()
    if variant == "waited_after_death":
        try:
            obj.wait(timeout=1)
        except ps.TimeoutExpired:
            viols.append(("live:wait_timeout_for_reaped_child", variant))
    if variant in ("saw_pid_free", "popen_waited"):
        r = obj.is_running()
        if r is not False:
            viols.append(("live:is_running_True_after_reap", f"{variant}: is_running() -> {r!r} after the child was reaped"))
    t0 = time.time()
    with livereuse.Recycled(pid) as rec:
        if not rec.ok:
            acc.count("live_reuse_skipped")
            acc.extra.setdefault("live_reuse_skipped", []).append(rec.why)
            return
        acc.count("live_pid_recyclings")
        acc.extra.setdefault("live_reuse_forks", []).append(rec.forks)
        before = livereuse.bystander_state(pid)
        ops = [("send_signal", lambda: obj.send_signal(15)), ("send_signal0", lambda: obj.send_signal(0)),
               ("suspend", obj.suspend), ("resume", obj.resume), ("terminate", obj.terminate), ("kill", obj.kill),
               ("nice", lambda: obj.nice(7)), ("ionice", lambda: obj.ionice(ps.IOPRIO_CLASS_IDLE)),
               ("cpu_affinity", lambda: obj.cpu_affinity([before["affinity"][0]])),
               ("cpu_affinity_all", lambda: obj.cpu_affinity([])),
               ("rlimit", lambda: obj.rlimit(ps.RLIMIT_NOFILE, (256, 256))),
               ("wait_procs_terminate", lambda: [q.terminate() for q in [obj]])]
        if variant == "from_process_iter":
            ops.insert(0, ("iter_again", lambda: [q.kill() for q in ps.process_iter() if q is obj]))
        for name, fn in ops:
            harness.mark_current(dict(case, op=name))
            acc.count("signals_on_recycled_pid")
            acc.count("live_ops_on_recycled_pid")
            try:
                fn()
                outcome = "returned"
            except ps.NoSuchProcess:
                outcome = "NoSuchProcess"
            except Exception as e:  # noqa: BLE001
                outcome = type(e).__name__
            time.sleep(0.01)
            try:
                after = livereuse.bystander_state(pid)
            except (OSError, ValueError):
                after = None
            acc.count("sink_events_checked")
            if after is None or after["starttime"] != before["starttime"]:
                viols.append((f"live:delivered_to_new_owner:{name}", f"{variant}: after {name}() on the stale object the bystander "
                              f"(pid {pid}) is gone; outcome={outcome}"))
                break
            if after != before:
                viols.append((f"live:delivered_to_new_owner:{name}", f"{variant}: {name}() on the stale object changed the bystander: "
                              f"{before} -> {after}; outcome={outcome}"))
                before = after
            if outcome != "NoSuchProcess" and name != "iter_again":
                viols.append((f"live:no_NoSuchProcess_for_gone_target:{name}", f"{variant}: {name}() -> {outcome}"))
        # identity facts (C02's side of the same history)
        fresh = ps.Process(pid)
        if obj == fresh or not (obj != fresh):
            viols.append(("live:stale_object_equals_new_owner", f"{variant}: old object == Process({pid}) of the bystander"))
        if obj.is_running() is not False:
            viols.append(("live:is_running_True_for_recycled_pid", f"{variant}"))
    acc.extra.setdefault("live_reuse_seconds", []).append(round(time.time() - t0, 1))
    acc.case(case, True, viols)
    harness.mark_current(None)


# ---- a call that blocks between the reuse check and the delivery ------------------------------------------------

class _WatchedLock:
    """Stands in for Process._lock: same behaviour, but tells when a thread is waiting for it."""

    def __init__(self, real):
        self._real = real
        self.waiting = False

    def acquire(self, *a, **k):
        if self._real.acquire(False):
            return True
        self.waiting = True
        try:
            return self._real.acquire(*a, **k)
        finally:
            self.waiting = False

    def release(self):
        return self._real.release()

    def __enter__(self):
        self.acquire()
        return self

    def __exit__(self, *a):
        self.release()


def run_blocked_call(case, acc):
    """Thread 1 sits inside `with p.oneshot()` (which holds the object's lock); thread 2 issues a signal / setter on the same
    object. If - and only if - thread 2 is seen *waiting for that lock*, the process ends, its pid is handed to another one,
    and only then thread 1 leaves its block.  Whatever thread 2 finally delivers must not reach the new owner.  (A call that
    never waits completes before anything changes: nothing to decide then.)"""
    import threading
    import time
    env = setup()
    ps, H = env["ps"], env["H"]
    opname = case["op"]
    viols = []
    w = H.World(ps)
    with w:
        w.apply(("spawn", PID, False))
        w.apply(("new", PID))
        h = w.handles[0]
        old_inc = h.inc
        lock = _WatchedLock(h.obj._lock)
        h.obj._lock = lock
        inside, leave = threading.Event(), threading.Event()
        out = {}

        def t1():
            with h.obj.oneshot():
                h.obj.name()
                inside.set()
                leave.wait(30)

        def t2():
            fn = {"kill": h.obj.kill, "terminate": h.obj.terminate, "suspend": h.obj.suspend,
                  "send_signal": lambda: h.obj.send_signal(10), "nice": lambda: h.obj.nice(5),
                  "ionice": lambda: h.obj.ionice(2, 3), "affinity": lambda: h.obj.cpu_affinity([0]),
                  "rlimit": lambda: h.obj.rlimit(7, (5, 9))}[opname]
            try:
                fn()
                out["res"] = "returned"
            except ps.NoSuchProcess:
                out["res"] = "NoSuchProcess"
            except Exception as e:  # noqa: BLE001
                out["res"] = type(e).__name__
        a = threading.Thread(target=t1, daemon=True)
        b = threading.Thread(target=t2, daemon=True)
        a.start()
        inside.wait(30)
        ev0 = len(w.vk.events)
        b.start()
        while b.is_alive() and not lock.waiting:
            time.sleep(0.0005)
        blocked = b.is_alive() and lock.waiting
        if blocked:
            acc.count("calls_seen_blocked_between_check_and_delivery")
            w.t.remove(PID)
            newp = w.t.spawn(PID, 9000, ppid=1, comm=b"newcomer")
        leave.set()
        a.join(30)
        b.join(30)
        acc.count("signals_on_recycled_pid" if blocked else "signals_on_live_target")
        acc.count("sink_events_checked", len(w.vk.events) - ev0)
        if blocked:
            for e in w.vk.events[ev0:]:
                if e[0] != "reaped" and not (e[0] == "kill" and e[2] == 0) and e[-1] == newp.inc:
                    viols.append((f"delivered_to_new_owner:call_blocked_between_check_and_delivery:{opname}",
                                  f"{opname}() waited for the object's lock (held by another thread's oneshot block) after its reuse check; "
                                  f"the process ended and pid {PID} was recycled meanwhile; delivered {list(e)}; outcome {out.get('res')}"))
    acc.case(dict(kind="blocked_call", op=opname), blocked, viols)


def plan(tier, seed):
    depth = 5 if tier == "quick" else 6
    nrand = 48000 if tier == "quick" else 600000
    shards = [dict(kind="fixed")]
    # one shard, variants one after the other: concurrent recyclers would snatch each other's target pid
    shards.append(dict(kind="live_reuse", variants=LIVE_VARIANTS[:2] if tier == "quick" else LIVE_VARIANTS, timeout=1500))
    if tier == "thorough":
        shards.append(dict(kind="suite_audit", files=["test_process.py", "test_posix.py"], timeout=3000))
        shards.append(dict(kind="suite_audit", files=["test_system.py", "test_misc.py", "test_testutils.py"], timeout=3000))
    nparts = 16 if tier == "quick" else 48
    for i in range(nparts):
        shards.append(dict(kind="enum", depth=depth, part=i, parts=nparts))
    for s, c in harness.split_range(nrand, nparts):
        shards.append(dict(kind="rand", seed=seed, start=s, count=c))
    return shards


def run_shard(shard):
    acc = harness.Acc(max_samples=2)
    setup()
    k = shard["kind"]
    if k == "fixed":
        for h in pid0_histories():
            run_history(h, acc, with_pid0=True)
        for h in signo_histories():
            run_history(h, acc)
        for h in tid_reuse_histories():
            run_history(h, acc)
            acc.count("histories_with_pid_recycled_as_thread_id")
        for h in odd_name_histories():
            run_history(h, acc)
            acc.count("histories_with_odd_process_names")
        for h in copy_histories():
            run_history(h, acc)
            acc.count("histories_with_copied_handles_or_multithreaded_targets")
        for h in fault_histories():
            run_history(h, acc)
            acc.count("histories_with_a_transient_fault_at_the_call")
        acc.count("exhaustive_signal_numbers", len(SIGNOS))
        for opname in ("kill", "terminate", "suspend", "send_signal", "nice", "ionice", "affinity", "rlimit"):
            run_blocked_call(dict(op=opname), acc)
        acc.exhaustive = True
    elif k == "enum":
        hs = enum_histories(shard["depth"])
        acc.extra["enumerated_histories_depth"] = shard["depth"]
        acc.extra["enumerated_histories_total"] = len(hs)
        for i, h in enumerate(hs):
            if i % shard["parts"] == shard["part"]:
                run_history(h, acc)
                if i % 7 == 0:
                    run_history(h, acc, caller_pid=PID)
        acc.exhaustive = True
    elif k == "rand":
        for i in range(shard["start"], shard["start"] + shard["count"]):
            rng = harness.rng_for(shard["seed"], "c01", i)
            run_history(gen_random(rng), acc, with_pid0=False, caller_pid=(rng.choice([7, 8, 9]) if i % 6 == 0 else None))
    elif k == "suite_audit":
        run_suite_audit(shard, acc)
    elif k == "live_reuse":
        for v in shard["variants"]:
            run_live_reuse(dict(variant=v), acc)
    elif k == "cases":
        for case in shard["cases"]:
            if case.get("kind") == "live_reuse":
                run_live_reuse(dict(variant=case["variant"]), acc)
                continue
            if case.get("kind") == "suite_audit":
                run_suite_audit(dict(files=case["files"]), acc)
                continue
            if case.get("kind") == "blocked_call":
                run_blocked_call(case, acc)
                continue
            run_history([tuple(o) for o in case["hist"]], acc, with_pid0=case.get("pid0", False), caller_pid=case.get("caller_pid"))
    return acc.result()
