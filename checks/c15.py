"""C15 - wait() and wait_procs(): right exit status, never early, timeouts honoured.

Virtual time: the polling loop's timer/sleep are bound to a VClock, os.waitpid / pid_exists are answered
by the simulated process table whose exit events fire at scripted virtual instants.  The exit instant is
placed on a grid around every polling instant and around the deadline; so is the instant at which somebody
else collects the child (foreign reap: ECHILD in the middle of the polling, PID free or reused).  A small live run with real
children ties the status decoding to the real waitpid().
"""
import itertools
import os
import signal
import subprocess
import sys

from vlib import harness

ID = "C15"
LEVEL = "exploration"
TECHNIQUE = "runtime monitor on a virtual clock: recorded (time, sleep, waitpid) event log checked against the statement; exit-instant placement grid; live children for status decoding"
RULE = ("one case = (kind child/non-child/never-existed, exit instant, exit status, timeout, EINTR index) for Process.wait(), or "
        "(1-6 processes with exit instants/statuses, timeout, callback) for wait_procs(). exit instants are placed exhaustively on "
        "the grid {each polling instant of a dry run, +-1us, midpoints} U {deadline +-1us, +-20ms, +-39ms, +-41ms}; exit codes "
        "0-255 and signals 1-64 (+core flag) exhaustive; all exit-order permutations for <=4 processes. the instant at which "
        "somebody else in the process collects the child (ECHILD from then on; PID free, or reused at once by a non-child that "
        "ends later / never) is placed on the same grid, the child having ended there or up to 30 ms earlier. non-trivial = exit "
        "strictly between two polls or within 40 ms of the deadline, EINTR injected, or >=2 processes with different exit "
        "instants; distinct by case hash")
ASSUMPTIONS = [
    "virtual time: only psutil's own timer reads and sleeps advance the clock; process exit fires at its scripted instant during a sleep",
    "a non-child that exits is reaped by its own parent at once (it leaves the table at the exit instant)",
    "a child collected by somebody else (SIGCHLD handler, another thread's waitpid) leaves the table at that instant and its PID is free or "
    "taken at once by a non-child; a blocking waitpid() pending on it wakes up with ECHILD",
    "TimeoutExpired must be raised at an instant t with deadline <= t <= deadline + 0.04 s and only if the process was still alive at that instant",
]
REQUIRED_COUNTERS = ["wait_calls_checked", "timeouts_checked", "wait_procs_checked", "live_children_checked"]

_env = {}
PID = 77


def setup():
    if not _env:
        from vlib import psu, vkernel
        from vlib.proctable import ProcTable
        ps = psu.load()
        ps.PROCFS_PATH = "/vproc"
        import psutil._psposix as pp
        _env.update(ps=ps, vkernel=vkernel, ProcTable=ProcTable, pp=pp, orig_defaults=pp.wait_pid.__defaults__,
                    orig_timer=ps._timer)
    return _env


class World:
    def __init__(self, procs, eintr_at=None, wall_steps=()):
        """procs: list of dict(pid, kind, exit_at (None=never), status); wall_steps: [(at, delta)] calendar-clock steps"""
        env = setup()
        self.ps = env["ps"]
        t = env["ProcTable"](self_pid=2)
        t.spawn(1, 1, ppid=0, comm=b"init")
        t.spawn(2, 2, ppid=1, comm=b"harness")
        self.clock = env["vkernel"].VClock(5000.0)
        self.t0 = self.clock.t
        self.clock.wall_offset = 0.0

        def step(delta):
            self.clock.wall_offset += delta
        for at, delta in wall_steps:
            self.clock.at(self.t0 + at, lambda delta=delta: step(delta))
        self.polls = []       # (time, pid, result)
        self.fires = {}
        self.access_exit = None      # (access index, pid): the process ends right before that kernel access is served
        self.access_exit_fired_at = None
        self.eintr_at = eintr_at
        self.nwait = 0
        self.foreign = False
        self.collected_at = {}       # pid -> instant at which somebody else collected our child
        for i, pr in enumerate(procs):
            if pr["kind"] == "never":
                continue
            t.spawn(pr["pid"], 100 + i, ppid=(2 if pr["kind"] == "child" else 1), comm=b"w%d" % i)
            def fire(pr=pr):
                if pr["kind"] == "child":
                    t.exit(pr["pid"], pr["status"])
                else:
                    t.remove(pr["pid"])
            self.fires[pr["pid"]] = fire
            R = pr.get("reaped_at")
            if pr["exit_at"] is not None and (R is None or pr["exit_at"] <= R):
                self.clock.at(self.t0 + pr["exit_at"], fire)
            if R is not None:
                # somebody else in this very process (a SIGCHLD handler, another thread in os.waitpid(-1), a
                # subprocess.Popen.poll()) collects the child at that instant - the child ends there at the latest -: from
                # then on waitpid() answers ECHILD, and the PID is free, or already belongs to a newcomer that is not our child
                def collect(pr=pr):
                    q = t.procs.get(pr["pid"])
                    if q is None or q.ppid != 2:
                        return          # psutil's own poll was first: it holds the status
                    t.remove(pr["pid"])
                    self.collected_at[pr["pid"]] = self.clock.t
                    nc = pr.get("newcomer_exit_at")
                    if nc is not None:
                        t.spawn(pr["pid"], 999000 + len(self.collected_at), ppid=1, comm=b"newcomer")
                        if nc != "never":
                            self.clock.at(self.t0 + nc, lambda: t.remove(pr["pid"]))
                self.foreign = True
                self.clock.at(self.t0 + R, collect)
        self.t = t
        vk = env["vkernel"].VK()
        vk.table = t
        vk.clock = self.clock
        vk.mount("/vproc", t)
        tb = env["ProcTable"](self_pid=2)
        tb.spawn(1, 1, ppid=0, comm=b"init")
        vk.mount("/vprocB", tb)          # somebody else's procfs: no trace of our processes there
        self.vk = vk

        def hook(pid, flags):
            self.nwait += 1
            if self.eintr_at is not None and self.nwait - 1 == self.eintr_at:
                self.polls.append((self.clock.t, pid, "EINTR"))
                return InterruptedError(4, "Interrupted system call")
            if self.foreign and not flags & os.WNOHANG:
                # a blocking waitpid() whose child is collected by somebody else meanwhile wakes up with ECHILD
                while True:
                    q = t.procs.get(pid)
                    if q is None or q.ppid != 2:
                        return ChildProcessError(10, "No child processes")
                    if q.zombie:
                        return None
                    if not self.clock.timers:
                        raise RuntimeError("blocking waitpid would never return in the simulation")
                    self.clock.advance(max(0.0, self.clock.timers[0][0] - self.clock.t))
            return None
        t.waitpid_hook = hook

        def on_access(vk_, i, kind, path):
            if i > 400000:
                # watchdog in logical steps (a call that spins without ever sleeping)
                raise RuntimeError("runaway: more than 400000 kernel accesses in one simulated case (the call never returns)")
            if self.access_exit is not None and i >= self.access_exit[0]:
                pid_ = self.access_exit[1]
                self.access_exit = None
                self.access_exit_fired_at = self.clock.t
                self.access_exit_polls_before = len(self.polls)
                self.fires[pid_]()
            if kind in ("waitpid", "kill"):
                self.polls.append((self.clock.t, path, kind))
        vk.on_access = on_access

    def __enter__(self):
        env = _env
        self.vk.__enter__()
        import time as _time

        def wall():
            return self.clock.now() + self.clock.wall_offset + 1_700_000_000.0

        def virtual(fn):
            # whichever clock the code chose keeps its nature: the monotonic one never steps, the calendar one does
            return wall if fn is _time.time else self.clock.now
        nsleeps = [0]

        def sleep(dt):
            # watchdog in logical steps: no call examined here needs anywhere near that many polls
            nsleeps[0] += 1
            if nsleeps[0] > 300000:
                raise RuntimeError("runaway: more than 300000 polls in one simulated case (the call never returns)")
            return self.clock.sleep(dt)
        d = list(env["orig_defaults"])
        d[3] = virtual(d[3])
        d[5] = sleep
        env["pp"].wait_pid.__defaults__ = tuple(d)
        self.ps._timer = virtual(env["orig_timer"])
        return self

    def __exit__(self, *a):
        env = _env
        self.ps.PROCFS_PATH = "/vproc"
        env["pp"].wait_pid.__defaults__ = env["orig_defaults"]
        self.ps._timer = env["orig_timer"]
        self.vk.__exit__(*a)


def expected_value(kind, status):
    if kind != "child":
        return None
    if status & 0x7F == 0:
        return (status >> 8) & 0xFF
    return -(status & 0x7F)


def last_poll_of(w, start):
    return max((t for t, _, _ in w.polls), default=start)


def run_wait_case(case, acc):
    """case: kind, exit_at, status, timeout, eintr_at"""
    env = setup()
    ps = env["ps"]
    viols = []
    kind, exit_at, status, timeout = case["kind"], case["exit_at"], case["status"], case["timeout"]
    ctx = f"case={case}"
    w = World([dict(pid=PID, kind=kind, exit_at=exit_at, status=status, reaped_at=case.get("reaped_at"),
                    newcomer_exit_at=case.get("newcomer_exit_at"))], eintr_at=case.get("eintr_at"),
              wall_steps=case.get("wall_steps", ()))
    nontrivial = case.get("eintr_at") is not None
    with w:
        if kind == "never":
            # an object for a pid that never existed can only come from Popen-like construction; use a pid
            # that exists at construction and is gone (never a child) before wait() - and the pure
            # "never existed" path through wait_pid itself
            try:
                r = env["pp"].wait_pid(PID, timeout)
            except Exception as e:  # noqa: BLE001
                r = e
            acc.count("wait_calls_checked")
            if r is not None:
                viols.append(("never_existed_not_None", ctx + f" -> {r!r}"))
            if w.clock.sleeps:
                viols.append(("never_existed_slept", ctx + f" sleeps={w.clock.sleeps}"))
            acc.case(case, False, viols)
            return
        p = ps.Process(PID)
        if timeout is not None and timeout < 0:
            try:
                p.wait(timeout)
                viols.append(("negative_timeout_accepted", ctx))
            except ValueError:
                pass
            if w.polls or w.clock.sleeps:
                viols.append(("negative_timeout_polled", ctx))
            acc.case(case, False, viols)
            return
        if case.get("moved_procfs"):
            # psutil.PROCFS_PATH is re-pointed after the object was made (at a tree that does not hold this PID): waiting is a
            # matter between the caller and the kernel (waitpid / kill 0), not of whichever procfs is on display
            w.ps.PROCFS_PATH = "/vprocB"
            acc.count("waits_after_procfs_path_moved_elsewhere")
        if case.get("recycled"):
            # the process the object was made for is gone and its PID already belongs to somebody else (not our child) when
            # wait() is first called: the call keeps its documented way of working - it waits for the PID, i.e. returns None
            # once the newcomer is gone too, or times out - and never answers NoSuchProcess
            w.t.remove(PID)
            w.t.spawn(PID, 999000, ppid=1, comm=b"newcomer")
            acc.count("waits_on_an_object_whose_pid_was_recycled_before_the_call")
        w.clock.advance(0)        # exits scheduled at +0 have already happened when wait() is called
        start = w.clock.t
        w.polls.clear()
        if case.get("exit_at_access") is not None:
            # the process ends between two kernel accesses of the call (whatever they are: polls, procfs reads, ...)
            w.access_exit = (len(w.vk.log) + case["exit_at_access"], PID)
        try:
            r = ("ok", p.wait(timeout))
        except ps.TimeoutExpired as e:
            r = ("timeout", e)
        except Exception as e:  # noqa: BLE001
            r = ("exc", e)
        end = w.clock.t
        acc.count("wait_calls_checked")
        sleeps = list(w.clock.sleeps)
        T = None if exit_at is None else w.t0 + exit_at
        if case.get("exit_at_access") is not None:
            w.access_exit = None
            T = w.access_exit_fired_at
            acc.count("waits_with_exit_between_two_accesses" if T is not None else "waits_with_exit_access_never_reached")
        deadline = None if timeout is None else start + timeout
        # sleeps discipline
        if sleeps:
            if abs(sleeps[0] - 0.0001) > 1e-12:
                viols.append(("first_poll_sleep_not_0.1ms", ctx + f" sleeps={sleeps[:4]}"))
            if max(sleeps) > 0.04 + 1e-12:
                viols.append(("poll_sleep_exceeds_40ms", ctx + f" max={max(sleeps)}"))
        if timeout == 0 and sleeps:
            viols.append(("timeout0_slept", ctx + f" sleeps={sleeps}"))
        if case.get("reaped_at") is not None:
            foreign_reap_verdict(case, w, p, r, start, end, ctx, viols, acc)
            ts = sorted({t for t, _, _ in w.polls})
            R = w.t0 + case["reaped_at"]
            acc.case(case, any(a < R < b for a, b in zip(ts, ts[1:])) or (deadline is not None and abs(R - deadline) <= 0.04), viols)
            return
        if r[0] == "exc":
            viols.append((f"wait_exception:{type(r[1]).__name__}", ctx + f" {r[1]!r}"))
        elif r[0] == "ok":
            want = expected_value(kind, status)
            if T is None:
                viols.append(("returned_for_immortal_process", ctx + f" -> {r[1]!r}"))
            else:
                if end < T - 1e-12:
                    viols.append(("returned_before_exit", ctx + f" returned at +{end - start:.6f} exit at +{T - start:.6f}"))
                if r[1] != want or (want is not None and not isinstance(r[1], int)):
                    viols.append(("wrong_exit_value", ctx + f" got {r[1]!r} want {want!r}"))
                if want is not None and want < 0:
                    try:
                        nm = signal.Signals(-want).name
                        if getattr(r[1], "name", nm) != nm:
                            viols.append(("wrong_negsignal_name", ctx + f" got {r[1]!r}"))
                    except ValueError:
                        pass
                # cached on later calls, without polling again
                n0 = len(w.polls)
                for _ in range(2):
                    try:
                        r2 = p.wait(timeout)
                    except Exception as e:  # noqa: BLE001
                        r2 = e
                    if r2 != r[1]:
                        viols.append(("later_wait_differs", ctx + f" first {r[1]!r} later {r2!r}"))
                if len(w.polls) != n0:
                    viols.append(("later_wait_polled_again", ctx))
                # argument rules do not depend on what an earlier call left behind
                for bad in (-1, -0.001, float("-inf")):
                    acc.count("negative_timeouts_after_cached_result")
                    try:
                        rb = p.wait(bad)
                        viols.append(("negative_timeout_accepted:after_cached_result", ctx + f" wait({bad}) -> {rb!r}"))
                    except ValueError:
                        pass
                    except Exception as e:  # noqa: BLE001
                        viols.append((f"negative_timeout_wrong_exception:{type(e).__name__}", ctx + f" wait({bad})"))
        else:
            acc.count("timeouts_checked")
            e = r[1]
            if timeout is None:
                viols.append(("timeout_without_timeout", ctx))
            else:
                if e.seconds != timeout or e.pid != PID:
                    viols.append(("timeout_wrong_fields", ctx + f" seconds={e.seconds} pid={e.pid}"))
                if end < deadline - 1e-12:
                    viols.append(("timeout_before_deadline", ctx + f" raised at +{end - start:.6f} deadline +{timeout}"))
                if end > deadline + 0.04 + 1e-9:
                    viols.append(("timeout_more_than_one_poll_late", ctx + f" raised at +{end - start:.6f} deadline +{timeout}"))
                if T is not None and T <= end + 1e-12:
                    # the process had already ended when TimeoutExpired was raised: was it seen by the last poll?
                    last_poll = max((t for t, _, _ in w.polls), default=start)
                    lastp = [x for x in w.polls if x[0] == last_poll]
                    unseen = (case.get("exit_at_access") is not None
                              and getattr(w, "access_exit_polls_before", 0) == len(w.polls))    # no poll came after the exit
                    if T <= last_poll + 1e-12 and not unseen:
                        mech = "timeout_although_exit_seen_by_last_poll"
                        if any(x[2] == "EINTR" for x in lastp):
                            mech = "timeout_raised_after_interrupted_poll_without_retry"
                        viols.append((mech, ctx + f" exit +{T - start:.6f} last poll +{last_poll - start:.6f}"))
        if r[0] == "timeout" and timeout is not None and T is not None and last_poll_of(w, start) + 1e-12 < T <= end + 1e-12:
            # the process ended after the last poll but before TimeoutExpired was raised: the statement allows the
            # exception only if the deadline passed with the process still alive, i.e. a poll at the raising instant
            if not any(x[2] == "EINTR" for x in w.polls if x[0] == last_poll_of(w, start)):
                viols.append(("timeout_raised_without_final_poll", ctx + f" exit +{T - start:.6f} last poll +{last_poll_of(w, start) - start:.6f} "
                                                                         f"raised +{end - start:.6f}"))
        if T is not None and timeout is not None:
            if abs(T - deadline) <= 0.04:
                nontrivial = True
        if T is not None and w.polls:
            ts = sorted({t for t, _, _ in w.polls})
            if any(a < T < b for a, b in zip(ts, ts[1:])):
                nontrivial = True
    acc.case(case, nontrivial, viols)


def foreign_reap_verdict(case, w, p, r, start, end, ctx, viols, acc):
    """Our child is collected by somebody else at R (it ended at exit_at <= R; in between it is a zombie whose status wait()
    gets if one of its polls falls there).  From R on the PID is free - or belongs at once to a newcomer, not our child, which
    ends at newcomer_exit_at.  The statement: the exit code if wait() itself collected the status; otherwise None, not before
    the PID is gone; TimeoutExpired only if the PID is still there when it is raised, at most one poll after the deadline."""
    ps = _env["ps"]
    timeout, status = case["timeout"], case["status"]
    nc = case.get("newcomer_exit_at")
    how = "child_collected_by_somebody_else" + ("" if nc is None else "_and_pid_reused")
    acc.count("waits_with_child_collected_by_somebody_else")
    if nc is not None:
        acc.count("waits_with_child_collected_by_somebody_else_and_pid_reused")
    own = [ev for ev in w.vk.events if ev[0] == "reaped" and ev[1] == PID]      # wait()'s own waitpid() got the status
    X = w.t0 + (case["exit_at"] if case["exit_at"] is not None and case["exit_at"] <= case["reaped_at"] else case["reaped_at"])
    if own:
        G = X
    elif PID not in w.collected_at:
        G = None                       # the call was over before anything happened to the child
    elif nc is None:
        G = w.collected_at[PID]
    else:
        G = None if nc == "never" else max(w.t0 + nc, w.collected_at[PID])
    where = f" collected +{case['reaped_at']:.6f} pid free " + ("never" if G is None else f"+{G - start:.6f}") + f" call over +{end - start:.6f}"
    if r[0] == "exc":
        viols.append((f"wait_exception:{type(r[1]).__name__}:{how}", ctx + f" {r[1]!r}"))
    elif r[0] == "ok":
        want = expected_value("child", status) if own else None
        if G is None or end < G - 1e-12:
            viols.append((f"returned_before_pid_gone:{how}", ctx + f" -> {r[1]!r}" + where))
        if r[1] != want:
            viols.append((f"wrong_exit_value:{how}", ctx + f" got {r[1]!r} want {want!r} (status collected by "
                          f"{'wait() itself' if own else 'somebody else'})"))
        n0 = len(w.polls)
        for _ in range(2):
            try:
                r2 = p.wait(timeout)
            except Exception as e:  # noqa: BLE001
                r2 = e
            if r2 != r[1]:
                viols.append((f"later_wait_differs:{how}", ctx + f" first {r[1]!r} later {r2!r}"))
        if len(w.polls) != n0:
            viols.append((f"later_wait_polled_again:{how}", ctx))
    else:
        acc.count("timeouts_checked")
        e = r[1]
        if timeout is None:
            viols.append((f"timeout_without_timeout:{how}", ctx))
            return
        deadline = start + timeout
        if e.seconds != timeout or e.pid != PID:
            viols.append(("timeout_wrong_fields", ctx + f" seconds={e.seconds} pid={e.pid}"))
        if end < deadline - 1e-12:
            viols.append((f"timeout_before_deadline:{how}", ctx + f" raised at +{end - start:.6f} deadline +{timeout}"))
        if end > deadline + 0.04 + 1e-9:
            viols.append((f"timeout_more_than_one_poll_late:{how}", ctx + f" raised at +{end - start:.6f} deadline +{timeout}"))
        if own:
            viols.append((f"timeout_although_status_collected:{how}", ctx + where))
        elif G is not None and G <= end + 1e-12:
            # (virtual time only moves in the call's own sleeps: whatever is gone by the raising instant was gone when the
            # last sleep returned, with the deadline check still to come)
            viols.append((f"timeout_although_pid_gone:{how}", ctx + where))


def dry_poll_times(kind, timeout):
    setup()
    w = World([dict(pid=PID, kind=kind, exit_at=None, status=0)])
    with w:
        p = _env["ps"].Process(PID)
        start = w.clock.t
        w.polls.clear()
        try:
            p.wait(timeout)
        except _env["ps"].TimeoutExpired:
            pass
        return sorted({round(t - start, 9) for t, _, _ in w.polls})


def grid_cases(tier):
    out = []
    for kind in ("child", "nonchild"):
        for timeout in (0.5, 0.1, 1.0, 0.04, 0.0001, 0, None):
            polls = dry_poll_times(kind, timeout if timeout is not None else 0.5)
            pts = set()
            for a in polls:
                pts |= {a, a + 1e-6, max(0.0, a - 1e-6)}
            for a, b in zip(polls, polls[1:]):
                pts.add((a + b) / 2)
            if timeout is not None:
                for d in (0, 1e-6, -1e-6, 0.02, -0.02, 0.039, -0.039, 0.041, -0.041, 0.1, 1.0):
                    if timeout + d >= 0:
                        pts.add(timeout + d)
            pts.add(0.0)
            for x in sorted(pts):
                out.append(dict(kind=kind, exit_at=x, status=(3 << 8), timeout=timeout))
            out.append(dict(kind=kind, exit_at=None, status=0, timeout=timeout if timeout is not None else 0.3))
    # the process ends right before the k-th kernel access of the call, for every k the call can reach
    for kind in ("child", "nonchild"):
        for timeout in (0, 0.0001, 0.003, 0.05, 0.2):
            for k in range(0, 24):
                out.append(dict(kind=kind, exit_at=None, exit_at_access=k, status=(5 << 8), timeout=timeout))
    out += foreign_reap_grid()
    for timeout in (0, 0.05, 0.3, None):
        for x in (0.01, 0.1, 0.29, 0.31, 1.0, None):
            if not (timeout is None and x is None):
                out.append(dict(kind="nonchild", exit_at=x, status=0, timeout=timeout, recycled=True))
                for kind_ in ("nonchild", "child"):
                    out.append(dict(kind=kind_, exit_at=x, status=(2 << 8), timeout=timeout, moved_procfs=True))
    for timeout in (None, 0, 0.2):
        out.append(dict(kind="never", exit_at=None, status=0, timeout=timeout))
    for timeout in (-1, -0.0001, -1e9):
        out.append(dict(kind="child", exit_at=0.1, status=0, timeout=timeout))
    # statuses (exhaustive)
    for code in range(256):
        out.append(dict(kind="child", exit_at=0.01, status=code << 8, timeout=None if code % 2 else 1.0))
    for sig in range(1, 65):
        out.append(dict(kind="child", exit_at=0.01, status=sig, timeout=1.0))
        out.append(dict(kind="child", exit_at=0.01, status=sig | 0x80, timeout=None))
    # EINTR at every waitpid index
    for k in range(0, 12):
        for exit_at in (0.0, 0.005, 0.2):
            out.append(dict(kind="child", exit_at=exit_at, status=(7 << 8), timeout=0.5, eintr_at=k))
            out.append(dict(kind="child", exit_at=exit_at, status=9, timeout=None, eintr_at=k))
    return out


def foreign_reap_grid():
    """The instant at which somebody else collects the child is a placement variable like the exit instant: every polling
    instant of a dry run, +-1us, midpoints, the deadline +-1us / +-20 ms / +-39 ms / +-41 ms; the child ended right there or a
    little earlier (a zombie that one of wait()'s polls may still get); the PID stays free, or is reused at once by a
    non-child that ends shortly after / around the deadline / never."""
    out = []
    for timeout in (0.5, 0.05, 0.1, 0.04, 0.003, 0.0001, 0, None):
        polls = dry_poll_times("child", timeout if timeout is not None else 0.2)
        pts = {0.0}
        for a in polls:
            pts |= {a, a + 1e-6, max(0.0, a - 1e-6)}
        for a, b in zip(polls, polls[1:]):
            pts.add((a + b) / 2)
        if timeout is not None:
            for d in (0, 1e-6, -1e-6, 0.02, -0.02, 0.039, -0.039, 0.041, -0.041, 0.1):
                if timeout + d >= 0:
                    pts.add(timeout + d)
        for R in sorted(pts):
            base = dict(kind="child", exit_at=None, status=(9 << 8), timeout=timeout, reaped_at=R)
            out.append(base)
            for back in (0.0, 0.0007, 0.03):
                out.append(dict(base, exit_at=max(0.0, R - back), status=15))
            after = [R + 0.013, R + 0.05] + ([timeout - 1e-6, timeout + 0.001, "never"] if timeout is not None else [])
            for nc in after:
                if nc == "never" or nc >= R:
                    out.append(dict(base, newcomer_exit_at=nc))
    return out


def gen_wait_case(rng):
    kind = rng.choice(["child", "child", "nonchild"])
    timeout = rng.choice([None, 0, 0.0001, 0.001, 0.04, 0.05, 0.3, 1.0, 2.5, rng.random() * 2])
    exit_at = rng.choice([None, 0.0, rng.random() * 3, rng.random() * 0.1, (timeout or 0) + rng.uniform(-0.05, 0.05)])
    if exit_at is not None and exit_at < 0:
        exit_at = 0.0
    if exit_at is None and timeout is None:
        timeout = 0.2
    status = rng.choice([rng.randrange(256) << 8, rng.randrange(1, 65), rng.randrange(1, 65) | 0x80])
    case = dict(kind=kind, exit_at=exit_at, status=status, timeout=timeout)
    if kind == "child" and rng.random() < 0.2:
        case["eintr_at"] = rng.randrange(0, 30)
    if kind == "nonchild" and rng.random() < 0.2 and (exit_at is None or exit_at > 0):
        case["recycled"] = True
    if rng.random() < 0.12:
        case["moved_procfs"] = True
    if rng.random() < 0.15 and timeout is not None:
        case["exit_at"] = None
        case["exit_at_access"] = rng.randrange(0, 40)
    if kind == "child" and "eintr_at" not in case and "exit_at_access" not in case and rng.random() < 0.15:
        # somebody else collects the child (see foreign_reap_grid), anywhere - and preferably near the deadline
        R = rng.choice([rng.random() * ((timeout or 1.0) + 0.1), max(0.0, (timeout or 0.5) + rng.uniform(-0.045, 0.045)), rng.random() * 0.05])
        case["reaped_at"] = R
        case["exit_at"] = rng.choice([None, max(0.0, R - rng.random() * 0.05), R])
        if rng.random() < 0.4:
            case["newcomer_exit_at"] = rng.choice([R + rng.random() * 0.1, R + rng.random() * 2] + (["never"] if timeout is not None else []))
    if rng.random() < 0.25:
        # the calendar clock is stepped (NTP, date -s, VM resume) while the wait is in progress
        case["wall_steps"] = [[rng.random() * ((timeout or 1.0) + 0.2), rng.choice([-3600.0, -3.0, 3.0, 3600.0, -0.5, 0.5])]
                              for _ in range(rng.randrange(1, 3))]
    return case


# ---- wait_procs ---------------------------------------------------------------------------------------

def run_wait_procs_case(case, acc):
    env = setup()
    ps = env["ps"]
    viols = []
    procs = case["procs"]
    timeout = case["timeout"]
    ctx = f"case={case}"
    w = World(procs, wall_steps=case.get("wall_steps", ()))
    with w:
        objs = [ps.Process(pr["pid"]) for pr in procs]
        # the same process mentioned more than once: the very same object again, or a second equal object
        given = list(objs)
        for idx, how in (case.get("dups", []) if not case.get("reuse") else []):
            # (not together with a recycled pid: a second object that never waited would wait for the newcomer)
            if idx < len(objs):
                given.append(objs[idx] if how == "same" else ps.Process(procs[idx]["pid"]))
        if case.get("dups"):
            harness.rng_for("c15dups", len(given), case["timeout"]).shuffle(given)
            acc.count("wait_procs_with_repeated_mentions")
        # some of the objects were already wait()ed for by the caller (successfully or not) before wait_procs() sees them
        w.clock.advance(0)
        prewaited = {}
        for idx in case.get("prewait", []):
            if idx < len(objs):
                try:
                    objs[idx].wait(0)
                    prewaited.setdefault(objs[idx].pid, []).append(objs[idx])
                    acc.count("wait_procs_object_already_waited")
                except ps.TimeoutExpired:
                    acc.count("wait_procs_object_already_timed_out")
        if case.get("reuse"):
            # the pid of a process that is gone (and was already waited for) now belongs to somebody else
            for pr in procs:
                # (only objects whose wait() has already answered: an object that never learnt of the death waits for the
                # pid, i.e. for the newcomer - that is wait()'s documented way of working, not what is examined here)
                if pr["pid"] in prewaited and pr["pid"] not in w.t.procs:
                    w.t.spawn(pr["pid"], 999000, ppid=1, comm=b"newcomer")
                    acc.count("wait_procs_pid_recycled_before_the_call")
        cb_calls = []
        cb = (lambda p: cb_calls.append(p)) if case.get("callback", True) else None
        cb_exc = None
        if case.get("cb_raises"):
            import subprocess as _sp
            cb_exc = {"psutil.TimeoutExpired": lambda: ps.TimeoutExpired(3, pid=1), "subprocess.TimeoutExpired": lambda: _sp.TimeoutExpired("x", 3),
                      "NoSuchProcess": lambda: ps.NoSuchProcess(1), "ValueError": lambda: ValueError("from the callback"),
                      "KeyError": lambda: KeyError("k")}[case["cb_raises"]]()

            def cb(p):          # noqa: F811
                cb_calls.append(p)
                if len(cb_calls) > 500:
                    raise RuntimeError("runaway: the callback was called more than 500 times")
                raise cb_exc
            acc.count("wait_procs_with_raising_callback")
        w.clock.advance(0)
        start = w.clock.t
        try:
            # the processes may be handed over in any iterable (the function only needs to walk it once)
            form = case.get("form", "list")
            arg = {"list": given, "tuple": tuple(given), "generator": (x for x in given), "iterator": iter(given),
                   "filter": filter(None, given), "dict_keys": dict.fromkeys(given).keys()}[form]
            if form != "list":
                acc.count("wait_procs_given_another_iterable")
            gone, alive = ps.wait_procs(arg, timeout=timeout, callback=cb)
        except Exception as e:  # noqa: BLE001
            if cb_exc is not None and e is cb_exc:
                # the callback's own failure reached the caller; what happened before still counts: no process twice
                acc.count("wait_procs_callback_failure_propagated")
                for pr in procs:
                    ncb = sum(1 for c in cb_calls if c.pid == pr["pid"])
                    if ncb > 1:
                        viols.append(("callback_not_exactly_once:callback_raised", ctx + f" pid={pr['pid']} n={ncb}"))
                acc.case(case, True, viols)
                return
            viols.append((f"wait_procs_exception:{type(e).__name__}", ctx + f" {e!r}"))
            acc.case(case, True, viols)
            return
        end = w.clock.t
        acc.count("wait_procs_checked")
        if cb_exc is not None and cb_calls:
            # the function chose to go on after the callback failed: the bookkeeping rules below apply unchanged
            acc.count("wait_procs_went_on_after_callback_failure")
        gp, ap = [o.pid for o in gone], [o.pid for o in alive]
        if sorted(gp + ap) != sorted(pr["pid"] for pr in procs):
            # every process exactly once, however often it was mentioned
            viols.append(("gone_alive_not_a_partition", ctx + f" gone={gp} alive={ap}"))
        if any(not any(o is g for g in given) for o in list(gone) + list(alive)):
            viols.append(("result_object_not_from_input", ctx))
        for pr in procs:
            pid = pr["pid"]
            T = None if pr["exit_at"] is None else w.t0 + pr["exit_at"]
            ncb = sum(1 for c in cb_calls if c.pid == pid)
            if pid in gp:
                o = [x for x in gone if x.pid == pid][0]
                if T is None or T > end + 1e-12:
                    viols.append(("alive_process_reported_gone", ctx + f" pid={pid}"))
                if not hasattr(o, "returncode"):
                    viols.append(("gone_without_returncode", ctx + f" pid={pid}"))
                elif pid in prewaited and not any(o is x for x in prewaited[pid]):
                    # the exit status was consumed through another object for the same process: this one cannot know it
                    if o.returncode is not None:
                        viols.append(("wrong_returncode", ctx + f" pid={pid} got {o.returncode!r} on an object that never "
                                      f"waited, after another object had collected the status"))
                elif o.returncode != expected_value(pr["kind"], pr["status"]):
                    viols.append(("wrong_returncode", ctx + f" pid={pid} got {o.returncode!r}"))
                if cb is not None and ncb != 1:
                    viols.append(("callback_not_exactly_once", ctx + f" pid={pid} n={ncb}"))
            else:
                if cb is not None and ncb:
                    viols.append(("callback_for_alive_process", ctx + f" pid={pid}"))
                if timeout is None:
                    viols.append(("returned_with_alive_and_no_timeout", ctx + f" pid={pid}"))
                if T is not None and T <= start + 1e-12:
                    viols.append(("already_dead_process_reported_alive", ctx + f" pid={pid}"))
        if timeout is not None and end > start + timeout + 0.04 + 1e-9:
            viols.append(("wait_procs_late", ctx + f" returned at +{end - start:.6f} timeout {timeout}"))
        if max(w.clock.sleeps, default=0) > 0.04 + 1e-12:
            viols.append(("poll_sleep_exceeds_40ms", ctx))
    exits = {pr["exit_at"] for pr in procs}
    acc.case(case, len(exits) >= 2, viols)


def wait_procs_cases(tier):
    out = []
    base = [0.0, 0.013, 0.2, 0.45, None]
    for n in (1, 2, 3, 4):
        for times in itertools.permutations(base, n) if n <= 3 else itertools.permutations(base[:4] + [0.9], 4):
            for timeout in (None, 0, 0.3, 1.5):
                if timeout is None and None in times:
                    continue
                procs = [dict(pid=70 + i, kind=("child" if i % 2 == 0 else "nonchild"), exit_at=x, status=((i + 1) << 8) if i != 2 else 15)
                         for i, x in enumerate(times)]
                out.append(dict(procs=procs, timeout=timeout, callback=True))
                if n <= 3:
                    out.append(dict(procs=procs, timeout=timeout, callback=True, prewait=[0, n - 1]))
                    out.append(dict(procs=procs, timeout=timeout, callback=True, prewait=[0, n - 1], reuse=True))
                    out.append(dict(procs=procs, timeout=timeout, callback=True, reuse=True))
                    for exn in ("psutil.TimeoutExpired", "subprocess.TimeoutExpired", "NoSuchProcess", "ValueError"):
                        out.append(dict(procs=procs, timeout=timeout, callback=True, cb_raises=exn))
                if n <= 2:
                    for how in ("same", "equal"):
                        out.append(dict(procs=procs, timeout=timeout, callback=True, dups=[[0, how]]))
                        out.append(dict(procs=procs, timeout=timeout, callback=True, dups=[[n - 1, how], [0, "same"]]))
    return out


def gen_wait_procs_case(rng):
    n = rng.randrange(1, 7)
    timeout = rng.choice([None, 0, 0.05, 0.5, 2.0, rng.random() * 3])
    procs = []
    for i in range(n):
        x = rng.choice([0.0, rng.random() * 3, rng.random() * 0.2, None if timeout is not None else 0.1])
        procs.append(dict(pid=70 + i, kind=rng.choice(["child", "nonchild"]), exit_at=x,
                          status=rng.choice([rng.randrange(256) << 8, rng.randrange(1, 32)])))
    case = dict(procs=procs, timeout=timeout, callback=rng.random() < 0.8)
    if rng.random() < 0.2:
        case["wall_steps"] = [[rng.random() * ((timeout or 1.0) + 0.2), rng.choice([-3600.0, -3.0, 3.0, 3600.0])]]
    if rng.random() < 0.3:
        case["form"] = rng.choice(["tuple", "generator", "iterator", "filter", "dict_keys"])
    if case["callback"] and rng.random() < 0.12:
        case["cb_raises"] = rng.choice(["psutil.TimeoutExpired", "subprocess.TimeoutExpired", "NoSuchProcess", "ValueError", "KeyError"])
    if rng.random() < 0.15:
        case["reuse"] = True
    if rng.random() < 0.3:
        case["prewait"] = sorted({rng.randrange(n) for _ in range(rng.randrange(1, 4))})
    if rng.random() < 0.3:
        case["dups"] = [[rng.randrange(n), rng.choice(["same", "equal"])] for _ in range(rng.randrange(1, 4))]
    return case


# ---- live children -------------------------------------------------------------------------------------

def run_live(acc, tier):
    ps = setup()["ps"]
    ps.PROCFS_PATH = "/proc"
    try:
        _run_live(acc, tier, ps)
        run_live_popen(acc, ps)
        run_live_blocked_wait(acc, ps)
    finally:
        ps.PROCFS_PATH = "/vproc"


def _run_live(acc, tier, ps):
    cases = [("exit", c) for c in ([0, 1, 2, 77, 127, 128, 255] if tier == "quick" else range(256))]
    cases += [("sig", s) for s in ([signal.SIGTERM, signal.SIGKILL, signal.SIGINT, signal.SIGUSR1, signal.SIGSEGV] if tier == "quick"
                                   else [s for s in signal.Signals if s not in (signal.SIGSTOP, signal.SIGTSTP, signal.SIGTTIN, signal.SIGTTOU,
                                                                                 signal.SIGCONT, signal.SIGCHLD, signal.SIGURG, signal.SIGWINCH)])]
    for kind, v in cases:
        if kind == "exit":
            sp = subprocess.Popen([sys.executable, "-c", f"import os; os._exit({v})"])
            want = v
        else:
            # the child says when its interpreter is up: a signal that lands during start-up (site import, handler
            # installation) can be swallowed there, which is the child's business and not wait()'s
            # (and it takes the default action: a check started in the background of a non-interactive shell inherits
            # SIGINT/SIGQUIT as ignored, which its children would otherwise keep)
            sp = subprocess.Popen([sys.executable, "-c", "import signal, sys, time\n"
                                   f"try: signal.signal({int(v)}, signal.SIG_DFL)\n"
                                   "except (OSError, ValueError): pass\n"
                                   "print('up', flush=True); time.sleep(120)"], stdout=subprocess.PIPE)
            sp.stdout.readline()
            want = -int(v)
        viols = []
        try:
            p = ps.Process(sp.pid)
            if kind == "sig":
                os.kill(sp.pid, v)
            got = p.wait(timeout=90)
            acc.count("live_children_checked")
            if got != want:
                viols.append(("live_wrong_exit_value", f"{kind} {v}: got {got!r} want {want}"))
            if p.wait() != got:
                viols.append(("live_later_wait_differs", f"{kind} {v}"))
        except Exception as e:  # noqa: BLE001
            viols.append((f"live_exception:{type(e).__name__}", f"{kind} {v}: {e!r}"))
        finally:
            try:
                sp.kill()
            except OSError:
                pass
            try:
                sp.wait(timeout=5)
            except Exception:  # noqa: BLE001
                pass
            if sp.stdout is not None:
                sp.stdout.close()
        acc.case(dict(live=kind, value=int(v)), True, viols)


class _WatchedLock:
    def __init__(self, real):
        self._real = real
        self.waiting = False

    def acquire(self, *a, **k):
        if self._real.acquire(False):
            return True
        self.waiting = True
        try:
            return self._real.acquire(*a, **k)
        finally:
            self.waiting = False

    def release(self):
        return self._real.release()

    def __enter__(self):
        self.acquire()
        return self

    def __exit__(self, *a):
        self.release()


def run_live_blocked_wait(acc, ps):
    """A deadline cannot be honoured by a call that queues up behind another thread: while thread A sits in a oneshot()
    block (or in a blocking wait()) of the same object, thread B's wait(0) / wait(0.05) must come back with TimeoutExpired -
    B being *seen waiting for the object's lock* is the violation (no wall-clock verdict)."""
    import threading
    import time
    envp = {k: v for k, v in os.environ.items() if k != "LD_PRELOAD"}
    for holder in ("oneshot", "blocking_wait"):
        for tmo in (0, 0.05):
            sp = subprocess.Popen([sys.executable, "-S", "-c", "import time; time.sleep(600)"], env=envp)
            viols = []
            try:
                p = ps.Process(sp.pid)
                lock = _WatchedLock(p._lock)
                p._lock = lock
                inside, leave = threading.Event(), threading.Event()
                out = {}

                def a():
                    if holder == "oneshot":
                        with p.oneshot():
                            p.name()
                            inside.set()
                            leave.wait(60)
                    else:
                        inside.set()
                        try:
                            p.wait(60)
                        except Exception:  # noqa: BLE001
                            pass

                def b():
                    try:
                        out["res"] = ("ok", p.wait(tmo))
                    except ps.TimeoutExpired:
                        out["res"] = ("TimeoutExpired", None)
                    except Exception as e:  # noqa: BLE001
                        out["res"] = (type(e).__name__, None)
                ta, tb = threading.Thread(target=a, daemon=True), threading.Thread(target=b, daemon=True)
                ta.start()
                inside.wait(30)
                time.sleep(0.05)
                tb.start()
                while tb.is_alive() and not lock.waiting:
                    time.sleep(0.0005)
                blocked = tb.is_alive() and lock.waiting
                acc.count("timeouts_checked")
                acc.count("live_waits_next_to_a_lock_holder")
                if blocked:
                    viols.append(("wait_queued_behind_another_thread:deadline_cannot_be_honoured",
                                  f"wait({tmo}) of a live process waits for the object's lock while another thread is in {holder}"))
                leave.set()
                os.kill(sp.pid, 9)
                tb.join(30)
                ta.join(30)
                if not blocked and out.get("res", ("?",))[0] != "TimeoutExpired":
                    viols.append(("live_wait_on_live_process_no_timeout", f"wait({tmo}) next to {holder}: {out.get('res')}"))
            finally:
                try:
                    sp.kill()
                except OSError:
                    pass
                sp.wait()
            acc.case(dict(live="blocked_wait", holder=holder, timeout=tmo), True, viols)


def run_live_popen(acc, ps):
    """psutil.Popen joins two caches of the exit status (subprocess's returncode and psutil's): whichever half collected the
    status first - wait(), poll(), communicate(), leaving a with-block, wait_procs() - every later wait() gives the same value."""
    import time
    envp = {k: v for k, v in os.environ.items() if k != "LD_PRELOAD"}
    for how in ("wait", "poll", "communicate", "with", "wait_procs", "poll_then_wait_procs"):
        for kind, v in (("exit", 0), ("exit", 1), ("exit", 255), ("sig", int(signal.SIGTERM))):
            want = v if kind == "exit" else -v
            code = f"import os; os._exit({v})" if kind == "exit" else "import time; time.sleep(60)"
            viols = []
            p = ps.Popen([sys.executable, "-S", "-c", code], env=envp, stdout=subprocess.DEVNULL)
            try:
                if kind == "sig":
                    time.sleep(0.05)
                    os.kill(p.pid, v)
                if how in ("poll", "poll_then_wait_procs"):
                    t0 = time.time()
                    while p.poll() is None and time.time() - t0 < 30:
                        time.sleep(0.01)
                elif how == "communicate":
                    p.communicate(timeout=30)
                elif how == "with":
                    with p:
                        pass
                if how in ("wait_procs", "poll_then_wait_procs"):
                    gone, alive = ps.wait_procs([p], timeout=30)
                    if [x.pid for x in gone] != [p.pid] or alive:
                        viols.append(("live_popen_wait_procs_wrong", f"{how} {kind} {v}: gone={gone} alive={alive}"))
                    elif getattr(gone[0], "returncode", "unset") != want:
                        viols.append(("live_popen_wrong_returncode", f"{how} {kind} {v}: wait_procs set returncode "
                                                                     f"{getattr(gone[0], 'returncode', 'unset')!r} want {want}"))
                got = [p.wait(timeout=30) for _ in range(3)]
                acc.count("live_children_checked")
                acc.count("live_popen_sequences_checked")
                if got != [want] * 3:
                    viols.append(("live_popen_wait_value_wrong", f"status collected through {how}, child {kind} {v}: wait() x3 -> {got} want {want}"))
                if p.returncode != want:
                    viols.append(("live_popen_wrong_returncode", f"{how} {kind} {v}: returncode {p.returncode!r} want {want}"))
                # "a negative timeout raises ValueError" - also once the status is known
                for bad in (-1, -0.001):
                    try:
                        rb = p.wait(bad)
                        viols.append(("negative_timeout_accepted:popen_after_exit", f"Popen.wait({bad}) -> {rb!r} after the status was collected through {how}"))
                        break
                    except ValueError:
                        acc.count("negative_timeouts_after_cached_result")
                    except Exception as e:  # noqa: BLE001
                        viols.append((f"negative_timeout_wrong_exception:{type(e).__name__}", f"Popen.wait({bad})"))
                        break
            except Exception as e:  # noqa: BLE001
                viols.append((f"live_exception:{type(e).__name__}", f"Popen {how} {kind} {v}: {e!r}"))
            finally:
                try:
                    p.kill()
                except Exception:  # noqa: BLE001
                    pass
            acc.case(dict(live="popen", how=how, kind=kind, value=v), True, viols)


def plan(tier, seed):
    shards = [dict(kind="grid"), dict(kind="wp_enum"), dict(kind="live", tier=tier)]
    n = 30000 if tier == "quick" else 1500000
    for s, c in harness.split_range(n, 10 if tier == "quick" else 40):
        shards.append(dict(kind="rand", seed=seed, start=s, count=c))
    return shards


def run_ticking_clock_case(case, acc):
    """A clock that moves a little at every *reading* (as a real one does between two calls): for a process that stays alive,
    wait(timeout) ends in TimeoutExpired(seconds=timeout, pid) - never before the deadline, never in another exception -
    wherever the deadline falls between two readings."""
    env = setup()
    ps = env["ps"]
    tick, timeout, kind = case["tick"], case["timeout"], case["kind"]
    w = World([dict(pid=PID, kind=kind, exit_at=None, status=0)])
    viols = []
    with w:
        now0 = env["pp"].wait_pid.__defaults__[3]

        def ticking():
            w.clock.advance(tick)
            return now0()
        d = list(env["pp"].wait_pid.__defaults__)
        d[3] = ticking
        env["pp"].wait_pid.__defaults__ = tuple(d)
        p = ps.Process(PID)
        start = w.clock.t
        try:
            r = p.wait(timeout)
            viols.append(("wait_returned_for_live_process:ticking_clock", f"case={case} -> {r!r}"))
        except ps.TimeoutExpired as e:
            acc.count("ticking_clock_timeouts_checked")
            if e.seconds != timeout or e.pid != PID:
                viols.append(("timeout_wrong_fields", f"case={case} seconds={e.seconds} pid={e.pid}"))
            if w.clock.t < start + timeout - 1e-12:
                viols.append(("timeout_before_deadline", f"case={case} raised at +{w.clock.t - start:.6f}"))
        except Exception as e:  # noqa: BLE001
            viols.append((f"wait_exception:{type(e).__name__}:ticking_clock", f"case={case} raised {e!r}"))
    acc.case(dict(case, ticking=True), True, viols)


def ticking_cases():
    out = []
    for tick in (1e-4, 3.3e-4, 1e-3):
        for i in range(1, 700):
            out.append(dict(tick=tick, timeout=round(i * 0.00031, 6), kind="child" if i % 2 else "nonchild"))
    return out


def run_shard(shard):
    acc = harness.Acc(max_samples=2)
    setup()
    k = shard["kind"]
    if k == "grid":
        cases = grid_cases("quick")
        for c in cases:
            run_wait_case(c, acc)
        for c in ticking_cases():
            run_ticking_clock_case(c, acc)
        acc.count("grid_placements", len(cases))
        acc.exhaustive = True
    elif k == "wp_enum":
        for c in wait_procs_cases("quick"):
            run_wait_procs_case(c, acc)
        acc.exhaustive = True
    elif k == "live":
        run_live(acc, shard.get("tier", "quick"))
    elif k == "rand":
        for i in range(shard["start"], shard["start"] + shard["count"]):
            rng = harness.rng_for(shard["seed"], "c15", i)
            if i % 4 == 3:
                run_wait_procs_case(gen_wait_procs_case(rng), acc)
            else:
                run_wait_case(gen_wait_case(rng), acc)
    elif k == "cases":
        for c in shard["cases"]:
            if c.get("ticking"):
                run_ticking_clock_case(c, acc)
            elif "procs" in c:
                run_wait_procs_case(c, acc)
            elif "live" in c:
                run_live(acc, "quick")
            else:
                run_wait_case(c, acc)
    return acc.result()
