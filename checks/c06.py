"""C06 - per-process kernel facts are exact, whatever bytes the process name contains.

Workload: generated kernel-formatted stat/status/task records served by the vkernel ProcTable.
Oracle: the numbers the record was rendered from (never a re-parse of the text).
"""
import glob
import itertools
import os

from vlib import harness

ID = "C06"
LEVEL = "exploration"
TECHNIQUE = ("runtime monitor: generated kernel stat/status/task records under the real parsers, ground-truth oracle; live kernel: "
             "real children renamed through prctl() to hostile names, with named threads, vs an independent reading of /proc")
RULE = ("one case = one simulated process (1-8 threads) with generated comm bytes, state letter, counters, "
        "tty number, record length; every getter of the statement is compared with the generator's numbers. "
        "non-trivial = comm or a thread name contains ')' '(' space, newline, tab, backslash or a non-UTF-8 "
        "byte, or is 15 bytes long, or a counter >= 2**32, or the record is truncated; distinct by case hash")
ASSUMPTIONS = [
    "stat/status/task formats transcribed from fs/proc/array.c and compared with the live 6.18 kernel",
    "status Name: escaping is the kernel's (newline and backslash only)",
    "records are never truncated below the 'processor' field (psutil has always required it)",
    "cmdline is empty, or the name is shorter than 15 bytes, so the name-extension rule of C12 is inert",
    "/dev is a simulated inventory: consoles and serial lines with the kernel's device numbers (4:n, 5:n), serial lines that are plugged in after the device map was first built (188:n, 166:n, 204:n), and /dev/pts (regular files reported as character devices 136:n, n up to 2^20-1); tty_nr uses the kernel's new_encode_dev() encoding, which equals glibc's makedev() for these numbers",
    "unknown state letters: only 'no exception' is asserted (statement maps documented letters only)",
]
REQUIRED_COUNTERS = ["getter_comparisons", "thread_rows_compared"]

NASTY = [b" ", b"(", b")", b"\n", b"\t", b"\\", b"\xff", b"\xc3"]
NASTY_RANDOM_EXTRA = [b"\r", b"\x0b", b"\x0c", b"\x85", b":"]
SPECIAL_COMMS = [
    b"", b")", b"(", b"))", b"((", b") (", b"a) R 1 (b", b") S 0 0 0", b"x) Z 7 7 7 7",
    b"Uid:\t0\t0\t0", b"Gid:\t0\t0\t0", b"Threads:\t9", b"\nUid:\t0\t0\t0", b"Tgid:\t1",
    b"PPid:\t1", b"a\nb", b"\\n", b"a\\", b"\xe2\x82\xac\xe2\x82\xac\xe2\x82\xac\xe2\x82\xac\xe2\x82\xac",
    b"123456789012345", b"1234567890123 )", b") ) ) ) ) ) ) )", b"(((((((((((((((", b"\xff" * 15,
    b"  ", b" x", b"x ", b"0 0 0 0 0 0", b"kworker/0:1-eve", b"(sd-pam)", b"Web Content", b"a b) c",
]
# bytes that some line-splitting routines treat as line boundaries (the kernel escapes only \n and \\ in Name:)
for _sep in (b"\r", b"\x0b", b"\x0c", b"\x1c", b"\x1d", b"\x1e", b"\x85", b"\r\r"):
    SPECIAL_COMMS += [b"x" + _sep + b"Uid:\t7\t7\t7", _sep + b"Gid:\t8\t8\t8", _sep + b"Threads:\t99", b"a" + _sep + b"b"]
SPECIAL_COMMS = [c[:15] for c in SPECIAL_COMMS]
STATES = ["R", "S", "D", "T", "t", "X", "Z", "P", "I", "K", "W", "x"]
UNKNOWN_STATES = ["?", "Q", "N"]
MAGS = [0, 1, 99, 100, 2**31 - 1, 2**31 + 1, 2**32 - 1, 2**32 + 1, 2**63 - 1, 2**63 + 1, 2**64 - 1]

# letter -> documented constant string (transcribed from docs/index.rst "Process status constants"
# and the Linux column of the implementation notes; *not* imported from the module under test)
DOC_STATUS = {
    "R": "running", "S": "sleeping", "D": "disk-sleep", "T": "stopped", "t": "tracing-stop",
    "Z": "zombie", "X": "dead", "x": "dead", "K": "wake-kill", "W": "waking", "I": "idle", "P": "parked",
}


def _b(s):
    return s.encode("latin-1")


def _s(b):
    return b.decode("latin-1")


def gen_comm(rng):
    r = rng.random()
    if r < 0.25:
        return rng.choice(SPECIAL_COMMS)
    n = rng.choice([0, 1, 2, 3, 5, 8, 14, 15, 15])
    alphabet = NASTY * 3 + NASTY_RANDOM_EXTRA + [bytes([c]) for c in b"abz019"] + [bytes([rng.randrange(0x80, 0x100)])]
    return b"".join(rng.choice(alphabet) for _ in range(n))[:15]


def gen_mag(rng):
    r = rng.random()
    if r < 0.5:
        return rng.choice(MAGS)
    if r < 0.8:
        return rng.randrange(0, 10**6)
    return rng.randrange(0, 2**64)


FAKE_PTS = [0, 1, 5, 255, 256, 257, 300, 511, 512, 4095, 4096, 65535, 65536, 1048575]


def tty_numbers():
    """Device inventory psutil will see: the real /dev/tty* plus a generated /dev/pts with large minors
    (st_rdev = makedev(136, n), which is also how the kernel encodes tty_nr in /proc/<pid>/stat)."""
    out = []
    for name, rdev in BASE_TTYS.items():
        out.append((rdev, f"/dev/{name}"))
    for n in FAKE_PTS:
        out.append((os.makedev(136, n), f"/dev/pts/{n}"))
    return out


# the simulated /dev: consoles and serial lines that are there since boot, and lines that are plugged in later
BASE_TTYS = {"tty": os.makedev(5, 0), "tty0": os.makedev(4, 0), "tty1": os.makedev(4, 1), "tty2": os.makedev(4, 2),
             "tty63": os.makedev(4, 63), "ttyS0": os.makedev(4, 64), "ttyS1": os.makedev(4, 65), "ttyprintk": os.makedev(5, 3)}
LATE_TTYS = {"ttyUSB0": os.makedev(188, 0), "ttyUSB17": os.makedev(188, 17), "ttyACM0": os.makedev(166, 0),
             "ttyS31": os.makedev(4, 95), "ttyAMA0": os.makedev(204, 64), "tty7": os.makedev(4, 7)}


def fake_dev_dir():
    import tempfile
    d = tempfile.mkdtemp(prefix="c06_dev_")
    for name in list(BASE_TTYS) + ["console", "null", "ptmx", "vcs1"]:
        with open(os.path.join(d, name), "w"):
            pass
    os.mkdir(os.path.join(d, "pts"))
    import atexit
    import shutil
    atexit.register(shutil.rmtree, d, True)
    return d


def fake_pts_dir():
    import tempfile
    d = tempfile.mkdtemp(prefix="c06_pts_")
    for n in FAKE_PTS:
        with open(os.path.join(d, str(n)), "w"):
            pass
    import atexit
    import shutil
    atexit.register(shutil.rmtree, d, True)
    return d


def gen_case(rng, ttys):
    nthreads = rng.choice([1, 1, 2, 3, 8])
    case = dict(
        pid=rng.choice([7, 50, 4194303, 123456]),
        comm=_s(gen_comm(rng)),
        state=rng.choice(STATES * 4 + UNKNOWN_STATES),
        ppid=rng.choice([0, 1, 2, 4194303, rng.randrange(0, 2**22)]),
        utime=gen_mag(rng), stime=gen_mag(rng), cutime=gen_mag(rng), cstime=gen_mag(rng),
        blkio=gen_mag(rng), start=gen_mag(rng),
        processor=rng.choice([0, 1, 63, 255, 4095]),
        tty_nr=(rng.choice(ttys)[0] if ttys and rng.random() < 0.5 else rng.choice([0, 1, 34816, 2**31 - 1, 1025])),
        uids=[gen_mag(rng) % 2**32 for _ in range(4)],
        gids=[gen_mag(rng) % 2**32 for _ in range(4)],
        vctx=gen_mag(rng), nvctx=gen_mag(rng),
        nfields=rng.choice([52] * 6 + [39, 40, 41, 42, 44, 47, 51]),
        threads=[],
    )
    if rng.random() < 0.05:
        # a pseudo-terminal allocated after psutil built its (memoized) device map: the process sits on it
        n_late = rng.choice(FAKE_PTS)
        case["pty_late"] = n_late
        case["tty_nr"] = os.makedev(136, n_late)
    elif rng.random() < 0.04:
        # a serial line plugged in (a USB adapter, a late driver) after the device map was built: the process sits on it
        case["tty_late"] = rng.choice(sorted(LATE_TTYS))
        case["tty_nr"] = LATE_TTYS[case["tty_late"]]
    elif rng.random() < 0.04:
        # a pseudo-terminal closed while the (memoized) device map is being built: listed by the directory scan, gone at stat()
        case["pty_vanish"] = rng.choice(FAKE_PTS)
    comm_b = _b(case["comm"])
    if 0 < len(comm_b) < 15 and b"\0" not in comm_b and rng.random() < 0.35:
        # a name the kernel did NOT truncate must be reported as is, whatever argv[0] looks like (the 15-byte
        # completion rule of C12 does not apply)
        tail = rng.choice([b"", b"3", b"3.12", b":", b"-pool-manager", b" helper"])
        case["cmdline"] = _s(rng.choice([b"", b"/usr/bin/", b"/opt/x y/"]) + comm_b + tail + b"\0--flag\0")
    if nthreads == 1 and rng.random() < 0.5:
        # single-threaded *now*: the process totals also hold the CPU time of threads that have exited, the record of the one
        # remaining thread does not
        case["threads"].append(dict(tid=case["pid"], comm=case["comm"], utime=case["utime"] // 3, stime=case["stime"] // 2))
    if nthreads > 1:
        base = case["pid"]
        for i in range(nthreads):
            case["threads"].append(dict(tid=base + i * 3, comm=_s(gen_comm(rng)), utime=gen_mag(rng),
                                        stime=gen_mag(rng)))
        if nthreads > 2 and rng.random() < 0.25:
            # a thread that exits between the listing of task/ and the opening of its record (never the first, rarely the last)
            case["threads"][rng.randrange(1, nthreads - 1) if rng.random() < 0.8 else nthreads - 1]["gone"] = True
    return case


def exhaustive_cases():
    out = []
    for n in (0, 1, 2):
        for tup in itertools.product(NASTY, repeat=n):
            comm = b"".join(tup)
            out.append(dict(pid=50, comm=_s(comm), state="S", ppid=1, utime=11, stime=22, cutime=33,
                            cstime=44, blkio=55, start=6600, processor=3, tty_nr=0, uids=[1, 2, 3, 4],
                            gids=[5, 6, 7, 8], vctx=9, nvctx=10, nfields=52,
                            threads=[dict(tid=50, comm=_s(comm), utime=11, stime=22),
                                     dict(tid=53, comm=_s(comm[::-1] + b"x"), utime=77, stime=88)]))
    for comm in SPECIAL_COMMS:
        for st in STATES:
            out.append(dict(pid=50, comm=_s(comm), state=st, ppid=1, utime=11, stime=22, cutime=33,
                            cstime=44, blkio=55, start=6600, processor=3, tty_nr=0, uids=[1, 2, 3, 4],
                            gids=[5, 6, 7, 8], vctx=9, nvctx=10, nfields=52,
                            threads=[dict(tid=50, comm=_s(comm), utime=11, stime=22),
                                     dict(tid=51, comm=_s(comm), utime=5, stime=6)]))
    return out


def nontrivial(case):
    names = [_b(case["comm"])] + [_b(t["comm"]) for t in case["threads"]]
    for n in names:
        if len(n) == 15 or any(c in n for c in b" ()\n\t\\") or any(c >= 0x80 for c in n):
            return True
    if case["nfields"] < 52:
        return True
    return any(case[k] >= 2**32 for k in ("utime", "stime", "cutime", "cstime", "blkio", "start", "vctx", "nvctx"))


_env = {}


def setup():
    if _env:
        return _env
    from vlib import psu, vkernel
    from vlib.proctable import ProcTable
    ps = psu.load()
    _env.update(ps=ps, vkernel=vkernel, ProcTable=ProcTable, ttys=tty_numbers(), pts_dir=fake_pts_dir(), dev_dir=fake_dev_dir(),
                clk=os.sysconf("SC_CLK_TCK"))
    ps.PROCFS_PATH = "/vproc"
    return _env


def run_case(case, acc):
    """One case under one tick rate: "clock ticks divided by the system tick rate" - this host says 100, other machines
    say 250, 1000 or 1024 (psutil reads sysconf(SC_CLK_TCK) once, into _pslinux.CLOCK_TICKS)."""
    env = setup()
    ps = env["ps"]
    clk = (env["clk"], env["clk"], 250, 1000, 1024, 60)[int(harness.chash(case)[-4:], 16) % 6]
    old = ps._pslinux.CLOCK_TICKS
    ps._pslinux.CLOCK_TICKS = clk
    if clk != env["clk"]:
        acc.count("cases_under_another_tick_rate")
    try:
        _run_case(case, acc, clk)
    finally:
        ps._pslinux.CLOCK_TICKS = old


def _run_case(case, acc, clk):
    env = setup()
    ps, vkernel, ProcTable = env["ps"], env["vkernel"], env["ProcTable"]
    from vlib.proctable import Thread
    t = ProcTable(btime=1_700_000_000)
    t.spawn(1, 1, ppid=0, comm=b"init")
    comm = _b(case["comm"])
    p = t.spawn(case["pid"], case["start"], ppid=case["ppid"], comm=comm)
    p.state = case["state"]
    p.cmdline = _b(case.get("cmdline", ""))
    for k in ("utime", "stime", "cutime", "cstime", "blkio", "processor", "tty_nr", "vctx", "nvctx"):
        setattr(p, k, case[k])
    p.uids = tuple(case["uids"])
    p.gids = tuple(case["gids"])
    p.stat_nfields = case["nfields"]
    if case["threads"]:
        p.threads = [Thread(th["tid"], _b(th["comm"]), th["utime"], th["stime"], case["state"]) for th in case["threads"]]
        for thobj, th in zip(p.threads, case["threads"]):
            if th.get("gone"):
                thobj.gone = True
        # main thread carries the process-wide comm in task/<pid>/stat
        p.threads[0].comm = comm
    if harness.chash(case)[-1] in "01":
        t.fake_getpid = case["pid"]        # one case in eight: the process inspects itself (os.getpid() answers its pid)
        acc.count("cases_where_the_process_inspects_itself")
    vk = vkernel.VK()
    vk.table = t
    vk.mount("/vproc", t)
    vk.redirect("/dev", env["dev_dir"])
    vk.redirect("/dev/pts", env["pts_dir"])
    vk.rdev = {f"/dev/pts/{n}": os.makedev(136, n) for n in FAKE_PTS}
    vk.rdev.update({f"/dev/{n}": r for n, r in list(BASE_TTYS.items()) + list(LATE_TTYS.items())})
    viols = []
    ttymap = dict(env["ttys"])
    # lines plugged in during an earlier case are unplugged again: a machine starts without them
    for n in LATE_TTYS:
        lp = os.path.join(env["dev_dir"], n)
        if os.path.exists(lp):
            os.unlink(lp)
            _tm = getattr(ps._psposix, "get_terminal_map", None)
            if hasattr(_tm, "cache_clear"):
                _tm.cache_clear()
    victim = case.get("pty_vanish")
    tmap_fn = getattr(ps._psposix, "get_terminal_map", None)
    if victim is not None and tmap_fn is not None and hasattr(tmap_fn, "cache_clear"):
        tmap_fn.cache_clear()
        vpath = f"/dev/pts/{victim}"
        vk.rules.append(lambda kind, path: FileNotFoundError(2, "No such file or directory", path)
                        if kind in ("stat", "lstat") and path == vpath else None)
        ttymap.pop(os.makedev(136, victim), None)
        acc.count("terminal_map_built_with_vanishing_pty")
    else:
        victim = None
    late = case.get("pty_late")
    if late is not None and tmap_fn is not None and hasattr(tmap_fn, "cache_clear") and victim is None:
        # the map is built while /dev/pts/<late> does not exist yet (another terminal() call earlier in the program's life)
        lpath = os.path.join(env["pts_dir"], str(late))
        os.unlink(lpath)
        try:
            tmap_fn.cache_clear()
            with vk:
                tmap_fn()
        finally:
            with open(lpath, "w"):
                pass
        acc.count("terminal_map_built_before_the_pty_existed")

    tty_late = case.get("tty_late")
    if tty_late is not None and tmap_fn is not None and victim is None and late is None:
        # some terminal() call earlier in the program's life built the map; then the line appears
        with vk:
            tmap_fn()
        with open(os.path.join(env["dev_dir"], tty_late), "w"):
            pass
        ttymap[LATE_TTYS[tty_late]] = f"/dev/{tty_late}"
        acc.count("terminal_map_built_before_the_serial_line_existed")

    def cmp(getter, got, want, feature=None):
        acc.count("getter_comparisons")
        if got != want or type(got) is not type(want) and not isinstance(got, type(want)):
            mech = getter + "_wrong"
            if feature:
                mech = f"{getter}_wrong:{feature}"
            viols.append((mech, f"{getter}: got {got!r} want {want!r} comm={comm!r}"))

    def feat_status():
        for key in (b"Uid:", b"Gid:", b"Threads:", b"ctxt_switches:"):
            if key in comm:
                return "status_regex_matches_Name_line"
        return None

    moved = harness.chash(case)[-2] in "0123"
    if moved:
        # psutil.PROCFS_PATH is re-pointed after the object was made: the object belongs to the procfs it was created on
        # (another tree with another process under the same pid is what PROCFS_PATH names from now on)
        tb = ProcTable(btime=1_700_000_000)
        tb.spawn(1, 1, ppid=0, comm=b"init")
        # (same pid and start time, so the identity re-check of ppid() - which looks at the *current* PROCFS_PATH - is satisfied;
        # every other fact differs)
        pb = tb.spawn(case["pid"], case["start"], ppid=1 if case["ppid"] != 1 else 2, comm=b"somebody else")
        pb.uids, pb.gids, pb.vctx, pb.nvctx, pb.state = (9, 9, 9, 9), (8, 8, 8, 8), 1, 2, "Z" if case["state"] != "Z" else "S"
        pb.threads = [Thread(case["pid"], b"somebody else", 1, 1, "S")] + [Thread(999000 + k, b"x", 1, 1, "S") for k in range(3)]
        vk.mount("/vprocB", tb)
        acc.count("cases_with_procfs_path_moved_after_construction")
    with vk:
        try:
            pr = ps.Process(case["pid"])
        except Exception as e:  # noqa: BLE001
            viols.append(("construct_exception", f"Process() raised {e!r} comm={comm!r}"))
            acc.case(case, nontrivial(case), viols)
            return
        if moved:
            ps.PROCFS_PATH = "/vprocB"
        checks = [
            ("name", lambda: pr.name(), os.fsdecode(comm), None),
            ("ppid", lambda: pr.ppid(), case["ppid"], None),
            ("cpu_times", lambda: tuple(pr.cpu_times()),
             (float(case["utime"]) / clk, float(case["stime"]) / clk, float(case["cutime"]) / clk,
              float(case["cstime"]) / clk, (float(case["blkio"]) / clk) if case["nfields"] >= 42 else 0.0), None),
            ("create_time", lambda: pr._proc.create_time(), float(case["start"]) / clk + 1_700_000_000.0, None),
            ("cpu_num", lambda: pr.cpu_num(), case["processor"], None),
            ("terminal", lambda: pr.terminal(), ttymap.get(case["tty_nr"]), "pty_created_after_first_call" if late is not None else
             "serial_line_plugged_in_after_first_call" if tty_late is not None else None),
            ("num_threads", lambda: pr.num_threads(), max(1, len(case["threads"])), feat_status()),
            ("num_ctx_switches", lambda: tuple(pr.num_ctx_switches()), (case["vctx"], case["nvctx"]), feat_status()),
            ("uids", lambda: tuple(pr.uids()), tuple(case["uids"][:3]), feat_status()),
            ("gids", lambda: tuple(pr.gids()), tuple(case["gids"][:3]), feat_status()),
        ]
        if case["state"] in DOC_STATUS:
            checks.append(("status", lambda: pr.status(), DOC_STATUS[case["state"]], None))
        else:
            checks.append(("status", lambda: isinstance(pr.status(), str), True, None))
        plain_bad = set()
        for getter, fn, want, feature in checks:
            try:
                got = fn()
            except Exception as e:  # noqa: BLE001
                viols.append((f"{getter}_exception:{type(e).__name__}", f"{getter} raised {e!r} comm={comm!r}"))
                plain_bad.add(getter)
                continue
            n0 = len(viols)
            cmp(getter, got, want, feature)
            if len(viols) != n0:
                plain_bad.add(getter)
        # the parent exits and the process is handed to another one: the same object, asked again, says what the kernel says now
        if "ppid" not in plain_bad:
            new_pp = 1 if case["ppid"] != 1 else 2
            p.ppid = new_pp
            try:
                got = pr.ppid()
                acc.count("ppid_asked_again_after_reparenting")
                if got != new_pp:
                    viols.append(("ppid_wrong:after_reparenting", f"ppid() -> {got!r} after the kernel started to publish {new_pp} (was {case['ppid']})"))
            except Exception as e:  # noqa: BLE001
                viols.append((f"ppid_exception:{type(e).__name__}:after_reparenting", repr(e)))
            p.ppid = case["ppid"]
        # the same record read through the other two call paths: inside a oneshot() block (shared cached parse, getters
        # in the opposite order so a different one fills the cache) and through as_dict()
        with pr.oneshot():
            try:
                pr.cpu_percent()        # reaches the platform's cpu_times() on the cached record before anybody else does
            except Exception:  # noqa: BLE001
                pass
            for getter, fn, want, feature in reversed(checks):
                if getter in plain_bad:
                    continue
                acc.count("getter_comparisons_in_oneshot")
                try:
                    got = fn()
                except Exception as e:  # noqa: BLE001
                    viols.append((f"{getter}_exception:{type(e).__name__}:in_oneshot_block", f"{getter} raised {e!r} comm={comm!r}"))
                    continue
                if got != want:
                    viols.append((f"{getter}_wrong:in_oneshot_block", f"{getter}: got {got!r} want {want!r} comm={comm!r}"))
        names = [g for g, _f, _w, _x in checks if g not in plain_bad and g != "create_time"]
        if case["state"] not in DOC_STATUS and "status" in names:
            names.remove("status")
        try:
            d = pr.as_dict(attrs=names)
        except Exception as e:  # noqa: BLE001
            viols.append((f"as_dict_exception:{type(e).__name__}", f"as_dict({names}) raised {e!r} comm={comm!r}"))
        else:
            for getter, _fn, want, _x in checks:
                if getter in names:
                    acc.count("getter_comparisons_via_as_dict")
                    got = d.get(getter)
                    got = tuple(got) if isinstance(got, tuple) else got
                    if got != want:
                        viols.append((f"{getter}_wrong:via_as_dict", f"{getter}: got {got!r} want {want!r} comm={comm!r}"))
        # threads
        try:
            got = pr.threads()
        except Exception as e:  # noqa: BLE001
            viols.append((f"threads_exception:{type(e).__name__}", f"threads raised {e!r} comm={comm!r}"))
        else:
            ths = case["threads"] or [dict(tid=case["pid"], comm=case["comm"], utime=case["utime"], stime=case["stime"])]
            want = {th["tid"]: (float(th["utime"]) / clk, float(th["stime"]) / clk) for th in ths if not th.get("gone")}
            if any(th.get("gone") for th in ths):
                acc.count("thread_lists_with_a_vanished_thread")
            gotd = {}
            dup = False
            for row in got:
                if row.id in gotd:
                    dup = True
                gotd[row.id] = (row.user_time, row.system_time)
            acc.count("thread_rows_compared", len(got))
            if dup or gotd != want:
                names = [comm] + [_b(th["comm"]) for th in ths[1:]] if case["threads"] else [comm]
                feature = "rparen_in_thread_name" if any(b")" in n for n in names) else "other"
                if any(th.get("gone") for th in ths):
                    feature = "thread_vanished_after_listing"
                viols.append((f"threads_wrong:{feature}", f"threads: got {gotd!r} want {want!r} names={names!r}"))
            elif not any(th.get("gone") for th in ths):
                # the per-thread records through the other call paths (block primed with the process record first)
                alt = {}
                try:
                    with pr.oneshot():
                        pr.cpu_times(), pr.name()
                        alt["in_oneshot_block"] = {r_.id: (r_.user_time, r_.system_time) for r_ in pr.threads()}
                    alt["via_as_dict"] = {r_.id: (r_.user_time, r_.system_time)
                                          for r_ in pr.as_dict(attrs=["cpu_times", "threads", "name"])["threads"]}
                except Exception as e:  # noqa: BLE001
                    viols.append((f"threads_exception:{type(e).__name__}:other_call_path", f"{e!r} comm={comm!r}"))
                for how, g2 in alt.items():
                    acc.count("thread_lists_compared_via_other_call_paths")
                    if g2 != want:
                        viols.append((f"threads_wrong:{how}", f"threads {how}: got {g2!r} want {want!r} (process totals "
                                      f"{case['utime']}/{case['stime']} ticks)"))
    if victim is not None or late is not None:
        tmap_fn.cache_clear()          # the next case builds the full map again
    if moved:
        ps.PROCFS_PATH = "/vproc"
        viols = [(m + ":procfs_path_moved_after_construction", d) for m, d in viols]
    acc.case(case, nontrivial(case), viols)


# ---- live kernel: real children with hostile names (prctl) and named threads ---------------------------------------

LIVE_CHILD = r"""
import ctypes, os, sys, threading, time
libc = ctypes.CDLL(None, use_errno=True)
name = bytes.fromhex(sys.argv[1])
libc.prctl(15, ctypes.c_char_p(name), 0, 0, 0)            # PR_SET_NAME: the main thread's comm = the process name
tnames = [bytes.fromhex(x) for x in sys.argv[2:]]
ready = threading.Barrier(len(tnames) + 1)
def th(n):
    with open("/proc/self/task/%d/comm" % threading.get_native_id(), "wb") as f:
        f.write(n)
    ready.wait()
    x = 0
    t0 = time.time()
    while time.time() - t0 < 0.05:
        x += 1
    time.sleep(1000)
for n in tnames:
    threading.Thread(target=th, args=(n,), daemon=True).start()
ready.wait()
print("up", flush=True)
time.sleep(1000)
"""

LIVE_NAMES = [b"plain", b"a) R 1 (b", b"Uid:\t0\t0\t0", b"Threads:\t99", b"x) S 0 0 0 0", b"sp ace", b"(sd-pam)", b"\xff\xfe\xfd",
              b"fifteen_chars_x", b"Gid:\t0\t0\t0\t0", b"nl\nin name", b"Tgid:\t1"]


def run_live(shard, acc):
    import subprocess
    import sys
    ps = setup()["ps"]
    ps.PROCFS_PATH = "/proc"
    envp = {k: v for k, v in os.environ.items() if k != "LD_PRELOAD"}
    clk = os.sysconf("SC_CLK_TCK")
    viols = []
    for n, name in enumerate(LIVE_NAMES):
        tnames = [LIVE_NAMES[(n + 1) % len(LIVE_NAMES)], LIVE_NAMES[(n + 5) % len(LIVE_NAMES)][:15], b"wk) Z 9 (x"]
        child = subprocess.Popen([sys.executable, "-S", "-c", LIVE_CHILD, name.hex()] + [t.hex() for t in tnames], env=envp,
                                 stdout=subprocess.PIPE, stdin=subprocess.DEVNULL)
        try:
            if not child.stdout.readline():
                acc.inconclusive = "live child did not start"
                return
            pid = child.pid
            # independent reading: fields after the LAST ')' of stat; status lines anchored at line start
            with open(f"/proc/{pid}/stat", "rb") as f:
                st = f.read()
            comm = st[st.index(b"(") + 1:st.rindex(b")")]
            fields = st[st.rindex(b")") + 2:].split()
            with open(f"/proc/{pid}/status", "rb") as f:
                status = {}
                for ln in f.read().split(b"\n")[1:]:          # the first line is Name: (may contain anything but a newline)
                    if b":" in ln:
                        k, v = ln.split(b":", 1)
                        status.setdefault(k, v.strip())
            tids = sorted(int(t) for t in os.listdir(f"/proc/{pid}/task"))
            pr = ps.Process(pid)
            want = dict(name=os.fsdecode(comm), ppid=int(fields[1]), num_threads=len(tids),
                        uids=tuple(int(x) for x in status[b"Uid"].split()[:3]), gids=tuple(int(x) for x in status[b"Gid"].split()[:3]),
                        cpu_num=None, terminal=None)
            got = dict(name=pr.name(), ppid=pr.ppid(), num_threads=pr.num_threads(), uids=tuple(pr.uids()), gids=tuple(pr.gids()))
            for k in got:
                acc.count("getter_comparisons")
                acc.count("live_getter_comparisons")
                if k == "name" and len(comm) == 15:
                    continue                    # C12's completion rule may extend a 15-byte name
                if got[k] != want[k]:
                    feat = "status_regex_matches_Name_line" if k in ("uids", "gids", "num_threads") else "live"
                    viols.append((f"{k}_wrong:{feat}", f"live child named {name!r}: {k} got {got[k]!r} want {want[k]!r}"))
            acc.count("getter_comparisons")
            if pr.status() not in (ps.STATUS_SLEEPING, ps.STATUS_RUNNING, ps.STATUS_DISK_SLEEP):
                viols.append(("status_wrong:live", f"{name!r}: {pr.status()!r}"))
            ct = pr.create_time()
            with open("/proc/stat") as f:
                btime = int([ln for ln in f if ln.startswith("btime")][0].split()[1])
            if abs(ct - (btime + int(fields[19]) / clk)) > 1.0:
                viols.append(("create_time_wrong:live", f"{name!r}: {ct} vs {btime + int(fields[19]) / clk}"))
            ths = pr.threads()
            acc.count("thread_rows_compared", len(ths))
            if sorted(t.id for t in ths) != tids:
                viols.append(("threads_wrong:rparen_in_thread_name", f"{name!r}: ids {sorted(t.id for t in ths)} want {tids}"))
            for t in ths:
                with open(f"/proc/{pid}/task/{t.id}/stat", "rb") as f:
                    ts = f.read()
                tf = ts[ts.rindex(b")") + 2:].split()
                if abs(t.user_time - int(tf[11]) / clk) > 0.021 or abs(t.system_time - int(tf[12]) / clk) > 0.021:
                    viols.append(("threads_wrong:rparen_in_thread_name", f"{name!r}: thread {t.id} times ({t.user_time}, {t.system_time}) "
                                                                         f"kernel ({int(tf[11]) / clk}, {int(tf[12]) / clk})"))
            acc.count("live_children_checked")
        finally:
            child.kill()
            child.wait()
            child.stdout.close()
    acc.case(dict(kind="live"), True, viols)


# ---- concurrent callers over a static table: every process's facts must stay its own ---------------------------------

def run_threads_case(case, acc):
    """Four free-running threads (1 us switch interval) query the stat/status-derived facts of *different* simulated
    processes at once; each answer must be what a lone caller gets for that process."""
    import sys
    import threading
    env = setup()
    ps, vkernel, ProcTable = env["ps"], env["vkernel"], env["ProcTable"]
    from vlib.proctable import Thread
    rng = harness.rng_for(case["seed"], "c06t", case["i"])
    t = ProcTable(btime=1_700_000_000)
    t.spawn(1, 1, ppid=0, comm=b"init")
    pids = [50 + 7 * k for k in range(6)]
    for k, pid in enumerate(pids):
        p = t.spawn(pid, 1000 + 97 * k, ppid=1 if k == 0 else pids[k - 1], comm=gen_comm(rng) or b"p%d" % k)
        p.utime, p.stime, p.cutime, p.cstime = 11 * k + 1, 13 * k + 2, k, 2 * k
        p.uids, p.gids = (k, k + 1, k + 2, k + 3), (10 + k, 11 + k, 12 + k, 13 + k)
        p.vctx, p.nvctx, p.processor = 100 + k, 200 + k, k % 4
        p.state = "SRDTSZ"[k] if k < 5 else "S"
        p.threads = [Thread(pid, p.comm, p.utime, p.stime, p.state), Thread(pid + 1, b"w%d" % k, k, k + 1, "S")]
    vk = vkernel.VK()
    vk.table = t
    vk.mount("/vproc", t)
    getters = ("name", "ppid", "status", "cpu_times", "uids", "gids", "num_threads", "num_ctx_switches", "cpu_num", "threads", "create_time")

    def facts(pr, g):
        try:
            v = getattr(pr, g)()
        except Exception as e:  # noqa: BLE001
            return ("exc", type(e).__name__)
        return ("ok", repr(v))
    errors, wrong = [], []
    old = sys.getswitchinterval()
    with vk:
        procs = {pid: ps.Process(pid) for pid in pids}
        base = {(pid, g): facts(procs[pid], g) for pid in pids for g in getters}
        barrier = threading.Barrier(4)

        def worker(i):
            r = harness.rng_for(case["seed"], "c06tw", case["i"], i)
            try:
                barrier.wait()
                for n in range(case["calls"]):
                    pid = pids[(i + n) % len(pids)] if n % 3 else r.choice(pids)
                    g = r.choice(getters)
                    pr = procs[pid] if n % 2 else ps.Process(pid)
                    got = facts(pr, g)
                    acc.count("concurrent_getter_calls_compared")
                    if got != base[(pid, g)]:
                        wrong.append((pid, g, got, base[(pid, g)]))
            except BaseException as e:  # noqa: BLE001
                errors.append((i, e))
        sys.setswitchinterval(1e-6)
        try:
            ths = [threading.Thread(target=worker, args=(i,), daemon=True) for i in range(4)]
            for th in ths:
                th.start()
            for th in ths:
                th.join(120)
        finally:
            sys.setswitchinterval(old)
    viols = [(f"concurrent_exception:{type(e).__name__}", f"thread {i}: {e!r}") for i, e in errors]
    for pid, g, got, want in wrong[:3]:
        viols.append((f"concurrent_result_differs_from_sequential:{g}", f"pid {pid}: {g}() -> {got} while other threads query other processes; "
                                                                        f"alone it answers {want} ({len(wrong)} such answers)"))
    acc.case(dict(kind="threads", seed=case["seed"], i=case["i"], calls=case["calls"]), True, viols)


def plan(tier, seed):
    n = 24000 if tier == "quick" else 1_200_000
    shards = [dict(kind="exh")]
    for s, c in harness.split_range(n, 16 if tier == "quick" else 64):
        shards.append(dict(kind="gen", seed=seed, start=s, count=c))
    shards.append(dict(kind="live"))
    for part in range(2 if tier == "quick" else 8):
        shards.append(dict(kind="threads", seed=seed, part=part, count=10 if tier == "quick" else 150))
    return shards


def run_shard(shard):
    acc = harness.Acc()
    env = setup()
    if shard["kind"] == "exh":
        for case in exhaustive_cases():
            run_case(case, acc)
        acc.count("exhaustive_short_comm_cases", acc.evals)
    elif shard["kind"] == "gen":
        for i in range(shard["start"], shard["start"] + shard["count"]):
            rng = harness.rng_for(shard["seed"], "c06", i)
            run_case(gen_case(rng, env["ttys"]), acc)
    elif shard["kind"] == "live":
        run_live(shard, acc)
    elif shard["kind"] == "threads":
        for i in range(shard["count"]):
            run_threads_case(dict(seed=shard["seed"], i=shard["part"] * 1000 + i, calls=150), acc)
    elif shard["kind"] == "cases":
        for case in shard["cases"]:
            if case.get("kind") == "threads":
                run_threads_case(dict(seed=case["seed"], i=case["i"], calls=case.get("calls", 150)), acc)
            elif case.get("kind") == "live":
                run_live({}, acc)
            else:
                run_case(case, acc)
    return acc.result()
