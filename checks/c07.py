"""C07 - CPU times and CPU percentages are exact shares of elapsed time.

Generated /proc/stat snapshot sequences (1-64 CPUs, 7-10 kernel fields - one interpreter per field
count because the named tuple is fixed per boot; psutil is *imported* over the simulated /proc), calls
from several live threads, blocking forms on a virtual clock, per-process cpu_percent on a virtual timer.
Oracle: exact rational arithmetic on tick integers.
"""
import os
import queue
import threading
from fractions import Fraction

from vlib import harness

ID = "C07"
LEVEL = "exploration"
TECHNIQUE = "runtime monitor: generated /proc/stat tick snapshots + virtual clock, exact-rational oracle; per-thread sample model with live threads"
RULE = ("one case = a sequence of /proc/stat snapshots (per-CPU tick vectors; deltas from {0, 1 tick, sub-second totals, huge}, "
        "randomly decreasing fields) interleaved with cpu_times/cpu_percent/cpu_times_percent calls (percpu or not, blocking on a "
        "virtual clock or not) issued from 1-3 live threads, and Process.cpu_percent calls on a virtual timer. non-trivial = a "
        "compared snapshot pair has total delta in (0, 1 s), or a decreasing field, or >=2 CPUs with different loads, or calls "
        "from >=2 threads interleave; distinct by case hash. Plus one fresh interpreter per order (4! = 24) of the four "
        "percentage forms as *first calls after import* on the importing thread, calls of a second thread woven in: a first call "
        "is measured against the import-time sample or against nothing, never against another function's sample")
ASSUMPTIONS = [
    "a first call of a (thread, function, form) may answer either the share since psutil was imported (importing thread) or all zeros (no previous sample): the statement fixes only 'its own previous sample'",
    "guest time is contained in user time and guest_nice in nice (kernel accounting), so their deltas never exceed the user/nice deltas in generated data; user/nice never decrease in generated data (other fields may)",
    "percentages are compared with psutil's 1-decimal rounding using tolerance 0.05 + 1e-9 against the exact rational value",
    "the non-guest fields of cpu_times_percent must add up to 100 +- 0.05*n_fields whenever the total delta is > 0",
    "number of CPUs is constant within a case (no hot-plug between two samples)",
]
REQUIRED_COUNTERS = ["percent_values_checked", "times_percent_rows_checked", "process_percent_checked"]
FIELDS = ["user", "nice", "system", "idle", "iowait", "irq", "softirq", "steal", "guest", "guest_nice"]
CLK = os.sysconf("SC_CLK_TCK")

_env = {}


class State:
    def __init__(self):
        self.snap = None        # list of per-cpu tick vectors (len nf each)


def render(snap):
    nf = len(snap[0])
    tot = [sum(c[i] for c in snap) for i in range(nf)]
    out = [b"cpu  " + " ".join(map(str, tot)).encode() + b"\n"]
    for i, c in enumerate(snap):
        out.append(b"cpu%d " % i + " ".join(map(str, c)).encode() + b"\n")
    out.append(b"intr 1 2 3\nctxt 10\nbtime 1700000000\nprocesses 5\nsoftirq 9 1 2\n")
    return b"".join(out)


def setup(nf):
    if _env:
        assert _env["nf"] == nf, "one interpreter per field count"
        return _env
    from vlib import psu, vkernel
    from vlib.proctable import ProcTable
    st = State()
    st.snap = [[100 + i for i in range(nf)]]
    t = ProcTable()
    t.cpu_lines = lambda: render(st.snap)[:render(st.snap).index(b"intr")]
    t.spawn(1, 1, ppid=0, comm=b"init")
    vk = vkernel.VK()
    vk.table = t
    vk.mount("/proc", t)
    clock = vkernel.VClock(1000.0)
    vk.clock = clock
    ps = psu.load(pre_vk=vk)           # import psutil over the simulated /proc (N-field kernel)
    _env.update(ps=ps, vk=vk, t=t, st=st, nf=nf, clock=clock, vkernel=vkernel, import_snap=[list(c) for c in st.snap])
    # live worker threads (thread idents must stay distinct for the whole shard)
    _env["threads"] = [Caller() for _ in range(2)]
    return _env


class Caller:
    """A live thread executing callables on request."""

    def __init__(self):
        self.q = queue.Queue()
        self.r = queue.Queue()
        self.th = threading.Thread(target=self._loop, daemon=True)
        self.th.start()

    def _loop(self):
        while True:
            fn = self.q.get()
            try:
                self.r.put(("ok", fn()))
            except BaseException as e:  # noqa: BLE001
                self.r.put(("exc", e))

    def call(self, fn):
        self.q.put(fn)
        return self.r.get(timeout=60)


# ---- oracle ---------------------------------------------------------------------------------------

def deltas(a, b):
    return [max(0, y - x) for x, y in zip(a, b)]


def tot_busy(d):
    nf = len(d)
    tot = sum(d)
    if nf >= 9:
        tot -= d[8]
    if nf >= 10:
        tot -= d[9]
    busy = tot - d[3] - d[4]
    return tot, busy


def want_percent(a, b):
    tot, busy = tot_busy(deltas(a, b))
    if tot == 0:
        return Fraction(0)
    return Fraction(100 * busy, tot)


def agg(snap):
    nf = len(snap[0])
    return [sum(c[i] for c in snap) for i in range(nf)]


# ---- generator --------------------------------------------------------------------------------------

def gen_step(rng, cur, style):
    nxt = []
    for c in cur:
        nf = len(c)
        d = [0] * nf
        mode = rng.choice(style)
        if mode == "zero":
            pass
        elif mode == "tick":
            d[rng.randrange(nf)] = 1
        elif mode == "subsec":
            for _ in range(rng.randrange(1, 5)):
                d[rng.randrange(nf)] += rng.randrange(1, 30)
        elif mode == "normal":
            for i in range(nf):
                d[i] = rng.choice([0, 0, rng.randrange(0, 500)])
        elif mode == "huge":
            for i in range(nf):
                d[i] = rng.choice([0, rng.randrange(0, 2**40)])
        n = [x + y for x, y in zip(c, d)]
        # guest is part of user, guest_nice part of nice
        if nf >= 9 and d[8] > d[0]:
            n[0] = c[0] + d[8]
        if nf >= 10 and d[9] > d[1]:
            n[1] = c[1] + d[9]
        if rng.random() < 0.15:
            i = rng.choice([2, 3, 4, 5, 6] + ([7] if nf >= 8 else []))
            n[i] = max(0, n[i] - rng.randrange(1, 1000))      # a counter going backwards
        if nf >= 9 and rng.random() < 0.06:
            # the kernel's user (or nice) counter stalls or slips back while its guest share advances (the two are updated
            # separately): "a backwards counter contributes zero" and "every value within [0, 100]" meet
            j = rng.choice([8] + ([9] if nf >= 10 else []))
            n[j - 8] = max(0, c[j - 8] - rng.choice([0, 1, 250]))
            n[j] = c[j] + rng.choice([200, 450, 10**5])
            n[3] = max(n[3], c[3] + rng.choice([100, 1000]))      # (time does pass on that line: no 0/0 shares)
        nxt.append(n)
    return nxt


def gen_case(rng, nf):
    ncpu = rng.choice([1, 1, 2, 4, 16, 64])
    cur = [[rng.randrange(0, 10**6) for _ in range(nf)] for _ in range(ncpu)]
    for c in cur:
        if nf >= 9:
            c[0] = max(c[0], c[8])
        if nf >= 10:
            c[1] = max(c[1], c[9])
    style = rng.choice([["subsec"], ["tick", "zero", "subsec"], ["normal"], ["normal", "subsec", "huge", "zero"]])
    ops = [["snap", cur]]
    for _ in range(rng.randrange(3, 12)):
        r = rng.random()
        if r < 0.35:
            cur = gen_step(rng, cur, style)
            ops.append(["snap", cur])
        elif r < 0.45:
            ops.append(["times", rng.random() < 0.5])
        else:
            fn = rng.choice(["cpu_percent", "cpu_times_percent"])
            th = rng.choice([0, 0, 1, 2])
            percpu = rng.random() < 0.5
            if rng.random() < 0.25:
                nxt = gen_step(rng, cur, style)
                ops.append(["pct", fn, th, percpu, rng.choice([0.1, 0.5, 1, 2.5]), nxt])
                cur = nxt
            elif rng.random() < 0.12:
                # the read of /proc/stat fails for once (EMFILE / ENOMEM ...): the call may raise, the thread's previous
                # sample must survive
                ops.append(["pct_fail", fn, th, percpu, rng.choice([None, 0])])
            else:
                ops.append(["pct", fn, th, percpu, rng.choice([None, None, 0, 0.0]), None])
    return dict(nf=nf, ops=ops)


def gen_proc_case(rng):
    ops = []
    u = s = rng.randrange(0, 1000)
    t = 0.0
    for _ in range(rng.randrange(2, 9)):
        du, ds = rng.choice([(0, 0), (1, 0), (rng.randrange(0, 200), rng.randrange(0, 200)), (10**6, 10**6)])
        dt = rng.choice([0.0, 0.001, 0.01, 0.5, 1.0, 3.0, 1000.0])
        u, s, t = u + du, s + ds, t + dt
        blocking = rng.random() < 0.2
        # time the process did NOT use itself: CPU of children it reaped, time spent waiting for block I/O
        other = [rng.choice([0, 0, rng.randrange(1, 5000)]) for _ in range(3)]
        ops.append(dict(utime=u, stime=s, dt=dt, other=other,
                        wall_step=rng.choice([0, 0, 0, -3600, 120, -0.3, 86400 * 365]),
                        interval=(dt if blocking and dt > 0 else rng.choice([None, 0, 0.0])),
                        oversleep=rng.choice([0, 0, dt * 0.5, dt * 2, 0.3])))
    # the number of CPUs online while this process is measured: not necessarily what it was when psutil was imported
    # (a resized VM, CPUs taken offline); it does not enter the documented figure
    return dict(proc=True, ops=ops, ncpu=rng.choice([None, None, 1, 3, 16, 32, 64, 255]))


# ---- runner -------------------------------------------------------------------------------------------

def close(got, want, tol=0.05 + 1e-9):
    return abs(Fraction(got) - want) <= Fraction(tol)


def run_case(case, acc):
    if case.get("proc"):
        return run_proc_case(case, acc)
    env = setup(case["nf"])
    ps, vk, st, clock = env["ps"], env["vk"], env["st"], env["clock"]
    nf = case["nf"]
    names = FIELDS[:nf]
    viols = []
    nontrivial = [False]
    ctx = f"nf={nf} ops={str(case['ops'])[:1500]}"
    last = env.setdefault("last", {})      # (thread, fn, percpu) -> snapshot  (persists across cases like the module state does)
    threads_used = set()

    def call_in(th, fn):
        if th == 0:
            try:
                return ("ok", fn())
            except BaseException as e:  # noqa: BLE001
                return ("exc", e)
        return env["threads"][th - 1].call(fn)

    def check_rows(fn, percpu, before, after, got):
        pairs = list(zip(before, after)) if percpu else [(agg(before), agg(after))]
        rows = got if percpu else [got]
        if len(rows) != len(pairs):
            viols.append((f"{fn}_wrong_length", ctx + f" got {len(rows)} rows want {len(pairs)}"))
            return
        loads = set()
        for (a, b), row in zip(pairs, rows):
            d = deltas(a, b)
            tot, busy = tot_busy(d)
            if 0 < tot < CLK or any(y < x for x, y in zip(a, b)):
                nontrivial[0] = True
            loads.add((tot, busy))
            if fn == "cpu_percent":
                acc.count("percent_values_checked")
                want = want_percent(a, b)
                if not (0.0 <= row <= 100.0):
                    viols.append(("cpu_percent_out_of_range", ctx + f" got {row} a={a} b={b}"))
                elif not close(row, want):
                    viols.append(("cpu_percent_wrong", ctx + f" got {row} want {float(want):.3f} a={a} b={b}"))
            else:
                acc.count("times_percent_rows_checked")
                if tuple(row._fields) != tuple(names):
                    viols.append(("cpu_times_percent_fields", ctx + f" fields={row._fields}"))
                    continue
                ssum = Fraction(0)
                for i, v in enumerate(row):
                    if not (0.0 <= v <= 100.0):
                        viols.append(("cpu_times_percent_out_of_range", ctx + f" field {names[i]}={v}"))
                    want = Fraction(100 * d[i], tot) if tot > 0 else Fraction(0)
                    if tot == 0 and d[i] > 0 and i >= 8:
                        continue        # a guest share of an elapsed total of zero is 0/0: any value in range is accepted
                    if not close(v, min(want, Fraction(100))):
                        # the recorded finding divides by max(1 s, elapsed): with less than one CPU-second elapsed the share
                        # comes out as 100 * delta / CLK - only an answer of exactly that shape is the known mechanism
                        known_shape = 0 < tot < CLK and close(v, min(Fraction(100 * d[i], CLK), Fraction(100)))
                        feature = ":subsecond_total" if known_shape else ""
                        viols.append((f"cpu_times_percent_wrong{feature}", ctx + f" field {names[i]} got {v} want {float(want):.3f} "
                                                                                     f"delta={d} total_ticks={tot}"))
                        break
                ssum = sum((Fraction(v) for v in list(row)[:8]), Fraction(0))
                if tot > 0 and abs(ssum - 100) > Fraction(0.05) * min(nf, 8) + Fraction(1, 10**6):
                    known_shape = tot < CLK and abs(ssum - Fraction(100 * sum(d[:8]), CLK)) <= Fraction(0.05) * min(nf, 8) + Fraction(1, 10**6)
                    feature = ":subsecond_total" if known_shape else ""
                    viols.append((f"cpu_times_percent_sum_not_100{feature}", ctx + f" sum={float(ssum)} row={tuple(row)} total_ticks={tot}"))
        if len(loads) >= 2:
            nontrivial[0] = True

    with vk:
        old_time = ps.time
        ps.time = env["vkernel"].TimeProxy(clock, old_time)
        try:
            primed = False
            for op in case["ops"]:
                if op[0] == "snap":
                    st.snap = [list(c) for c in op[1]]
                    if not primed:
                        # a new "boot": every thread takes a first sample of every form on this machine shape
                        primed = True
                        for th in (0, 1, 2):
                            for fn in ("cpu_percent", "cpu_times_percent"):
                                for percpu in (False, True):
                                    call_in(th, lambda fn=fn, percpu=percpu: getattr(ps, fn)(percpu=percpu))
                                    last[(th, fn, percpu)] = [list(c) for c in st.snap]
                elif op[0] == "times":
                    percpu = op[1]
                    r = call_in(0, lambda: ps.cpu_times(percpu=percpu))
                    acc.count("cpu_times_checked")
                    if r[0] != "ok":
                        viols.append((f"cpu_times_exception:{type(r[1]).__name__}", ctx + f" {r[1]!r}"))
                        continue
                    rows = r[1] if percpu else [r[1]]
                    src = st.snap if percpu else [agg(st.snap)]
                    if len(rows) != len(src):
                        viols.append(("cpu_times_wrong_length", ctx))
                        continue
                    for row, c in zip(rows, src):
                        if tuple(row._fields) != tuple(names) or tuple(row) != tuple(float(x) / CLK for x in c):
                            viols.append(("cpu_times_wrong", ctx + f" got {tuple(row)} ticks={c}"))
                            break
                elif op[0] == "pct_fail":
                    _, fn, th, percpu, interval = op
                    armed = [True]

                    def once(kind, path, armed=armed):
                        if armed[0] and kind == "open" and path == "/proc/stat":
                            armed[0] = False
                            return OSError(24, "Too many open files", path)
                        return None
                    vk.rules.append(once)
                    r = call_in(th, lambda: getattr(ps, fn)(interval=interval, percpu=percpu))
                    armed[0] = False
                    vk.rules.remove(once)
                    acc.count("percent_calls_with_failing_read")
                    if r[0] == "ok":
                        # it did not need the file?  then it is an ordinary call: judged like one
                        after = [list(c) for c in st.snap]
                        before = last.get((th, fn, percpu)) or after
                        if len(before) == len(after):
                            check_rows(fn, percpu, before, after, r[1])
                        last[(th, fn, percpu)] = after
                    elif not isinstance(r[1], OSError):
                        viols.append((f"{fn}_exception:{type(r[1]).__name__}:failing_read", ctx + f" {r[1]!r}"))
                    # an OSError leaves the model's previous sample of this thread untouched
                elif op[0] == "pct":
                    _, fn, th, percpu, interval, nxt = op
                    threads_used.add(th)
                    key = (th, fn, percpu)
                    f = getattr(ps, fn)
                    blocking = interval is not None and interval > 0
                    before_block = [list(c) for c in st.snap]
                    if blocking:
                        clock.timers.clear()

                        def install(nxt=nxt):
                            st.snap = [list(c) for c in nxt]
                        clock.at(clock.t + interval / 2, install)
                    r = call_in(th, lambda: f(interval=interval, percpu=percpu))
                    if r[0] != "ok":
                        viols.append((f"{fn}_exception:{type(r[1]).__name__}", ctx + f" {r[1]!r}"))
                        last[key] = [list(c) for c in st.snap]
                        continue
                    after = [list(c) for c in st.snap]
                    if blocking:
                        before = before_block
                        if clock.sleeps[-1:] != [interval]:
                            viols.append((f"{fn}_blocking_did_not_sleep_interval", ctx + f" sleeps={clock.sleeps[-3:]}"))
                    else:
                        before = last.get(key)
                        if before is None or len(before) != len(after):
                            before = after        # first call of this thread: compared with itself -> zeros
                    check_rows(fn, percpu, before, after, r[1])
                    last[key] = after
            if len(threads_used) >= 2:
                nontrivial[0] = True
            # negative interval
            for fn in ("cpu_percent", "cpu_times_percent"):
                for percpu in (False, True):
                    for bad in (-1, -0.25):
                        acc.count("negative_intervals_checked")
                        try:
                            getattr(ps, fn)(interval=bad, percpu=percpu)
                            viols.append((f"{fn}_negative_interval_accepted", ctx + f" interval={bad} percpu={percpu}"))
                            last.pop((0, fn, percpu), None)      # (whatever it stored, the model's sample is void now)
                        except ValueError:
                            pass
        finally:
            ps.time = old_time
    acc.case(case, nontrivial[0], viols)


def run_proc_case(case, acc):
    env = setup(_env["nf"] if _env else 10)
    ps, vk, t, clock = env["ps"], env["vk"], env["t"], env["clock"]
    viols = []
    ctx = f"proc ops={case['ops']}"
    pid = 77
    if pid in t.procs:
        t.remove(pid)
    p = t.spawn(pid, 500, ppid=1, comm=b"burner")
    with vk:
        old_time, old_timer = ps.time, ps._timer
        ps.time = env["vkernel"].TimeProxy(clock, old_time)
        ps._timer = clock.now
        old_cpu_count = ps.cpu_count
        if case.get("ncpu"):
            ps.cpu_count = lambda logical=True, _n=case["ncpu"]: _n
            acc.count("process_percent_cases_with_another_cpu_count_than_at_import")
        try:
            pr = ps.Process(pid)
            prev = None
            nontrivial = False

            def grow_other(op):
                o = op.get("other") or (0, 0, 0)
                p.cutime, p.cstime, p.blkio = p.cutime + o[0], p.cstime + o[1], p.blkio + o[2]
                if any(o):
                    acc.count("process_percent_with_child_or_iowait_growth")
            for i, op in enumerate(case["ops"]):
                interval = op["interval"]
                blocking = interval is not None and interval > 0
                if blocking:
                    before = (p.utime, p.stime, clock.t)
                    clock.timers.clear()

                    def bump(op=op):
                        p.utime, p.stime = op["utime"], op["stime"]
                        grow_other(op)
                        clock.wall_offset = getattr(clock, "wall_offset", 0.0) + op.get("wall_step", 0)
                    clock.at(clock.t + interval / 2, bump)
                    clock.oversleep = op.get("oversleep", 0)       # the sleep returns late: elapsed time is what elapsed
                    if clock.oversleep:
                        acc.count("process_percent_blocking_with_late_wakeup")
                    try:
                        got = pr.cpu_percent(interval=interval)
                    finally:
                        clock.oversleep = 0.0
                    ref = before
                else:
                    clock.advance(op["dt"])
                    # the calendar clock is stepped between the samples: elapsed time is what the monotonic clock says
                    clock.wall_offset = getattr(clock, "wall_offset", 0.0) + op.get("wall_step", 0)
                    if op.get("wall_step"):
                        acc.count("process_percent_across_calendar_clock_step")
                    p.utime, p.stime = op["utime"], op["stime"]
                    grow_other(op)
                    got = pr.cpu_percent(interval=interval)
                    ref = prev
                now = (p.utime, p.stime, clock.t)
                acc.count("process_percent_checked")
                if ref is None:
                    if got != 0.0:
                        viols.append(("process_cpu_percent_first_call_nonzero", ctx + f" got {got}"))
                else:
                    dcpu = Fraction((now[0] - ref[0]) + (now[1] - ref[1]), CLK)
                    dwall = Fraction(now[2]) - Fraction(ref[2])
                    want = Fraction(0) if dwall == 0 else 100 * dcpu / dwall
                    if 0 < dwall < 1:
                        nontrivial = True
                    # the figure is computed in double precision from two time stamps scaled by the CPU count: with a count that
                    # is no power of two each scaled stamp is rounded (relative 2**-53), i.e. the interval carries an error of
                    # up to ~4 * 2**-53 * t / dwall - float noise, not a wrong share
                    rel = Fraction(1, 10**9)
                    if case.get("ncpu") and dwall > 0:
                        rel += Fraction(4, 2**53) * Fraction(now[2]) / dwall
                    if abs(Fraction(got) - want) > Fraction(0.05) + abs(want) * rel:
                        viols.append(("process_cpu_percent_wrong", ctx + f" op#{i} got {got} want {float(want)}"))
                prev = now
            try:
                pr.cpu_percent(interval=-0.5)
                viols.append(("process_cpu_percent_negative_interval_accepted", ctx))
            except ValueError:
                pass
        finally:
            ps.time, ps._timer = old_time, old_timer
            ps.cpu_count = old_cpu_count
    acc.case(case, nontrivial, viols)


# ---- one program looking at several kernels: PROCFS_PATH moved between procfs trees with different field counts ----

def run_switch(shard, acc):
    """psutil imported on an A-field kernel, then PROCFS_PATH pointed at a B-field procfs (first call there is the per-CPU
    form), then back to A, then to B again: every answer must carry the counters of the procfs it was read from."""
    nfa, nfb = shard["a"], shard["b"]
    env = setup(nfa)
    ps, vk, vkernel = env["ps"], env["vk"], env["vkernel"]
    from vlib.proctable import ProcTable
    snapb = [[1000 + 10 * c + i for i in range(nfb)] for c in range(3)]
    tb = ProcTable()
    tb.cpu_lines = lambda: render(snapb)[:render(snapb).index(b"intr")]
    tb.spawn(1, 1, ppid=0, comm=b"init")
    vk.mount("/vprocB", tb)
    snapa = env["st"].snap
    names_all = ["user", "nice", "system", "idle", "iowait", "irq", "softirq", "steal", "guest", "guest_nice"]
    viols = []

    def check(where, path, snap, nf, percpu_first):
        ps.PROCFS_PATH = path
        order = ("percpu", "total") if percpu_first else ("total", "percpu")
        for form in order:
            acc.count("cpu_times_checked")
            acc.count("procfs_switch_calls_checked")
            try:
                got = ps.cpu_times(percpu=(form == "percpu"))
            except Exception as e:  # noqa: BLE001
                viols.append((f"cpu_times_exception:{type(e).__name__}:after_procfs_switch", f"{where}: cpu_times({form}) on a {nf}-field procfs raised {e!r}"))
                continue
            rows = got if form == "percpu" else [got]
            want_rows = snap if form == "percpu" else [agg(snap)]
            for row, w in zip(rows, want_rows):
                if tuple(row._fields) != tuple(names_all[:nf]) or [round(v * CLK) for v in row] != list(w):
                    viols.append(("cpu_times_wrong:after_procfs_switch", f"{where}: cpu_times({form}) on a {nf}-field procfs -> {row!r} want ticks {w}"))
                    break
        # cpu_percent() right after a switch would compare samples of two different machines: which figure it answers is not
        # asserted - but it answers (the thread's previous sample may have another field layout), and the call after it
        # measures an interval without any tick: zero everywhere
        for rep in (0, 1):
            for fn in ("cpu_percent", "cpu_times_percent"):
                for percpu in (False, True):
                    acc.count("percent_calls_after_procfs_switch")
                    try:
                        got = getattr(ps, fn)(percpu=percpu)
                    except Exception as e:  # noqa: BLE001
                        viols.append((f"{fn}_exception:{type(e).__name__}:after_procfs_switch",
                                      f"{where}: {fn}(percpu={percpu}) call #{rep + 1} on a {nf}-field procfs raised {e!r}"))
                        continue
                    if rep == 1:
                        rows = got if percpu else [got]
                        flat = [v for row in rows for v in (row if fn == "cpu_times_percent" else [row])]
                        if any(v != 0.0 for v in flat):
                            viols.append((f"{fn}_wrong:after_procfs_switch", f"{where}: second {fn}(percpu={percpu}) with no tick in between -> {got!r}"))
    with vk:
        try:
            check("first visit of B", "/vprocB", snapb, nfb, True)
            check("back to A", "/proc", snapa, nfa, True)
            check("B again", "/vprocB", snapb, nfb, False)
            check("A again", "/proc", snapa, nfa, False)
        finally:
            ps.PROCFS_PATH = "/proc"
    acc.case(dict(kind="switch", a=nfa, b=nfb), True, viols)


def run_many_threads(case, acc):
    """Many simultaneously live threads take samples while one long-lived thread goes on measuring: whatever the others do, each
    thread is measured against its own previous sample. The counters advance by the same amount of busy and idle time at every
    step, so any interval between two samples of one thread is exactly 50 % busy."""
    env = setup(case["nf"])
    ps, st = env["ps"], env["st"]
    nf, nthreads, ncpu = case["nf"], case["threads"], 2
    viols = []
    ctx = f"case={case}"

    def advance():
        # user (field 0) and idle (field 3) grow by the same number of ticks on every CPU
        st.snap = [[v + (700 if i in (0, 3) else 0) for i, v in enumerate(c)] for c in st.snap]
    st.snap = [[1000 * (k + 1) + i for i in range(nf)] for k in range(ncpu)]
    forms = [("cpu_percent", False), ("cpu_percent", True), ("cpu_times_percent", False), ("cpu_times_percent", True)]

    def sample_all():
        return [getattr(ps, fn)(percpu=pc) for fn, pc in forms]

    def judge(tag, got):
        for (fn, pc), val in zip(forms, got):
            rows = val if pc else [val]
            for row in rows:
                acc.count("many_threads_samples_checked")
                ok = (row == 50.0) if fn == "cpu_percent" else (row.user == 50.0 and row.idle == 50.0 and
                                                               all(getattr(row, f) == 0.0 for f in row._fields if f not in ("user", "idle")))
                if not ok:
                    viols.append((f"{fn}_wrong:own_sample_lost_among_many_threads",
                                  ctx + f" {tag}: {fn}(percpu={pc}) -> {val!r}, want exactly 50 % busy since this thread's previous sample"))
                    return
    callers = [Caller() for _ in range(nthreads)]
    env["vk"].__enter__()
    try:
        sample_all()                    # the long-lived thread's baseline
        for k, c in enumerate(callers):
            advance()
            r = c.call(sample_all)      # a worker's first sample (its value is the documented meaningless one)
            if r[0] != "ok":
                viols.append((f"cpu_percent_exception:{type(r[1]).__name__}:many_threads", ctx + f" {r[1]!r}"))
                break
            if (k + 1) % case["every"] == 0:
                advance()
                judge(f"long-lived thread after {k + 1} workers sampled", sample_all())
                if viols:
                    break
        if not viols:
            # the workers themselves, a second time, oldest first
            for k, c in enumerate(callers):
                advance()
                r = c.call(sample_all)
                if r[0] == "ok":
                    judge(f"worker {k}, second sample", r[1])
                    if viols:
                        break
    finally:
        env["vk"].__exit__(None, None, None)
        for c in callers:
            c.q.put(lambda: (_ for _ in ()).throw(SystemExit))      # ends the worker's loop
    if not any(k == "open" and p == "/proc/stat" for k, p in env["vk"].log[-50:]):
        acc.inconclusive = "many_threads: the samples did not come from the simulated /proc/stat"
    acc.count("many_live_threads_cases")
    acc.case(case, True, viols)


def run_first_calls(case, acc):
    """A fresh interpreter: psutil was imported (by this thread) at snapshot S0 and nothing was asked since. The four
    percentage forms are then called for the first time in a generated order, from the importing thread and from another one,
    a fresh snapshot before every call; a second round follows. Each (thread, function, form) is measured against *its own*
    previous sample: for a first call that is the import-time sample (importing thread) or nothing at all (all zeros) - never
    the sample another function or thread took in between."""
    import random
    nf = case["nf"]
    env = setup(nf)
    ps, vk, st, clock = env["ps"], env["vk"], env["st"], env["clock"]
    names = FIELDS[:nf]
    rng = random.Random(case["rseed"])
    ncpu = case["ncpu"]
    s0 = [list(c) for c in env["import_snap"]]
    viols = []
    ctx = f"nf={nf} ncpu={ncpu} order={case['order']}"

    def advance(cur):
        nxt = []
        for c in cur:
            d = [rng.randrange(1, 50) * CLK for _ in range(nf)]
            d[3] = rng.choice([0, 1, 7, 300]) * CLK
            if nf >= 9:
                d[8] = min(d[8], d[0])
            if nf >= 10:
                d[9] = min(d[9], d[1])
            nxt.append([x + y for x, y in zip(c, d)])
        return nxt

    def rows_for(fn, percpu, before, after):
        pairs = list(zip(before, after)) if percpu else [(agg(before), agg(after))]
        out = []
        for a, b in pairs:
            if fn == "cpu_percent":
                out.append([want_percent(a, b)])
            else:
                d = deltas(a, b)
                tot, _ = tot_busy(d)
                out.append([Fraction(100 * x, tot) if tot else Fraction(0) for x in d])
        return out

    def matches(fn, percpu, got, want_rows):
        rows = got if percpu else [got]
        if len(rows) != len(want_rows):
            return False
        for row, w in zip(rows, want_rows):
            vals = [row] if fn == "cpu_percent" else list(row)
            if len(vals) != len(w) or not all(close(v, min(x, Fraction(100))) for v, x in zip(vals, w)):
                return False
        return True

    if len(s0) != ncpu:
        # the machine shape is fixed by what was there at import: this shard's import snapshot has one CPU; grow it before
        # anything is asked is not possible without a second import, so per-CPU rows are compared CPU by CPU as far as both go
        ncpu = len(s0)
    last = {}
    with vk:
        old_time = ps.time
        ps.time = env["vkernel"].TimeProxy(clock, old_time)
        try:
            cur = s0
            for rnd in (0, 1):
                for th, fn, percpu in case["order"]:
                    cur = advance(cur)
                    st.snap = [list(c) for c in cur]
                    clock.advance(1.0)
                    f = lambda fn=fn, percpu=percpu: getattr(ps, fn)(percpu=percpu)  # noqa: E731
                    if th == 0:
                        try:
                            r = ("ok", f())
                        except BaseException as e:  # noqa: BLE001
                            r = ("exc", e)
                    else:
                        r = env["threads"][th - 1].call(f)
                    acc.count("first_round_calls_checked" if rnd == 0 else "second_round_calls_checked")
                    key = (th, fn, percpu)
                    if r[0] != "ok":
                        viols.append((f"{fn}_exception:{type(r[1]).__name__}:first_calls_after_import", ctx + f" {key} -> {r[1]!r}"))
                        last[key] = cur
                        continue
                    if key in last:
                        ok = matches(fn, percpu, r[1], rows_for(fn, percpu, last[key], cur))
                        tag = "second_call"
                    else:
                        cands = [rows_for(fn, percpu, cur, cur)]            # no previous sample: nothing elapsed
                        if th == 0:
                            cands.append(rows_for(fn, percpu, s0, cur))     # the sample taken when psutil was imported
                        ok = any(matches(fn, percpu, r[1], w) for w in cands)
                        tag = "first_call_after_import"
                    if not ok:
                        viols.append((f"{fn}_wrong:{tag}:measured_against_a_foreign_sample",
                                      ctx + f" round={rnd} call={key} got={r[1]!r} own previous sample={last.get(key, s0 if th == 0 else None)} now={cur}"))
                    last[key] = cur
        finally:
            ps.time = old_time
    acc.case(case, True, viols)


def plan(tier, seed):
    n = 3000 if tier == "quick" else 120000
    shards = []
    per = 4 if tier == "quick" else 12
    for nf in (7, 8, 9, 10):
        for s, c in harness.split_range(n, per):
            shards.append(dict(kind="gen", nf=nf, seed=seed, start=s, count=c))
    for a in (7, 8, 9, 10):
        for b in (7, 8, 9, 10):
            if a != b:
                shards.append(dict(kind="switch", a=a, b=b))
    for nf, nthreads in ((10, 100), (8, 300 if tier == "quick" else 1500)):
        shards.append(dict(kind="many_threads", nf=nf, threads=nthreads, every=10))
    # first calls after a fresh import: every order of the four percentage forms on the importing thread (4! = 24), calls of
    # a second thread woven in; one interpreter per order
    import itertools
    import random
    forms = [(fn, pc) for fn in ("cpu_percent", "cpu_times_percent") for pc in (False, True)]
    orders = list(itertools.permutations(forms))
    reps = 1 if tier == "quick" else 8
    for rep in range(reps):
        for i, perm in enumerate(orders):
            rng = random.Random(f"c07-first-{seed}-{rep}-{i}")
            order = [[0, fn, pc] for fn, pc in perm]
            for fn, pc in rng.sample(forms, rng.randrange(0, 5)):
                order.insert(rng.randrange(0, len(order) + 1), [1, fn, pc])
            shards.append(dict(kind="first_calls", nf=(7, 8, 9, 10)[(i + rep + seed) % 4], ncpu=1, order=order,
                               rseed=rng.randrange(1 << 30)))
    return shards


def run_shard(shard):
    acc = harness.Acc(max_samples=2)
    k = shard["kind"]
    if k == "gen":
        setup(shard["nf"])
        for i in range(shard["start"], shard["start"] + shard["count"]):
            rng = harness.rng_for(shard["seed"], "c07", shard["nf"], i)
            if i % 5 == 4:
                run_case(gen_proc_case(rng), acc)
            else:
                run_case(gen_case(rng, shard["nf"]), acc)
        acc.count(f"cases_nf{shard['nf']}", acc.evals)
    elif k == "switch":
        run_switch(shard, acc)
    elif k == "first_calls":
        run_first_calls(shard, acc)
    elif k == "many_threads":
        run_many_threads(dict(kind="many_threads", nf=shard["nf"], threads=shard["threads"], every=shard["every"]), acc)
    elif k == "cases":
        if shard["cases"] and shard["cases"][0].get("kind") == "many_threads":
            run_many_threads(shard["cases"][0], acc)
            return acc.result()
        if shard["cases"] and shard["cases"][0].get("kind") == "first_calls":
            run_first_calls(shard["cases"][0], acc)
            return acc.result()
        if shard["cases"] and shard["cases"][0].get("kind") == "switch":
            run_switch(shard["cases"][0], acc)
            return acc.result()
        nf = shard.get("variant") or next((c["nf"] for c in shard["cases"] if "nf" in c), 10)
        setup(nf)
        for case in shard["cases"]:
            run_case(case, acc)
    return acc.result()
