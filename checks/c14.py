"""C14 - open_files(), num_fds() and io_counters() reflect the descriptor table exactly.

Workload: generated descriptor tables (fd/<n> links + fdinfo/<n>) and io files served by the vkernel ProcTable;
link targets of the "file" kinds are REAL files/dirs/FIFOs created in a per-worker temp dir, so psutil's own
stat() calls see genuine file types. Descriptors vanish between listing and inspection (ENOENT on readlink or
on fdinfo, or a fault plan that closes descriptors at the k-th kernel access) while the process stays alive.
Oracle: the generator's table (never a re-parse) and the statement's flag -> mode table.
"""
import atexit
import os
import shutil
import tempfile

from vlib import harness

ID = "C14"
LEVEL = "exploration"
TECHNIQUE = ("runtime monitor: generated fd tables / fdinfo / io records (real temp files as link targets) under "
             "the real open_files/num_fds/io_counters, ground-truth oracle, mid-scan close fault plans; live kernel: a real child "
             "holding ~65 descriptors of every kind vs an independent reading of /proc/<pid>/fd + fdinfo + io")
RULE = ("live part: a real child opens regular files in every access/append mode (incl. access mode 3, names with blanks and a newline, a file literally named '(deleted)', deleted and re-created files), a directory, /dev/null, pipes, sockets, memfd, eventfd, epoll, 40 high-numbered dups and blocks in open() of a FIFO (a reserved, not yet installed descriptor). one case = one simulated live process with 0-60 descriptors of 20 kinds (regular files incl. names with "
        "spaces/newline/non-ASCII, literal ' (deleted)' file, directory, FIFO, /dev/null, pipe:, socket:, "
        "anon_inode:, relative targets that exist relative to the cwd, ' (deleted)' targets whose undeleted path "
        "does / does not exist, missing absolute path), flag word = access mode 0-3 x subset of 7 open flags, "
        "offsets to 2^63-1, descriptors closing mid-scan (listed but readlink ENOENT / fdinfo ENOENT / closed by a "
        "fault plan at the k-th access), and an io file (7 counters to 2^64-1, shuffled, blank and malformed extra "
        "lines). One extra shard enumerates all 4 x 2^7 flag words on a regular file. non-trivial = table mixes "
        ">= 3 fd kinds, or a file fd has O_APPEND or access mode 3, or a descriptor closes mid-scan; distinct by "
        "case hash")
ASSUMPTIONS = [
    "fdinfo format 'pos:\\t%lli\\nflags:\\t0%o\\nmnt_id:\\t%i\\n[ino:\\t%lu\\n][lock:...]' (fs/proc/fd.c), compared "
    "with the live 6.18 kernel",
    "open flag values are the x86-64 Linux ABI constants (O_APPEND=02000, O_CREAT=0100, O_TRUNC=01000, "
    "O_CLOEXEC=02000000, O_NONBLOCK=04000, O_LARGEFILE=0100000, O_DIRECT=040000)",
    "a descriptor that closes mid-scan yields ENOENT on readlink / fdinfo while /proc/<pid> stays (process alive)",
    "a descriptor closed by the fault plan may or may not be listed (depends on scan position); if listed its "
    "fields must be right",
    "target 'X (deleted)' where only X exists as a regular file: listing it (as X or as 'X (deleted)') and "
    "leaving it out are both accepted (statement silent)",
    "for access mode 3 the mode string is unspecified; only success and the other fields are asserted",
    "descriptor numbers are listed in ascending order as the kernel does; no fd reuse during a scan",
    "io: the seven kernel lines are always present and well-formed; extra lines are blank, lack the ': ' "
    "separator, carry several separators, are unknown 'name: int' counters, or carry a non-integer value",
    "worker cwd is /verif (relative targets 'check' and 'vlib/driver.py' exist relative to it)",
]
REQUIRED_COUNTERS = ["entries_compared", "left_out_checked", "midscan_close_survived", "plan_faults_fired",
                     "num_fds_comparisons", "io_comparisons", "io_cases_with_malformed_lines",
                     "flag_words_enumerated"]

# x86-64 Linux ABI (asm-generic/fcntl.h) - not taken from the module under test
O_APPEND, O_CREAT, O_TRUNC, O_CLOEXEC = 0o2000, 0o100, 0o1000, 0o2000000
O_NONBLOCK, O_LARGEFILE, O_DIRECT = 0o4000, 0o100000, 0o40000
FLAG_BITS = [O_APPEND, O_CREAT, O_TRUNC, O_CLOEXEC, O_NONBLOCK, O_LARGEFILE, O_DIRECT]

# documented io_counters names (docs/index.rst, Linux) -> /proc/<pid>/io key
IO_DOC = dict(read_count="syscr", write_count="syscw", read_bytes="read_bytes", write_bytes="write_bytes",
              read_chars="rchar", write_chars="wchar")
IO_KEYS = ["rchar", "wchar", "syscr", "syscw", "read_bytes", "write_bytes", "cancelled_write_bytes"]

REG_NAMES = ["reg0", "reg 1 with space", "rég2.txt", "reg3:colon", "nl\nfile", "trail ",
             # names that end in letters of the marker " (deleted)" itself
             "state", "table", "cache.dat", "(led)"]
# a regular file that lives under /dev (POSIX shared memory, /dev/mqueue): the *file type* decides, not the directory
DEV_SHM_FILE = "/dev/shm/verif_c14_%d" % os.getpid()
# kind -> (target template, class); $T = the worker's temp dir.  MUST = has to be listed, MAY, NOT
KINDS = {
    "reg":               (None, "MUST"),
    "deleted_literal":   ("$T/lit (deleted)", "MUST"),      # a real file literally named so
    "deleted_recreated": ("$T/reg0 (deleted)", "MAY"),      # only $T/reg0 exists
    "reg_under_dev":     ("$SHM", "MUST"),
    "deleted_gone":      ("$T/gone0 (deleted)", "NOT"),
    "deleted_dir":       ("$T/dir0 (deleted)", "NOT"),
    "memfd":             ("/memfd:buf (deleted)", "NOT"),
    "missing_abs":       ("$T/missing", "NOT"),
    "dir":               ("$T/dir0", "NOT"),
    "fifo":              ("$T/fifo0", "NOT"),
    "devnull":           ("/dev/null", "NOT"),
    "devzero":           ("/dev/zero", "NOT"),
    "rootdir":           ("/", "NOT"),
    "pipe":              ("pipe:[%d]", "NOT"),
    "socket":            ("socket:[%d]", "NOT"),
    "anon_eventpoll":    ("anon_inode:[eventpoll]", "NOT"),
    "anon_eventfd":      ("anon_inode:[eventfd]", "NOT"),
    "nsfs":              ("net:[4026531840]", "NOT"),
    "relative_existing": ("check", "NOT"),                  # exists relative to the cwd (/verif)
    "relative_existing2": ("vlib/driver.py", "NOT"),
    "relative_missing":  ("foo/bar", "NOT"),
    # unreachable targets whose stat() fails with something else than ENOENT / EACCES
    "under_file":        ("$T/reg0/sub", "NOT"),            # ENOTDIR: a path component is a regular file
    "under_file_deleted": ("$T/reg0/sub (deleted)", "NOT"),  # e.g. dir removed and a file created in its place
    "symlink_loop":      ("$T/loop/x", "NOT"),              # ELOOP
    "name_too_long":     ("$T/" + "n" * 300, "NOT"),        # ENAMETOOLONG
}
FILE_KINDS = ("reg", "deleted_literal", "deleted_recreated", "reg_under_dev")
KIND_WEIGHTS = (["reg"] * 10 + ["reg_under_dev"] * 1 + ["deleted_literal"] * 2 + ["deleted_recreated"] * 2 + ["pipe"] * 3 + ["socket"] * 3
                + [k for k in KINDS if k not in ("reg", "pipe", "socket")])

IO_BENIGN = [b"\n", b"   \n", b"\t\n", b"garbage\n", b"key:value\n", b"key value\n", b"a: b: c\n", b"x: \n",
             b": \n", b"new_counter: 5\n", b"rchar\n", b"syscr 7\n", b"\r\n"]
IO_NONNUMERIC = [b"foo: bar\n", b"foo: 0x10\n", b"foo: 12 kB\n", b"foo: 1.5\n"]

POS = [0, 1, 4096, 2**31 - 1, 2**31, 2**32, 2**32 + 1, 2**62, 2**63 - 1]
BIG = [0, 1, 2**32 - 1, 2**32, 2**63 - 1, 2**63, 2**64 - 1]


def _b(s):
    return s.encode("latin-1")


def _s(b):
    return b.decode("latin-1")


def want_mode(flags):
    """The statement's table; None = unspecified (access mode 3)."""
    acc = flags & 3
    app = bool(flags & O_APPEND)
    if acc == 0:
        return "r"
    if acc == 1:
        return "a" if app else "w"
    if acc == 2:
        return "a+" if app else "r+"
    return None


# ------------------------------------------------------------------------------------------------
# generator
# ------------------------------------------------------------------------------------------------

def gen_flags(rng, allow3):
    acc = rng.choice([0, 0, 1, 1, 2, 2, 3] if allow3 else [0, 1, 2])
    w = acc
    r = rng.random()
    if r < 0.3:
        w |= O_LARGEFILE | rng.choice([0, O_CLOEXEC])
    elif r < 0.9:
        for b in FLAG_BITS:
            if rng.random() < 0.35:
                w |= b
    return w


def gen_io(rng):
    vals = {k: (rng.choice(BIG) if rng.random() < 0.4 else rng.randrange(0, 10**9)) for k in IO_KEYS}
    lines = [f"{k}: {vals[k]}\n".encode() for k in IO_KEYS]
    if rng.random() < 0.5:
        rng.shuffle(lines)
    feature = "plain"
    r = rng.random()
    if r < 0.45:
        feature = "blank_or_malformed_lines"
        for _ in range(rng.randrange(1, 6)):
            lines.insert(rng.randrange(0, len(lines) + 1), rng.choice(IO_BENIGN))
    elif r < 0.50:
        feature = "nonnumeric_value_line"
        lines.insert(rng.randrange(0, len(lines) + 1), rng.choice(IO_NONNUMERIC))
        if rng.random() < 0.5:
            lines.insert(rng.randrange(0, len(lines) + 1), rng.choice(IO_BENIGN))
    return _s(b"".join(lines)), vals, feature


def gen_case(rng):
    n = rng.choice([0, 1, 2, 3, 4, 6, 9, 15, 25, 40, 60, rng.randrange(0, 61), rng.randrange(0, 61)])
    allow3 = rng.random() < 0.12          # access mode 3 on file kinds only in a minority of tables
    fds = []
    fd = rng.choice([0, 0, 3, 100])
    for _ in range(n):
        kind = rng.choice(KIND_WEIGHTS)
        tmpl = KINDS[kind][0]
        if kind == "reg":
            target = "$T/" + rng.choice(REG_NAMES)
        elif kind == "deleted_recreated":
            # replaced on disk while the descriptor stays open (atomic save, log rotation): whatever the file is called
            target = "$T/" + rng.choice(REG_NAMES) + " (deleted)"
        elif "%d" in tmpl:
            target = tmpl % rng.randrange(1, 10**7)
        else:
            target = tmpl
        isfile = kind in FILE_KINDS
        e = dict(fd=fd, kind=kind, target=target,
                 flags=gen_flags(rng, allow3 if isfile else True),
                 pos=rng.choice(POS) if rng.random() < 0.5 else rng.randrange(0, 2**40),
                 mnt_id=rng.choice([10, 28, 4321]), ino=rng.choice([None, 3, 15802449, 2**40]),
                 lock=rng.random() < 0.1)
        r = rng.random()
        if r < 0.04:
            e["gone"] = True
        elif r < 0.08:
            e["info_gone"] = True
        fds.append(e)
        fd += rng.choice([1, 1, 1, 2, 7, rng.randrange(1, 1000)])
    plan = None
    if n and rng.random() < 0.3:
        victims = [e["fd"] for e in fds if rng.random() < 0.4]
        if rng.random() < 0.3:
            victims = [e["fd"] for e in fds]
        if victims:
            plan = dict(at=rng.randrange(1, 5 * n + 3), close=victims)
    io, io_vals, io_feature = gen_io(rng)
    return dict(pid=rng.choice([50, 7, 4194303]), fds=fds, plan=plan, io=io, io_vals=io_vals,
                fd_reserved=rng.choice([0, 0, 0, 1, 2, 7]), is_caller=rng.random() < 0.15,
                io_feature=io_feature)


def flagword_cases():
    out = []
    for acc_mode in range(4):
        for mask in range(2**7):
            w = acc_mode
            for i, b in enumerate(FLAG_BITS):
                if mask >> i & 1:
                    w |= b
            fds = [dict(fd=0, kind="devnull", target="/dev/null", flags=0o100002, pos=0, mnt_id=10, ino=3, lock=False),
                   dict(fd=3, kind="reg", target="$T/reg0", flags=w, pos=w * 977, mnt_id=28, ino=77, lock=False),
                   dict(fd=4, kind="pipe", target="pipe:[4242]", flags=w, pos=0, mnt_id=10, ino=5, lock=False)]
            vals = dict(zip(IO_KEYS, [11, 22, 33, 44, 55, 66, 77]))
            out.append(dict(pid=50, fds=fds, plan=None, io_feature="plain", io_vals=vals,
                            io="".join(f"{k}: {v}\n" for k, v in vals.items())))
    return out


def io_corner_cases():
    """Every extra-line shape alone, at the start / middle / end of an otherwise regular io file."""
    out = []
    vals = dict(zip(IO_KEYS, [11, 22, 33, 44, 55, 66, 2**64 - 1]))
    base = [f"{k}: {v}\n".encode() for k, v in vals.items()]
    for feature, shapes in (("blank_or_malformed_lines", IO_BENIGN), ("nonnumeric_value_line", IO_NONNUMERIC)):
        for extra in shapes:
            for at in (0, 3, len(base)):
                lines = base[:at] + [extra] + base[at:]
                out.append(dict(pid=50, fds=[], plan=None, io_feature=feature, io_vals=vals,
                                io=_s(b"".join(lines))))
    return out


def nontrivial(case):
    kinds = {e["kind"] for e in case["fds"]}
    if len(kinds) >= 3 or case["plan"]:
        return True
    for e in case["fds"]:
        if e.get("gone") or e.get("info_gone"):
            return True
        if e["kind"] in FILE_KINDS and (e["flags"] & O_APPEND or e["flags"] & 3 == 3):
            return True
    return False


# ------------------------------------------------------------------------------------------------
# monitor
# ------------------------------------------------------------------------------------------------

_env = {}


def _cleanup():
    d = _env.get("tmp")
    if d and os.path.isdir(d):
        shutil.rmtree(d, ignore_errors=True)


def setup():
    if _env:
        return _env
    from vlib import psu, vkernel
    from vlib.proctable import ProcTable
    ps = psu.load()
    ps.PROCFS_PATH = "/vproc"
    tmp = os.path.realpath(tempfile.mkdtemp(prefix="verif_c14_"))
    _env.update(ps=ps, vkernel=vkernel, ProcTable=ProcTable, tmp=tmp)
    atexit.register(_cleanup)
    for name in REG_NAMES + ["lit (deleted)"]:
        with vkernel.real_open(os.path.join(tmp, name), "wb") as f:
            f.write(b"x" * 10)
    try:
        with vkernel.real_open(DEV_SHM_FILE, "wb") as f:
            f.write(b"x" * 10)
        atexit.register(lambda: os.path.exists(DEV_SHM_FILE) and os.unlink(DEV_SHM_FILE))
    except OSError:
        KINDS["reg_under_dev"] = ("$SHM", "NOT")       # no /dev/shm here: the name does not exist, so it is not a file
    os.mkdir(os.path.join(tmp, "dir0"))
    os.mkfifo(os.path.join(tmp, "fifo0"))
    os.symlink("loop", os.path.join(tmp, "loop"))
    return _env


def render_fdinfo(e):
    out = b"pos:\t%d\nflags:\t0%o\nmnt_id:\t%d\n" % (e["pos"], e["flags"], e["mnt_id"])
    if e.get("ino") is not None:
        out += b"ino:\t%d\n" % e["ino"]
    if e.get("lock"):
        out += b"lock:\t1: FLOCK  ADVISORY  WRITE 1234 fe:00:%d 0 EOF\n" % (e.get("ino") or 1)
    return out


def run_case(case, acc):
    try:
        _run_case(case, acc)
    finally:
        setup()["ps"].PROCFS_PATH = "/vproc"


def _run_case(case, acc):
    env = setup()
    ps, vkernel, ProcTable, tmp = env["ps"], env["vkernel"], env["ProcTable"], env["tmp"]
    pid = case["pid"]
    t = ProcTable(btime=1_700_000_000)
    t.spawn(1, 1, ppid=0, comm=b"init")
    p = t.spawn(pid, 500, ppid=1, comm=b"fdproc")
    entries = {e["fd"]: e for e in case["fds"]}

    def resolve(target):
        if target == "$SHM":
            return DEV_SHM_FILE
        return target.replace("$T", tmp) if target.startswith("$T") else target

    p.fds = {}
    for e in case["fds"]:
        d = dict(target=resolve(e["target"]), pos=e["pos"], flags=e["flags"], info_raw=render_fdinfo(e))
        if e.get("gone"):
            d["gone"] = True
        if e.get("info_gone"):
            d["info_gone"] = True
        p.fds[e["fd"]] = d
    p.io = _b(case["io"])
    if case.get("is_caller"):
        t.fake_getpid = pid              # os.getpid() answers this pid: the process inspects itself
        acc.count("cases_where_the_process_inspects_itself")
    p.fd_reserved = case.get("fd_reserved", 0)     # numbers reserved by system calls in progress (counted by st_size only)
    viols = []

    # where procfs is mounted is the administrator's choice: the mount point may itself contain the directory names the
    # library appends below it
    odd_mount = harness.chash(case)[-3] in "01"
    primary = "/vmnt/fd/task/fdinfo/proc" if odd_mount else "/vproc"
    ps.PROCFS_PATH = primary
    if odd_mount:
        acc.count("cases_with_procfs_mounted_under_directories_called_fd_task_fdinfo")
    moved = harness.chash(case)[-2] in "012"
    if moved:
        # psutil.PROCFS_PATH is re-pointed after the object was made: the object keeps describing the process of the procfs
        # it was created on; under the new path the same pid is somebody else, with the same descriptor numbers
        tb = ProcTable(btime=1_700_000_000)
        tb.spawn(1, 1, ppid=0, comm=b"init")
        pb = tb.spawn(pid, 500, ppid=1, comm=b"somebody else")
        pb.fds = {e["fd"]: dict(target=os.path.join(tmp, "reg0"), pos=99, flags=0o100000,
                                info_raw=b"pos:\t99\nflags:\t0100000\nmnt_id:\t1\n") for e in case["fds"][1:]}
        pb.io = b"rchar: 1\nwchar: 2\nsyscr: 3\nsyscw: 4\nread_bytes: 5\nwrite_bytes: 6\ncancelled_write_bytes: 0\n"
        acc.count("cases_with_procfs_path_moved_after_construction")

    def newvk():
        vk = vkernel.VK()
        vk.table = t
        vk.mount(primary, t)
        if moved:
            vk.mount("/vprocB", tb)
        return vk

    # ---- construction, num_fds, io_counters ---------------------------------------------------
    with newvk():
        try:
            pr = ps.Process(pid)
        except Exception as e:  # noqa: BLE001
            viols.append(("construct_exception", f"Process() raised {e!r}"))
            acc.case(case, nontrivial(case), viols)
            return
        if moved:
            ps.PROCFS_PATH = "/vprocB"
        try:
            got = pr.num_fds()
        except Exception as e:  # noqa: BLE001
            viols.append((f"num_fds_exception:{type(e).__name__}", f"num_fds raised {e!r}"))
        else:
            acc.count("num_fds_comparisons")
            if got != len(case["fds"]) or not isinstance(got, int):
                viols.append(("num_fds_wrong", f"num_fds {got!r} want {len(case['fds'])}"))
        if case["io_feature"] != "plain":
            acc.count("io_cases_with_malformed_lines")
        try:
            io = pr.io_counters()
        except Exception as e:  # noqa: BLE001
            viols.append((f"io_counters_exception:{type(e).__name__}:{case['io_feature']}",
                          f"io_counters raised {e!r} on {_b(case['io'])!r}"))
        else:
            acc.count("io_comparisons")
            bad = [f"{doc}: got {getattr(io, doc, None)!r} want {case['io_vals'][key]}"
                   for doc, key in IO_DOC.items() if getattr(io, doc, None) != case["io_vals"][key]]
            if bad:
                viols.append((f"io_counters_wrong:{case['io_feature']}",
                              "; ".join(bad) + f" on {_b(case['io'])!r}"))

    # ---- open_files ------------------------------------------------------------------------------
    plan = case["plan"]
    closed = set()
    vk = newvk()
    if plan:
        def fault(vk_, kind, path):
            acc.count("plan_faults_fired")
            for fd in plan["close"]:
                if p.fds.pop(fd, None) is not None:
                    closed.add(fd)
            return None
        vk.plan[plan["at"]] = fault
    midscan = bool(plan) or any(e.get("gone") or e.get("info_gone") for e in case["fds"])
    mode3_files = [e["fd"] for e in case["fds"] if e["kind"] in FILE_KINDS and e["flags"] & 3 == 3
                   and not e.get("gone") and not e.get("info_gone")]
    if mode3_files:
        acc.count("mode3_file_cases")
    acc.count("open_files_calls")
    with vk:
        try:
            rows = pr.open_files()
        except Exception as e:  # noqa: BLE001
            if isinstance(e, KeyError) and e.args == (3,) and mode3_files:
                viols.append(("open_files_keyerror_access_mode_3",
                              f"open_files raised {e!r}: fd(s) {mode3_files} are regular files opened with "
                              f"access mode 3 (flags {[oct(entries[f]['flags']) for f in mode3_files]})"))
            else:
                feat = "midscan_close" if midscan else "static_table"
                viols.append((f"open_files_exception:{type(e).__name__}:{feat}",
                              f"open_files raised {e!r} for a live process; plan={plan!r} "
                              f"kinds={sorted({x['kind'] for x in case['fds']})}"))
            rows = None
    if rows is not None:
        if midscan:
            acc.count("midscan_close_survived")
        seen = set()
        for r in rows:
            e = entries.get(r.fd)
            if e is None or r.fd in seen:
                viols.append(("open_files_bogus_entry", f"entry {r!r}: unknown or duplicate fd"))
                continue
            seen.add(r.fd)
            cls = KINDS[e["kind"]][1]
            if e.get("gone") or e.get("info_gone"):
                cls = "NOT"
            if cls == "NOT":
                why = "closed_midscan" if (e.get("gone") or e.get("info_gone")) else e["kind"]
                viols.append((f"open_files_lists_non_file:{why}", f"entry {r!r} for fd target {e['target']!r}"))
                continue
            acc.count("entries_compared")
            full = resolve(e["target"])
            okpaths = {full}
            if cls == "MAY":
                okpaths.add(full[:-10])
            wm = want_mode(e["flags"])
            bad = []
            if r.path not in okpaths:
                bad.append(f"path {r.path!r} want {sorted(okpaths)!r}")
            if r.position != e["pos"]:
                bad.append(f"position {r.position!r} want {e['pos']}")
            if r.flags != e["flags"]:
                bad.append(f"flags {r.flags!r} want {e['flags']} (0{e['flags']:o})")
            if wm is not None and r.mode != wm:
                bad.append(f"mode {r.mode!r} want {wm!r} for flags 0{e['flags']:o}")
            if bad:
                key = "open_files_mode_wrong" if len(bad) == 1 and bad[0].startswith("mode") else \
                    "open_files_entry_wrong"
                viols.append((key, f"fd {r.fd}: " + "; ".join(bad)))
        for e in case["fds"]:
            cls = KINDS[e["kind"]][1]
            vanished = e.get("gone") or e.get("info_gone") or e["fd"] in closed
            if cls == "MUST" and not vanished:
                if e["fd"] not in seen:
                    viols.append((f"open_files_misses_file:{e['kind']}",
                                  f"fd {e['fd']} -> {resolve(e['target'])!r} (existing regular file) not listed; "
                                  f"plan={plan!r}"))
            elif e["fd"] not in seen:
                acc.count("left_out_checked")
    if moved:
        ps.PROCFS_PATH = primary
        viols = [(m + ":procfs_path_moved_after_construction", d) for m, d in viols]
    # descriptors of one and the same kind are treated alike, however the file happens to be called
    if rows is not None:
        listed = {r.fd for r in rows}
        same = [e for e in case["fds"] if e["kind"] == "deleted_recreated" and not (e.get("gone") or e.get("info_gone") or e["fd"] in closed)]
        if len({e["target"] for e in same}) > 1:
            acc.count("tables_with_several_replaced_files")
            inn = sorted(e["target"] for e in same if e["fd"] in listed)
            out_ = sorted(e["target"] for e in same if e["fd"] not in listed)
            if inn and out_:
                viols.append(("open_files_treats_replaced_files_unequally",
                              f"descriptors on files that were replaced on disk (target '<existing file> (deleted)'): listed for "
                              f"{inn}, left out for {out_}"))
    # ---- the same static table through the other call paths (oneshot block, as_dict) ---------------------
    if not midscan:
        def call(fn):
            try:
                return ("ok", fn())
            except Exception as e:  # noqa: BLE001
                return ("exc", type(e).__name__)
        with newvk():
            plain = dict(num_fds=call(pr.num_fds), io_counters=call(pr.io_counters), open_files=call(pr.open_files))
            pr2 = ps.Process(pid)
            with pr2.oneshot():
                pr2.name(), pr2.ppid(), pr2.uids()
                alt = dict(open_files=call(pr2.open_files), io_counters=call(pr2.io_counters), num_fds=call(pr2.num_fds))
            viad = call(lambda: ps.Process(pid).as_dict(attrs=list(plain)))
        for m in plain:
            acc.count("call_path_comparisons")
            if alt[m] != plain[m]:
                viols.append((f"{m}_differs_in_oneshot_block", f"plain {plain[m]!r} vs in oneshot() {alt[m]!r}"[:500]))
        if viad[0] == "ok":
            for m in plain:
                acc.count("call_path_comparisons")
                if plain[m][0] == "ok" and viad[1].get(m) != plain[m][1]:
                    viols.append((f"{m}_differs_via_as_dict", f"plain {plain[m]!r} vs as_dict {viad[1].get(m)!r}"[:500]))
        elif viad[1] not in [r[1] for r in plain.values() if r[0] == "exc"]:
            viols.append((f"as_dict_exception:{viad[1]}", f"as_dict raised {viad[1]}; plain calls {plain!r}"[:500]))
    if odd_mount:
        viols = [(m + ":procfs_mounted_under_fd_task_fdinfo", d + f" [procfs at {primary}]") for m, d in viols]
    acc.case(case, nontrivial(case), viols)


def run_threads_case(cases, seed, acc):
    """Four threads ask open_files / num_fds / io_counters of *different* simulated processes at once (static tables)."""
    from vlib import concur
    env = setup()
    ps, vkernel, ProcTable, tmp = env["ps"], env["vkernel"], env["ProcTable"], env["tmp"]
    t = ProcTable(btime=1_700_000_000)
    t.spawn(1, 1, ppid=0, comm=b"init")
    pids = []
    for k, case in enumerate(cases):
        pid = 500 + k
        p = t.spawn(pid, 500 + k, ppid=1, comm=b"fd%d" % k)
        p.fds = {}
        for e in case["fds"]:
            if e.get("gone") or e.get("info_gone"):
                continue
            target = e["target"].replace("$T", tmp) if e["target"].startswith("$T") else e["target"]
            p.fds[e["fd"]] = dict(target=target, pos=e["pos"], flags=e["flags"], info_raw=render_fdinfo(e))
        p.io = _b(case["io"])
        pids.append(pid)
    vk = vkernel.VK()
    vk.table = t
    vk.mount("/vproc", t)
    with vk:
        jobs = {}
        for pid in pids:
            for m in ("open_files", "num_fds", "io_counters"):
                jobs[f"{m}@{pid}"] = lambda pid=pid, m=m: getattr(ps.Process(pid), m)()
        _b2, errors, wrong = concur.concurrent_vs_sequential(jobs, seed, calls=50)
    acc.count("call_path_comparisons", 200)
    acc.case(dict(kind="threads", seed=seed), True, concur.violations(errors, wrong))


# ---- live kernel: a real child holding descriptors of many kinds ------------------------------------------------

LIVE_CHILD = r"""
import json, os, socket, sys, time
d = sys.argv[1]
keep = []
def reg(name, flags, pos=0, data=b"0123456789" * 50):
    p = os.path.join(d, name)
    if not os.path.exists(p):
        with open(p, "wb") as f:
            f.write(data)
    fd = os.open(p, flags)
    if pos:
        os.lseek(fd, pos, os.SEEK_SET)
    keep.append(fd)
    return fd
reg("plain r.txt", os.O_RDONLY, 7)
reg("w.bin", os.O_WRONLY, 3)
reg("rw.bin", os.O_RDWR, 123)
reg("app.log", os.O_WRONLY | os.O_APPEND)
reg("rwapp.log", os.O_RDWR | os.O_APPEND, 5)
reg("cloexec.txt", os.O_RDONLY | os.O_CLOEXEC)
reg("ro_append.log", os.O_RDONLY | os.O_APPEND, 11)
reg("mode3.dat", 3)
reg("creat_excl.dat", os.O_WRONLY | os.O_CREAT | os.O_TRUNC, 0)
reg("name with\nnewline", os.O_RDONLY)
reg("lit (deleted)", os.O_RDONLY)
reg("sync.dat", os.O_WRONLY | os.O_SYNC | os.O_NONBLOCK)
gone = reg("gone.tmp", os.O_RDWR, 9)
os.unlink(os.path.join(d, "gone.tmp"))
recreated = reg("recreated.tmp", os.O_RDONLY)
os.unlink(os.path.join(d, "recreated.tmp"))
open(os.path.join(d, "recreated.tmp"), "w").close()
keep.append(os.open(d, os.O_RDONLY | os.O_DIRECTORY))
keep.append(os.open("/dev/null", os.O_RDWR))
r, w = os.pipe(); keep += [r, w]
s1 = socket.socket(socket.AF_UNIX); keep.append(s1)
s2 = socket.socket(socket.AF_INET); keep.append(s2)
try:
    keep.append(os.memfd_create("buf"))
except Exception:
    pass
try:
    keep.append(os.eventfd(0))
except Exception:
    pass
import select
keep.append(select.epoll())
# many descriptors with large numbers
for i in range(40):
    keep.append(os.dup2(0, 200 + 13 * i))
# a system call in progress that has reserved a descriptor number but not installed it: open() of a FIFO without writer
import threading
fifo = os.path.join(d, "fifo")
os.mkfifo(fifo)
threading.Thread(target=lambda: os.open(fifo, os.O_RDONLY), daemon=True).start()
time.sleep(0.3)
print("up", flush=True)
while True:
    time.sleep(1000)
"""


def run_live(shard, acc):
    import json
    import stat as statmod
    import subprocess
    import sys
    import time
    ps = setup()["ps"]
    ps.PROCFS_PATH = "/proc"
    tmp = tempfile.mkdtemp(prefix="c14live_", dir=os.environ.get("VERIF_TMP") or None)
    envp = {k: v for k, v in os.environ.items() if k != "LD_PRELOAD"}
    child = subprocess.Popen([sys.executable, "-S", "-c", LIVE_CHILD, tmp], env=envp, stdout=subprocess.PIPE, stdin=subprocess.DEVNULL)
    viols = []
    try:
        if not child.stdout.readline():
            acc.inconclusive = "live child did not start"
            return
        pid = child.pid
        pr = ps.Process(pid)
        # independent reading of the kernel's descriptor table
        ref = {}
        for name in os.listdir(f"/proc/{pid}/fd"):
            fd = int(name)
            target = os.readlink(f"/proc/{pid}/fd/{fd}")
            with open(f"/proc/{pid}/fdinfo/{fd}") as f:
                info = dict(ln.split(":", 1) for ln in f.read().splitlines() if ":" in ln)
            ref[fd] = dict(target=target, pos=int(info["pos"]), flags=int(info["flags"], 8))
        acc.count("live_descriptors_in_table", len(ref))
        got_n = pr.num_fds()
        acc.count("num_fds_comparisons")
        if got_n != len(ref):
            viols.append(("live:num_fds_wrong", f"num_fds() -> {got_n}, /proc/{pid}/fd lists {len(ref)}"))
        rows = pr.open_files()
        acc.count("open_files_calls")
        by_fd = {}
        for r in rows:
            if r.fd in by_fd or r.fd not in ref:
                viols.append(("live:open_files_bogus_entry", f"{r!r}"))
            by_fd[r.fd] = r
        for fd, e in ref.items():
            t = e["target"]
            is_file = False
            if t.startswith("/"):
                try:
                    is_file = statmod.S_ISREG(os.stat(t).st_mode)
                except OSError:
                    is_file = False
            stripped = t[:-10] if t.endswith(" (deleted)") else None
            stripped_is_file = False
            if stripped and not is_file:
                try:
                    stripped_is_file = statmod.S_ISREG(os.stat(stripped).st_mode)
                except OSError:
                    pass
            r = by_fd.get(fd)
            if is_file:
                acc.count("entries_compared")
                if r is None:
                    viols.append(("live:open_files_misses_file", f"fd {fd} -> {t!r} (existing regular file) not listed"))
                    continue
                wm = want_mode(e["flags"])
                bad = []
                if r.path != t:
                    bad.append(f"path {r.path!r} want {t!r}")
                if r.position != e["pos"]:
                    bad.append(f"position {r.position} want {e['pos']}")
                if r.flags != e["flags"]:
                    bad.append(f"flags {r.flags:o} want {e['flags']:o}")
                if wm is not None and r.mode != wm:
                    bad.append(f"mode {r.mode!r} want {wm!r} (flags {e['flags']:o})")
                if bad:
                    viols.append(("live:open_files_entry_wrong", f"fd {fd}: " + "; ".join(bad)))
            elif stripped_is_file:
                acc.count("left_out_checked")       # deleted, another file took the name: either answer (statement silent)
                if r is not None and r.path not in (t, stripped):
                    viols.append(("live:open_files_entry_wrong", f"fd {fd}: path {r.path!r} for link {t!r}"))
            else:
                acc.count("left_out_checked")
                if r is not None:
                    viols.append(("live:open_files_lists_non_file", f"fd {fd} -> {t!r} listed as {r!r}"))
        # io_counters against the kernel's own record (the child sleeps: the figures stand still)
        with open(f"/proc/{pid}/io") as f:
            raw = dict((k.strip(), int(v)) for k, v in (ln.split(":") for ln in f.read().splitlines() if ":" in ln))
        io = pr.io_counters()
        acc.count("io_comparisons")
        for doc, key in IO_DOC.items():
            if getattr(io, doc, None) != raw.get(key):
                viols.append(("live:io_counters_wrong", f"{doc}: got {getattr(io, doc, None)} kernel {key}={raw.get(key)}"))
        # the calling process itself, with a hole below its highest descriptor
        mine = []
        for nm in ("self_a.txt", "self_b.txt", "self_c.txt"):
            pth = os.path.join(tmp, nm)
            with open(pth, "w") as f_:
                f_.write("x")
            mine.append(os.open(pth, os.O_RDONLY))
        try:
            os.close(mine.pop(0))
            me = ps.Process()
            got_self = {r_.fd: r_.path for r_ in me.open_files() if r_.path.startswith(tmp)}
            want_self = {fd: os.readlink(f"/proc/self/fd/{fd}") for fd in mine}
            acc.count("entries_compared", len(want_self))
            if got_self != want_self:
                viols.append(("live:open_files_of_calling_process_wrong", f"got {got_self} want {want_self}"))
            n_self = me.num_fds()
            n_ref = len(os.listdir("/proc/self/fd")) - 1          # minus the descriptor of that very listing
            if n_self not in (n_ref, n_ref + 1):
                viols.append(("live:num_fds_of_calling_process_wrong", f"got {n_self}, table has {n_ref}"))
        finally:
            for fd in mine:
                os.close(fd)
        # the same through oneshot()/as_dict()
        with pr.oneshot():
            if pr.num_fds() != got_n or pr.open_files() != rows or pr.io_counters() != io:
                viols.append(("live:differs_in_oneshot_block", "num_fds/open_files/io_counters"))
        acc.count("call_path_comparisons", 3)
    finally:
        child.kill()
        child.wait()
        child.stdout.close()
        shutil.rmtree(tmp, ignore_errors=True)
    acc.case(dict(kind="live"), True, viols)


# ---- real kernel: descriptors of a real child are closed at each access point of open_files() ---------------------

REALCLOSE_CHILD = r"""
import os, sys
d = sys.argv[1]
fds = {}
for i in range(5):
    p = os.path.join(d, "f%d.dat" % i)
    open(p, "wb").write(b"x" * 100)
    fd = os.open(p, os.O_RDWR)
    os.lseek(fd, 10 * i, os.SEEK_SET)
    fds[i] = fd
print("up " + " ".join("%d:%d" % kv for kv in fds.items()), flush=True)
for line in sys.stdin:
    cmd = line.split()
    if cmd[0] == "close":
        for x in cmd[1:]:
            try:
                os.close(int(x))
            except OSError:
                pass
        print("ok", flush=True)
"""


def run_realclose(shard, acc):
    import subprocess
    import sys
    env = setup()
    ps, vkernel = env["ps"], env["vkernel"]
    ps.PROCFS_PATH = "/proc"
    envp = {k: v for k, v in os.environ.items() if k != "LD_PRELOAD"}

    def one(k, victims_idx):
        tmp = tempfile.mkdtemp(prefix="c14rc_")
        child = subprocess.Popen([sys.executable, "-S", "-c", REALCLOSE_CHILD, tmp], env=envp, stdin=subprocess.PIPE, stdout=subprocess.PIPE,
                                 text=True)
        fired = []
        try:
            head = child.stdout.readline().split()
            if not head or head[0] != "up":
                return None
            fdmap = {int(a.split(":")[0]): int(a.split(":")[1]) for a in head[1:]}
            victims = [fdmap[i] for i in victims_idx]
            vk = vkernel.VK()
            vk.redirect("/proc", "/proc")
            vk.hook_reads = True
            with vk:
                pr = ps.Process(child.pid)
                base = len(vk.log)
                if k is not None:
                    def act(vk_, kind, path):
                        fired.append((kind, path))
                        child.stdin.write("close " + " ".join(map(str, victims)) + "\n")
                        child.stdin.flush()
                        child.stdout.readline()
                        return None
                    vk.plan[base + k] = act
                try:
                    rows = pr.open_files()
                    out = ("ok", rows)
                except Exception as e:  # noqa: BLE001
                    out = ("exc", e)
                n = len(vk.log) - base
            return out, n, fired, fdmap, victims, tmp
        finally:
            child.kill()
            child.wait()
            child.stdin.close()
            child.stdout.close()
            shutil.rmtree(tmp, ignore_errors=True)
    r0 = one(None, [])
    if r0 is None:
        acc.inconclusive = "realclose child did not start"
        return
    n = r0[1]
    acc.extra["realclose_access_points"] = n
    for k in range(n):
        for victims_idx in ([2], [0, 4], [0, 1, 2, 3, 4]):
            r = one(k, victims_idx)
            if r is None:
                continue
            out, _n, fired, fdmap, victims, tmp = r
            viols = []
            case = dict(kind="realclose", k=k, victims=victims_idx)
            if fired:
                acc.count("plan_faults_fired")
                acc.count("real_kernel_closes_fired")
            if out[0] == "exc":
                viols.append((f"open_files_exception:{type(out[1]).__name__}:midscan_close",
                              f"REAL KERNEL: open_files raised {out[1]!r} for a live process; descriptors {victims} closed at access #{k} {fired}"))
            else:
                acc.count("midscan_close_survived")
                got = {r_.fd: r_ for r_ in out[1] if r_.path.startswith(tmp)}
                for i, fd in fdmap.items():
                    want_path = os.path.join(tmp, "f%d.dat" % i)
                    if fd in victims and fired:
                        if fd in got and got[fd].path != want_path:
                            viols.append(("open_files_entry_wrong", f"REAL KERNEL: closed fd {fd}: {got[fd]!r}"))
                        continue
                    acc.count("entries_compared")
                    if fd not in got:
                        viols.append(("open_files_misses_file:reg", f"REAL KERNEL: fd {fd} -> {want_path} not listed after {victims} closed at #{k}"))
                    elif (got[fd].path, got[fd].position, got[fd].mode) != (want_path, 10 * i, "r+"):
                        viols.append(("open_files_entry_wrong", f"REAL KERNEL: fd {fd}: {got[fd]!r}"))
            acc.case(case, bool(fired), viols)


def plan(tier, seed):
    n = 40000 if tier == "quick" else 2_000_000
    shards = [dict(kind="flagwords")]
    for s, c in harness.split_range(n, 16 if tier == "quick" else 48):
        shards.append(dict(kind="gen", seed=seed, start=s, count=c))
    shards.append(dict(kind="live"))
    shards.append(dict(kind="realclose"))
    shards.append(dict(kind="threads", seed=seed, count=15 if tier == "quick" else 400))
    return shards


def run_shard(shard):
    acc = harness.Acc()
    setup()
    try:
        if shard["kind"] == "flagwords":
            for case in flagword_cases():
                run_case(case, acc)
            acc.count("flag_words_enumerated", acc.evals)
            for case in io_corner_cases():
                run_case(case, acc)
            acc.extra["flag_words"] = "all 4 access modes x 2^7 subsets of {O_APPEND,O_CREAT,O_TRUNC,O_CLOEXEC," \
                                      "O_NONBLOCK,O_LARGEFILE,O_DIRECT} on a regular-file descriptor"
        elif shard["kind"] == "gen":
            for i in range(shard["start"], shard["start"] + shard["count"]):
                rng = harness.rng_for(shard["seed"], "c14", i)
                run_case(gen_case(rng), acc)
        elif shard["kind"] == "live":
            run_live(shard, acc)
        elif shard["kind"] == "realclose":
            run_realclose(shard, acc)
        elif shard["kind"] == "threads":
            for i in range(shard["count"]):
                cs = [gen_case(harness.rng_for(shard["seed"], "c14t", i, k)) for k in range(4)]
                run_threads_case(cs, shard["seed"] * 7919 + i, acc)
        elif shard["kind"] == "cases":
            for case in shard["cases"]:
                if case.get("kind") == "threads":
                    cs = [gen_case(harness.rng_for(case["seed"] // 7919, "c14t", case["seed"] % 7919, k)) for k in range(4)]
                    run_threads_case(cs, case["seed"], acc)
                elif case.get("kind") == "realclose":
                    run_realclose({}, acc)
                elif case.get("kind") == "live":
                    run_live({}, acc)
                else:
                    run_case(case, acc)
    finally:
        _cleanup()
    return acc.result()
