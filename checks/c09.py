"""C09 - disk/network counters: exact per-device values, totals never double count; disk_usage arithmetic.

Workload: generated /proc/net/dev and /proc/diskstats texts (vkernel MemFS at /vproc), a generated /sys/block tree
(real temp directory behind a vkernel prefix redirect) and generated statvfs results; the real public functions
net_io_counters(), disk_io_counters() (nowrap=False) and disk_usage() run on them.
Oracle: the numbers the files were rendered from (never a re-parse of the text), sectors x 512, totals = field-wise
sum over interfaces / over whole disks only, the documented None / {} / NotImplementedError conventions.
"""
import atexit
import os
import shutil
import tempfile
from fractions import Fraction

from vlib import harness

ID = "C09"
LEVEL = "exploration"
TECHNIQUE = ("runtime monitor: generated net/dev, diskstats, /sys/block and statvfs under the real "
             "net_io_counters()/disk_io_counters()/disk_usage(), generator ground-truth oracle")
RULE = ("one case = one (net/dev, diskstats|sysfs tree|neither, statvfs) triple: 0-30 interfaces (names with ':' '.' "
        "'-' digits, up to 15 chars, old ':%8lu' and modern ': %7llu' formats, counters to 2**64-1, the 16 columns "
        "pairwise distinct), 0-12 whole disks with 0-4 partitions each (sd/hd/vd/nvme/mmcblk/loop/dm/md/cciss/... "
        "names) in the 14-, 18-, 20-, 14+7- and 15-field layouts, stat counters pairwise distinct. non-trivial = "
        ">= 2 block devices with a disk+partition mix, or a non-14-field layout, or a nasty name (':' '.' '-' '/' "
        "all-digit or 15-char interface; disk whose partitions need the 'p' infix or that contains '/' or '-'); "
        "distinct by case hash")
ASSUMPTIONS = [
    "/proc/net/dev and /proc/diskstats line formats transcribed from net/core/net-procfs.c and block/genhd.c and "
    "compared with the live 6.18 kernel; one file uses one kernel era's layout (2.6.0-2.6.24: 14 fields for disks and "
    "7 for partitions; later: 14, 18 or 20 fields on every line)",
    "the 15-field ('Linux 2.4') layout follows the column meaning documented in the repository itself (comment in "
    "disk_io_counters and test_emulate_kernel_2_4: major minor reads name reads_merged rsect rtime writes "
    "writes_merged wsect wtime inflight busy weighted extra); its kernel provenance is disputable",
    "a whole disk is a device with a directory in /sys/block ('/' in the name stored as '!'); partitions have none",
    "sysfs variant (/proc/diskstats absent): device keys are the sysfs directory names; for names containing '/' both "
    "the kernel name and the '!' spelling are accepted (the statement is silent)",
    "interface names are printable ASCII without '/', whitespace (kernel dev_valid_name) - ':' is allowed (pre-4.15)",
    "disk_usage: used + free = 0 leaves percent undefined, any value in [0,100] is accepted; percent is compared with "
    "tolerance 0.05 (one decimal, either tie direction)",
    "nowrap=False everywhere (C10 owns nowrap)",
]
REQUIRED_COUNTERS = ["nic_rows_compared", "disk_rows_compared", "totals_compared", "usage_compared",
                     "sysfs_variant_cases", "notimplemented_convention_checked", "empty_convention_checked"]

SECTOR = 512          # documented: sectors converted to bytes at 512 B
U64 = 2**64 - 1
NET_FIELDS = ("bytes_sent", "bytes_recv", "packets_sent", "packets_recv", "errin", "errout", "dropin", "dropout")
# column index in /proc/net/dev (after the colon) of each documented field
NET_COL = dict(bytes_recv=0, packets_recv=1, errin=2, dropin=3, bytes_sent=8, packets_sent=9, errout=10, dropout=11)
DISK_FIELDS = ("read_count", "write_count", "read_bytes", "write_bytes", "read_time", "write_time",
               "read_merged_count", "write_merged_count", "busy_time")
# index into the kernel's stat vector: reads rmerged rsect rtime writes wmerged wsect wtime inflight iotime weighted
# discards dmerged dsect dtime flushes ftime
ERAS = {"k26": 11, "k418": 15, "k55": 17, "k26p": 11, "k24": 12}

NET_HEADER = ("Inter-|   Receive                                                |  Transmit\n"
              " face |bytes    packets errs drop fifo frame compressed multicast|bytes    packets errs drop fifo colls "
              "carrier compressed\n")
NET_SPECIAL = ["lo", "eth0", "eth1", "enp0s31f6", "wlp2s0", "wlan0", "br-0123456789ab", "veth0a1b2c3", "docker0",
               "eth0.100", "bond0.4094", "eth0:1", "eth0:0", "a:b:c", "::", ":", "0", "1234", "123456789012345",
               "tun0", "wg0", "ifb0", "virbr0-nic", "vethd3adb33f", "enx00e04c680001", "ip6tnl0", "sit0", "lo:1",
               "1:", ":1", "eth0.1:2", "x", "-", "_", "a.b-c_d:e", "vlan.4094:255", "p2p-wlan0-0", "9:9:9:9:9:9:9:9",
               # characters of the table's own header lines (dev_valid_name() only refuses '/', ':' and white space)
               "br|lan", "|", "face|x", "Inter-|", "bytes"]
NET_ALPHA = "abcdefghijklmnopqrstuvwxyzABCXYZ0123456789" + ".-_:" * 4


# ----------------------------------------------------------------------------------------------
# generation
# ----------------------------------------------------------------------------------------------

def _counter(rng):
    r = rng.random()
    if r < 0.15:
        return rng.choice([0, 1, 2**31 - 1, 2**31, 2**32 - 1, 2**32, 2**32 + 1, 2**63 - 1, 2**63, U64 - 1, U64])
    if r < 0.5:
        return rng.randrange(0, 10**6)
    if r < 0.8:
        return rng.randrange(0, 2**40)
    return rng.randrange(0, U64 + 1)


def _distinct(rng, n):
    out = []
    seen = set()
    while len(out) < n:
        v = _counter(rng)
        if v in seen:
            v = rng.randrange(0, U64 + 1)
            if v in seen:
                continue
        seen.add(v)
        out.append(v)
    return out


def gen_net(rng):
    r = rng.random()
    if r < 0.04:
        return dict(style="modern", header=False, ifaces=[])           # empty file
    n = rng.choice([0, 1, 1, 2, 2, 3, 4, 5, 8, 13, 30, rng.randrange(0, 31)])
    names = []
    while len(names) < n:
        if rng.random() < 0.5:
            nm = rng.choice(NET_SPECIAL)
        else:
            ln = rng.choice([1, 2, 3, 4, 5, 6, 7, 8, 12, 15, 15])
            nm = "".join(rng.choice(NET_ALPHA) for _ in range(ln))
        if nm in (".", "..") or nm in names:
            continue
        names.append(nm)
    ifaces = []
    for nm in names:
        if rng.random() < 0.8:
            v = _distinct(rng, 16)
        else:       # a quiet interface as the kernel really shows it
            b, p = rng.randrange(0, 2**40), rng.randrange(0, 10**7)
            v = [b, p, 0, 0, 0, 0, 0, 0, b if nm == "lo" else rng.randrange(0, 2**40), p, 0, 0, 0, 0, 0, 0]
        ifaces.append(dict(name=nm, v=v))
    return dict(style=rng.choice(["modern", "modern", "old"]), header=True, ifaces=ifaces)


def render_net(net):
    if not net["header"]:
        return b""
    out = [NET_HEADER]
    for it in net["ifaces"]:
        v = it["v"]
        if net["style"] == "modern":
            fmt = "%6s: %7d %7d %4d %4d %4d %5d %10d %9d %8d %7d %4d %4d %4d %5d %7d %10d\n"
        else:           # 2.x kernels: no blank after the colon
            fmt = "%6s:%8d %7d %4d %4d %4d %5d %10d %9d %8d %7d %4d %4d %4d %5d %7d %10d\n"
        out.append(fmt % ((it["name"],) + tuple(v)))
    return "".join(out).encode("latin-1")


def _disk_name(rng):
    """-> (name, can_have_partitions)"""
    t = rng.randrange(26)
    let = rng.choice("abcdefghijklmnopqrstuvwxyz")
    n, m = rng.choice([0, 0, 1, 2, 7, 10, 127]), rng.choice([0, 1, 2, 12])
    table = [
        (f"sd{let}", True), (f"sd{let}", True), (f"hd{let}", True), (f"vd{let}", True), (f"xvd{let}", True),
        (f"nvme{n}n{m + 1}", True), (f"nvme{n}n{m + 1}", True), (f"mmcblk{n}", True), (f"loop{n}", True),
        (f"loop{n}", False), (f"dm-{n}", False), (f"dm-{n}", False), (f"md{n}", True), (f"ram{n}", False),
        (f"sr{n}", False), (f"zram{n}", False), (f"nbd{n}", True), (f"cciss/c{n}d{m}", True),
        (f"cciss/c{n}d{m}", True), (f"ida/c{n}d{m}", True), (f"rd/c{n}d{m}", True), (f"fd{n}", False),
        (f"pmem{n}", True), (f"sda{let}", True), (f"dasd{let}", True), (f"etherd/e{n}.{m}", True),
    ]
    return table[t]


def gen_disk(rng):
    r = rng.random()
    if r < 0.05:
        mode = "none"
    elif r < 0.22:
        mode = "sysfs"
    else:
        mode = "procfs"
    era = rng.choice(["k26", "k26", "k418", "k55", "k55", "k26p", "k24"])
    if mode == "sysfs" and era in ("k26p", "k24"):
        era = "k26"
    devs = []
    if mode == "procfs" and rng.random() < 0.012:
        # a big LVM / multipath host: the table is longer than one 32 KiB read buffer
        for i in range(rng.choice([340, 420, 700])):
            devs.append(dict(name="dm-%d" % i, whole=True, major=253, minor=i, v=_distinct(rng, 17)))
        return dict(mode=mode, era=era, devs=devs)
    if mode != "none" and rng.random() > 0.06:
        nd = rng.choice([1, 1, 2, 2, 3, 4, 6, 12])
        names = set()
        minor = 0
        for _ in range(nd):
            nm, parts = _disk_name(rng)
            if nm in names:
                continue
            names.add(nm)
            major = rng.choice([8, 3, 7, 9, 253, 259, 179, 104, 65, 202, 43])
            devs.append(dict(name=nm, whole=True, major=major, minor=minor, v=_distinct(rng, 17)))
            minor += 16
            if parts:
                np_ = rng.choice([0, 0, 1, 2, 3, 4])
                used = set()
                for _ in range(np_):
                    k = rng.choice([1, 2, 3, 5, 9, 10, 15, 128])
                    if k in used:
                        continue
                    used.add(k)
                    pn = nm + ("p" if nm[-1].isdigit() else "") + str(k)
                    devs.append(dict(name=pn, whole=False, parent=nm, major=major, minor=minor - 16 + len(used),
                                     v=_distinct(rng, 17)))
    r2 = rng.random()
    if devs and r2 < 0.06:
        # a machine that has not done any I/O yet (just booted VM, container seeing only idle loop/ram/data disks): the disks are
        # listed all the same - every counter of every whole disk (or of every device) reads zero
        for d in devs:
            if d["whole"] or r2 < 0.03:
                d["v"] = [0] * len(d["v"])
    out = dict(mode=mode, era=era, devs=devs)
    if mode == "procfs" and rng.random() < 0.2:
        # /sys/block knows devices the procfs psutil was told to read does not list (PROCFS_PATH names a container's or
        # another host's procfs): only what diskstats lists is reported
        taken = {d["name"] for d in devs}
        out["ghosts"] = [dict(name=nm, whole=True, major=254, minor=16 * i, v=_distinct(rng, 17))
                         for i, nm in enumerate(rng.sample(["vdz", "nvme9n1", "sdzz", "md127"], rng.choice([1, 2])))
                         if nm not in taken]
    return out


def render_diskstats(disk):
    era = disk["era"]
    out = []
    for d in disk["devs"]:
        v = d["v"]
        if era == "k24":
            f = [d["major"], d["minor"], v[0], d["name"]] + v[1:12]
            out.append("%4d %5d %s %s %s\n" % (f[0], f[1], f[2], f[3], " ".join(map(str, f[4:]))))
            continue
        if era == "k26p" and not d["whole"]:
            out.append("%4d %4d %s %d %d %d %d\n" % (d["major"], d["minor"], d["name"], v[0], v[2], v[4], v[6]))
            continue
        out.append("%4d %7d %s %s\n" % (d["major"], d["minor"], d["name"], " ".join(map(str, v[:ERAS[era]]))))
    return "".join(out).encode()


def render_sysfs_stat(disk, d):
    return (" ".join("%8d" % x for x in d["v"][:ERAS[disk["era"]]]) + "\n").encode()


def gen_statvfs(rng):
    frsize = rng.choice([512, 1024, 4096, 4096, 4096, 65536, 1048576, 1])
    bsize = rng.choice([frsize, frsize, 4096, 1048576, 512, 131072])
    r = rng.random()
    if r < 0.08:
        blocks = bfree = bavail = 0                              # pseudo filesystems
    else:
        blocks = rng.choice([rng.randrange(1, 1000), rng.randrange(1, 2**24), rng.randrange(1, 2**40),
                             rng.randrange(1, 2**63), U64])
        bfree = rng.choice([0, blocks, rng.randrange(0, blocks + 1), rng.randrange(0, blocks + 1)])
        k = rng.random()
        if k < 0.45:
            bavail = max(0, bfree - rng.choice([blocks // 20, blocks // 100, 1]))       # root reserve
        elif k < 0.6:
            bavail = 0
        elif k < 0.9:
            bavail = bfree
        else:
            bavail = rng.randrange(0, bfree + 1)
        if rng.random() < 0.03:      # seen on odd network / fuse filesystems
            bavail = bfree + rng.randrange(1, 1000)
        if rng.random() < 0.02:
            bfree = blocks + rng.randrange(1, 1000)
    files = rng.randrange(0, 2**32)
    ffree = rng.randrange(0, files + 1)
    return [bsize, frsize, blocks, bfree, bavail, files, ffree, ffree, rng.choice([0, 1, 4096, 1024]), 255]


def gen_case(rng):
    case = dict(net=gen_net(rng), disk=gen_disk(rng), statvfs=gen_statvfs(rng),
                path=rng.choice(["/", "/home", "/mnt/data with space", "/vproc", "."]))
    whole = [d["name"] for d in case["disk"]["devs"] if d["whole"]]
    if case["disk"]["mode"] == "procfs" and whole and rng.random() < 0.15:
        # hot-unplug / re-plug between calls of one program: the device's /sys/block directory goes and comes back while
        # /proc/diskstats keeps listing it
        case["hotplug"] = rng.choice(whole)
    return case


# ----------------------------------------------------------------------------------------------
# oracle helpers
# ----------------------------------------------------------------------------------------------

def net_nasty(name):
    return any(c in name for c in ":.-") or name.isdigit() or len(name) == 15


def disk_nasty(d):
    return "/" in d["name"] or "-" in d["name"] or (not d["whole"] and d["parent"][-1].isdigit())


def nontrivial(case):
    devs = case["disk"]["devs"]
    if len(devs) >= 2 and any(d["whole"] for d in devs) and any(not d["whole"] for d in devs):
        return True
    if devs and case["disk"]["mode"] == "procfs" and case["disk"]["era"] != "k26":
        return True
    return any(net_nasty(i["name"]) for i in case["net"]["ifaces"]) or any(disk_nasty(d) for d in devs)


def disk_expected(disk, d):
    """documented field -> value, from the generator's numbers"""
    v = d["v"]
    if disk["mode"] == "procfs" and disk["era"] == "k26p" and not d["whole"]:
        return dict(read_count=v[0], write_count=v[4], read_bytes=v[2] * SECTOR, write_bytes=v[6] * SECTOR,
                    read_time=0, write_time=0, read_merged_count=0, write_merged_count=0, busy_time=0)
    return dict(read_count=v[0], write_count=v[4], read_bytes=v[2] * SECTOR, write_bytes=v[6] * SECTOR,
                read_time=v[3], write_time=v[7], read_merged_count=v[1], write_merged_count=v[5], busy_time=v[9])


def pct_ok(got, num, den):
    if not isinstance(got, float) or got != got:
        return False
    if den == 0:
        return 0.0 <= got <= 100.0
    if abs(Fraction(got) - Fraction(100 * num, den)) > Fraction(1, 20) + Fraction(1, 10**9):
        # floats cannot carry 2**80-scale operands exactly; allow the relative error of one float division
        return abs(Fraction(got) - Fraction(100 * num, den)) <= Fraction(1, 20) + abs(Fraction(100 * num, den)) / 2**50
    return True


def tuple_fields(got, fields):
    """-> (dict field -> value, problem|None) read by documented *name*"""
    out = {}
    for f in fields:
        try:
            out[f] = getattr(got, f)
        except AttributeError:
            return None, f"no field {f!r} in {got!r}"
        if type(out[f]) is not int:
            return None, f"field {f} is {type(out[f]).__name__} in {got!r}"
    return out, None


# ----------------------------------------------------------------------------------------------
# execution
# ----------------------------------------------------------------------------------------------

_env = {}


def setup():
    if _env:
        return _env
    from vlib import psu, vkernel
    ps = psu.load()
    ps.PROCFS_PATH = "/vproc"
    base = tempfile.mkdtemp(prefix="verif_c09_", dir="/dev/shm" if os.path.isdir("/dev/shm") else None)
    atexit.register(shutil.rmtree, base, True)
    _env.update(ps=ps, vkernel=vkernel, base=base, n=0)
    return _env


def build_sysblock(env, disk):
    """real directory standing in for /sys/block; returns its path (nonexistent for mode 'none')"""
    env["n"] += 1
    root = os.path.join(env["base"], "b%d" % env["n"])
    if disk["mode"] == "none":
        return root
    os.mkdir(root)
    for d in disk["devs"]:
        if not d["whole"]:
            continue
        dd = os.path.join(root, d["name"].replace("/", "!"))
        os.mkdir(dd)
        # what real kernels publish about the device's own sector size (4K-native disks say 4096): the sector *counters*
        # of diskstats / sysfs stat are in 512-byte units regardless
        ss = (512, 512, 4096, 4096, 520)[sum(map(ord, d["name"])) % 5]
        os.mkdir(os.path.join(dd, "queue"))
        for fn in ("hw_sector_size", "logical_block_size", "physical_block_size"):
            with open(os.path.join(dd, "queue", fn), "wb") as f:
                f.write(b"%d\n" % ss)
        if disk["mode"] == "sysfs":
            with open(os.path.join(dd, "stat"), "wb") as f:
                f.write(render_sysfs_stat(disk, d))
            with open(os.path.join(dd, "size"), "wb") as f:
                f.write(b"1953525168\n")
            for sub in ("holders", "power"):
                os.mkdir(os.path.join(dd, sub))
            with open(os.path.join(dd, "queue", "rotational"), "wb") as f:
                f.write(b"0\n")
    for d in disk.get("ghosts", ()):
        dd = os.path.join(root, d["name"])
        os.makedirs(os.path.join(dd, "queue"))
        for fn, data in (("stat", render_sysfs_stat(disk if disk["era"] not in ("k26p", "k24") else dict(disk, era="k26"), d)),
                         ("size", b"1953525168\n"), ("queue/hw_sector_size", b"512\n"), ("queue/rotational", b"0\n")):
            with open(os.path.join(dd, fn), "wb") as f:
                f.write(data)
    if disk["mode"] == "sysfs":
        for d in disk["devs"]:
            if d["whole"]:
                continue
            pd = os.path.join(root, d["parent"].replace("/", "!"), d["name"].replace("/", "!"))
            os.mkdir(pd)
            with open(os.path.join(pd, "stat"), "wb") as f:
                f.write(render_sysfs_stat(disk, d))
            with open(os.path.join(pd, "partition"), "wb") as f:
                f.write(b"1\n")
    return root


def check_net(case, ps, acc, viols):
    net = case["net"]
    ifaces = net["ifaces"]
    ctx = f"net/dev={render_net(net)[len(NET_HEADER):][:600]!r}"
    want = {}
    for it in ifaces:
        want[it["name"]] = {f: it["v"][NET_COL[f]] for f in NET_FIELDS}
    feature = ("colon_in_name" if any(":" in n for n in want) else "old_format_no_blank" if net["style"] == "old"
               else "plain")
    acc.count("net_format:" + (net["style"] if net["header"] else "empty_file"))
    try:
        got = ps.net_io_counters(pernic=True, nowrap=False)
    except Exception as e:  # noqa: BLE001
        viols.append((f"net_pernic_exception:{type(e).__name__}:{feature}", f"net_io_counters(pernic=True) raised "
                      f"{e!r}: {ctx}"))
        got = None
    if got is not None:
        if not ifaces:
            acc.count("empty_convention_checked")
            if got != {} or not isinstance(got, dict):
                viols.append(("net_empty_convention:pernic", f"no interface listed: want {{}} got {got!r}"))
        elif not isinstance(got, dict) or set(got) != set(want):
            viols.append((f"net_names_wrong:{feature}", f"interface names got {sorted(got)!r} want {sorted(want)!r}"))
        else:
            for nm, w in want.items():
                acc.count("nic_rows_compared")
                g, prob = tuple_fields(got[nm], NET_FIELDS)
                if prob:
                    viols.append(("net_tuple_malformed", f"{nm}: {prob}"))
                    break
                bad = [f for f in NET_FIELDS if g[f] != w[f]]
                if bad:
                    viols.append((f"net_field_wrong:{bad[0]}", f"{nm}: fields {bad} got {got[nm]!r} want {w}: {ctx}"))
                    break
    try:
        tot = ps.net_io_counters(pernic=False, nowrap=False)
    except Exception as e:  # noqa: BLE001
        viols.append((f"net_total_exception:{type(e).__name__}:{feature}", f"net_io_counters() raised {e!r}: {ctx}"))
        return
    if not ifaces:
        acc.count("empty_convention_checked")
        if tot is not None:
            viols.append(("net_empty_convention:total", f"no interface listed: want None got {tot!r}"))
        return
    acc.count("totals_compared")
    if tot is None:
        viols.append(("net_total_wrong:none", f"{len(ifaces)} interfaces listed but total is None: {ctx}"))
        return
    g, prob = tuple_fields(tot, NET_FIELDS)
    if prob:
        viols.append(("net_tuple_malformed", f"total: {prob}"))
        return
    wsum = {f: sum(w[f] for w in want.values()) for f in NET_FIELDS}
    bad = [f for f in NET_FIELDS if g[f] != wsum[f]]
    if bad:
        viols.append((f"net_total_wrong:{bad[0]}", f"fields {bad} got {tot!r} want {wsum}: {ctx}"))


def check_disk(case, ps, acc, viols):
    disk = case["disk"]
    devs = disk["devs"]
    mode, era = disk["mode"], disk["era"]
    layout = {"none": "absent", "sysfs": "sysfs"}.get(mode, era)
    ctx = f"mode={mode} era={era} devs={[(d['name'], d['whole']) for d in devs]}"
    if mode == "procfs":
        ctx += f" diskstats={render_diskstats(disk)[:700]!r}"
    res = {}
    for perdisk in (True, False):
        try:
            res[perdisk] = ("ok", ps.disk_io_counters(perdisk=perdisk, nowrap=False))
        except NotImplementedError as e:
            res[perdisk] = ("nie", e)
        except Exception as e:  # noqa: BLE001
            res[perdisk] = ("exc", e)
    if mode == "none":
        for perdisk in (True, False):
            acc.count("notimplemented_convention_checked")
            if res[perdisk][0] != "nie":
                viols.append(("disk_absent_convention", f"neither diskstats nor /sys/block exist: want "
                              f"NotImplementedError, got {res[perdisk]!r} (perdisk={perdisk})"))
        return
    for perdisk in (True, False):
        if res[perdisk][0] != "ok":
            e = res[perdisk][1]
            viols.append((f"disk_exception:{type(e).__name__}:{layout}", f"disk_io_counters(perdisk={perdisk}) raised "
                          f"{e!r}: {ctx}"))
    if mode == "sysfs":
        acc.count("sysfs_variant_cases")
    if devs:
        acc.count("layout:" + layout)
    want = {d["name"]: disk_expected(disk, d) for d in devs}
    # per device
    if res[True][0] == "ok":
        got = res[True][1]
        if not devs:
            acc.count("empty_convention_checked")
            if got != {} or not isinstance(got, dict):
                viols.append(("disk_empty_convention:perdisk", f"no device listed: want {{}} got {got!r}"))
        elif not isinstance(got, dict):
            viols.append(("disk_names_wrong", f"want a dict, got {got!r}"))
        else:
            keymap = {}
            for nm in want:
                if nm in got:
                    keymap[nm] = nm
                elif mode == "sysfs" and nm.replace("/", "!") in got:
                    keymap[nm] = nm.replace("/", "!")
            if len(keymap) != len(want) or len(got) != len(want):
                feat = "slash_in_name" if any("/" in n for n in want) else "plain"
                viols.append((f"disk_names_wrong:{layout}:{feat}", f"device names got {sorted(got)!r} want "
                              f"{sorted(want)!r}: {ctx}"))
            else:
                for nm, w in want.items():
                    acc.count("disk_rows_compared")
                    g, prob = tuple_fields(got[keymap[nm]], DISK_FIELDS)
                    if prob:
                        viols.append(("disk_tuple_malformed", f"{nm}: {prob}"))
                        break
                    bad = [f for f in DISK_FIELDS if g[f] != w[f]]
                    if bad:
                        viols.append((f"disk_field_wrong:{layout}:{bad[0]}",
                                      f"{nm}: fields {bad} got {got[keymap[nm]]!r} want {w}: {ctx}"))
                        break
    # system-wide: whole disks only
    if res[False][0] == "ok":
        tot = res[False][1]
        whole = [d["name"] for d in devs if d["whole"] and d["name"] not in case.get("_unplugged", ())]
        if not whole:
            acc.count("empty_convention_checked")
            if tot is not None:
                viols.append(("disk_empty_convention:total", f"no disk listed: want None got {tot!r}"))
            return
        acc.count("totals_compared")
        if tot is None:
            viols.append((f"disk_total_wrong:{layout}:none", f"{len(whole)} whole disks but total is None: {ctx}"))
            return
        g, prob = tuple_fields(tot, DISK_FIELDS)
        if prob:
            viols.append(("disk_tuple_malformed", f"total: {prob}"))
            return
        wsum = {f: sum(want[n][f] for n in whole) for f in DISK_FIELDS}
        bad = [f for f in DISK_FIELDS if g[f] != wsum[f]]
        if bad:
            allsum = {f: sum(w[f] for w in want.values()) for f in DISK_FIELDS}
            partsum = {f: allsum[f] - wsum[f] for f in DISK_FIELDS}
            if len(whole) < len(devs) and all(g[f] == allsum[f] for f in DISK_FIELDS):
                why = "partitions_counted_too"
            elif len(whole) < len(devs) and all(g[f] == partsum[f] for f in DISK_FIELDS):
                why = "partitions_instead_of_disks"
            else:
                why = bad[0]
            viols.append((f"disk_total_wrong:{layout}:{why}", f"fields {bad} got {tot!r} want sum over whole disks "
                          f"{whole} = {wsum}: {ctx}"))


def check_usage(case, ps, acc, viols):
    sv = case["statvfs"]
    calls = []
    real = os.statvfs

    def fake(path, *a, **k):
        calls.append(path)
        return os.statvfs_result(tuple(sv))

    os.statvfs = fake
    try:
        try:
            got = ps.disk_usage(case["path"])
        except Exception as e:  # noqa: BLE001
            viols.append((f"usage_exception:{type(e).__name__}", f"disk_usage raised {e!r} for statvfs {sv}"))
            return
    finally:
        os.statvfs = real
    acc.count("usage_compared")
    _bsize, frsize, blocks, bfree, bavail = sv[:5]
    ctx = f"statvfs(bsize, frsize, blocks, bfree, bavail)={sv[:5]} got={got!r}"
    if calls != [case["path"]]:
        viols.append(("usage_wrong_path", f"statvfs called with {calls!r}, path was {case['path']!r}"))
    want = dict(total=blocks * frsize, used=(blocks - bfree) * frsize, free=bavail * frsize)
    for f, w in want.items():
        try:
            g = getattr(got, f)
        except AttributeError:
            viols.append((f"usage_field_missing:{f}", ctx))
            return
        if g != w or type(g) is not int:
            viols.append((f"usage_wrong:{f}", f"{f}={g!r} want {w}: {ctx}"))
    try:
        pc = got.percent
    except AttributeError:
        viols.append(("usage_field_missing:percent", ctx))
        return
    if not pct_ok(pc, want["used"], want["used"] + want["free"]):
        viols.append(("usage_wrong:percent", f"percent={pc!r} want used/(used+free)*100 with used={want['used']} "
                      f"free={want['free']}: {ctx}"))
    elif round(pc, 1) != pc:
        viols.append(("usage_wrong:percent_not_one_decimal", f"percent={pc!r}: {ctx}"))


def run_case(case, acc):
    env = setup()
    ps, vkernel = env["ps"], env["vkernel"]
    fs = vkernel.MemFS()
    fs.put("net/dev", render_net(case["net"]))
    fs.put("stat", b"cpu  1 2 3 4 5 6 7 8 9 10\n")        # keeps /vproc a populated directory in every variant
    if case["disk"]["mode"] == "procfs":
        fs.put("diskstats", render_diskstats(case["disk"]))
    root = build_sysblock(env, case["disk"])
    vk = vkernel.VK()
    vk.mount("/vproc", fs)
    vk.redirect("/sys/block", root)
    # sysfs directories list their entries in no particular order
    h = harness.chash(case)[-3]
    if h in "0123":
        vk.list_order = (lambda p, names: sorted(names)) if h in "01" else (lambda p, names: sorted(names, reverse=True))
    viols = []
    try:
        with vk:
            check_net(case, ps, acc, viols)
            check_disk(case, ps, acc, viols)
            if case.get("hotplug"):
                import copy
                hp = os.path.join(root, case["hotplug"].replace("/", "!"))
                for phase in ("absent", "present"):
                    v2 = []
                    if phase == "absent":
                        shutil.rmtree(hp, ignore_errors=True)
                        # the records are what they were; only the set of whole disks (devices /sys/block knows) shrank
                        check_disk(dict(case, _unplugged=(case["hotplug"],)), ps, acc, v2)
                    else:
                        os.mkdir(hp)
                        check_disk(case, ps, acc, v2)
                    acc.count("sysfs_changes_between_calls")
                    viols.extend((m + ":after_sysfs_change", f"[{case['hotplug']} {phase} in /sys/block] " + d_) for m, d_ in v2)
            # the default form (nowrap=True) over two successive tables: an interface goes away, nothing else moves - the total
            # is the sum over the interfaces listed now (no counter went backwards, so there is nothing to add)
            ifs = case["net"]["ifaces"]
            if len(ifs) >= 2 and harness.chash(case)[-1] in "0123":
                ps.net_io_counters.cache_clear()
                try:
                    ps.net_io_counters()
                    gone_nic = max(ifs, key=lambda it: sum(it["v"]))
                    net2 = dict(case["net"], ifaces=[it for it in ifs if it is not gone_nic])
                    fs.put("net/dev", render_net(net2))
                    tot2 = ps.net_io_counters()
                    want2 = tuple(sum(it["v"][NET_COL[f]] for it in net2["ifaces"]) for f in NET_FIELDS)
                    acc.count("totals_after_an_interface_went_away")
                    if tot2 is None or tuple(tot2) != want2:
                        viols.append(("net_total_wrong:after_interface_went_away",
                                      f"net_io_counters() after {gone_nic['name']} left the table: got {tot2!r} want {want2}"))
                except Exception as e:  # noqa: BLE001
                    viols.append((f"net_total_exception:{type(e).__name__}:after_interface_went_away", repr(e)))
                finally:
                    fs.put("net/dev", render_net(case["net"]))
                    ps.net_io_counters.cache_clear()
            check_usage(case, ps, acc, viols)
    finally:
        if os.path.isdir(root):
            shutil.rmtree(root, ignore_errors=True)
    if case["disk"]["mode"] == "sysfs" and case["disk"]["devs"]:
        if not any(k == "open" and p.startswith("/sys/block/") and p.endswith("/stat") for k, p in vk.log):
            acc.inconclusive = "sysfs variant never opened a generated /sys/block/*/stat"
    acc.case(case, nontrivial(case), viols)


def plan(tier, seed):
    n = 20000 if tier == "quick" else 640_000
    shards = []
    for s, c in harness.split_range(n, 16 if tier == "quick" else 48):
        shards.append(dict(kind="gen", seed=seed, start=s, count=c))
    return shards


def run_shard(shard):
    acc = harness.Acc()
    setup()
    if shard["kind"] == "gen":
        for i in range(shard["start"], shard["start"] + shard["count"]):
            rng = harness.rng_for(shard["seed"], "c09", i)
            run_case(gen_case(rng), acc)
    elif shard["kind"] == "cases":
        for case in shard["cases"]:
            run_case(case, acc)
    return acc.result()
