"""C04 - pids(), pid_exists() and process_iter() give one coherent, cached process list.

Process-table histories (spawn/exit/reuse/zombie/threads) interleaved with pids(), pid_exists(n),
full / partially consumed / mid-iteration-disturbed process_iter(attrs?), cache_clear(), is_running()
on cached objects; object identity (`is`) is checked against a reference model of the cache.
Two concurrent iterators run under the deterministic scheduler.
"""
from vlib import harness

ID = "C04"
LEVEL = "exploration"
ENGINE = "vkernel+sched"
TECHNIQUE = "runtime monitor: cache reference model (object identity) over generated process-table histories; bounded-preemption schedules of two concurrent iterators"
RULE = ("one case = a history over a simulated process table (pids + hidden thread ids) of table changes, pids(), pid_exists(n) "
        "for n in listed/thread-id/absent/{0,-1,-2**70,2**31-1,2**31,2**32+5,2**63,2**64,10**30}, process_iter() fully or partly "
        "consumed, with table changes applied between listing and visit, attrs=[...], cache_clear(), is_running() on cached "
        "objects. Part 2: two threads iterating at once (after a flagged reuse / during table changes), all <=2-pre-emption "
        "schedules + sampled 3-4. non-trivial = history with an eviction, a flagged-reuse refresh, a cache_clear or a "
        "mid-iteration change, resp. schedule with >=2 context switches; distinct by history hash")
ASSUMPTIONS = [
    "a cached entry may legitimately survive a pid that vanished and came back between two iterations (the cache only learns at listing instants or from is_running())",
    "for a pid that vanishes after the listing instant the iterator may skip it or yield the cached object",
    "every pid that is listed at the listing instant and stays alive until the iterator is exhausted must be yielded exactly once, ascending",
    "os.kill() raises OverflowError for values outside C int before any syscall (emulated by the sink exactly as CPython does)",
]
REQUIRED_COUNTERS = ["iterations_checked", "identity_assertions", "pid_exists_checked", "schedules_run"]
SHARD_TIMEOUT = 2400

SPECIAL = [0, -1, -2**70, 2**31 - 1, 2**31, 2**32 + 5, 2**63, 2**64, 10**30]
ATTRS = [["name"], ["pid", "ppid", "status"], ["cpu_times", "name", "num_threads"], []]

_env = {}


def setup():
    if not _env:
        from vlib import histories, psu, sched
        ps = psu.load()
        codes = {ps.process_iter.__code__: None, ps.Process.is_running.__code__: None, ps.pids.__code__: None}
        _env.update(ps=ps, H=histories, sched=sched, codes=codes)
    return _env


def gen_history(rng):
    pids = [7, 8, 9, 10, 11]
    state = {p: "free" for p in pids}
    hist = []
    tid = 100
    for p in pids[:rng.randrange(1, 4)]:
        hist.append(["spawn", p, False])
        state[p] = "live"
    for _ in range(rng.randrange(4, 26)):
        r = rng.random()
        p = rng.choice(pids)
        if r < 0.12:
            if state[p] == "free":
                z = rng.random() < 0.2
                if rng.random() < 0.15:
                    # names that look like fields of /proc/<pid>/status (the kernel does not escape tabs in Name:)
                    hist.append(["spawn", p, z, None, rng.choice(["Tgid:\t1", "Tgid:\t%d" % (p + 1), "Pid:\t1", "Tgid:\t99999"])])
                else:
                    hist.append(["spawn", p, z])
                state[p] = "zombie" if z else "live"
        elif r < 0.18:
            if state[p] == "live":
                hist.append(["exit", p])
                state[p] = "zombie"
        elif r < 0.30:
            if state[p] == "zombie":
                hist.append(["reap", p])
                state[p] = "free"
            elif state[p] == "live":
                hist.append(["vanish", p])
                state[p] = "free"
        elif r < 0.34:
            if state[p] == "live":
                tid += 1
                if rng.random() < 0.4:
                    hist.append(["thread", p, tid, rng.choice(["Tgid:\t%d" % tid, "Tgid:\t%d" % p, "Tgid:\t1"])])
                else:
                    hist.append(["thread", p, tid])
        elif r < 0.42:
            hist.append(["pids"])
        elif r < 0.55:
            n = rng.choice(pids + [tid, tid - 1, 55, 99999] + SPECIAL)
            hist.append(["pidex", n])
        elif r < 0.75:
            k = rng.random()
            if k < 0.55:
                hist.append(["iter", None, None, None])
            elif k < 0.7:
                hist.append(["iter", rng.randrange(0, 4), None, None])            # partial
            elif k < 0.85:
                hist.append(["iter", None, None, rng.choice(ATTRS)])
            else:
                # disturbed: after `at` yields apply a table change
                q = rng.choice(pids)
                hist.append(["iter", None, [rng.randrange(0, 5), rng.choice(["vanish", "spawn", "respawn", "respawn_isrun", "respawn_isrun"]), q], None])
        elif r < 0.80:
            hist.append(["clear"])
        elif r < 0.93:
            hist.append(["isrun_cached", p])
        else:
            hist.append(["respawn", p])       # exit+reap+spawn at once: pid re-used by a new process
    hist.append(["iter", None, None, None])
    return hist


def run_history(hist, acc):
    env = setup()
    ps, H = env["ps"], env["H"]
    w = H.World(ps)
    viols = []
    nontrivial = False
    ctx = f"history={hist}"
    model = {}            # pid -> (object, inc) as the statement's cache
    ever = {}             # pid -> list of objects ever yielded
    flagged = set()       # pids flagged recycled by is_running() since the last iteration
    obj_inc = {}          # id(object) -> (object, incarnation it was created for)
    said_false = set()    # objects whose is_running() already answered False (later answers find nothing new)
    must_be_fresh = {}    # pid -> objects that must NOT be yielded again (flagged reuse / cache_clear)

    def table_op(op):
        k = op[0]
        t = w.t
        if k == "spawn":
            if op[1] not in t.procs:
                w.apply(tuple(op))
        elif k == "exit":
            if op[1] in t.procs and not t.procs[op[1]].zombie:
                w.apply(tuple(op))
        elif k == "reap":
            if op[1] in t.procs and t.procs[op[1]].zombie:
                w.apply(tuple(op))
        elif k == "vanish":
            if op[1] in t.procs:
                w.apply(tuple(op))
        elif k == "thread":
            if op[1] in t.procs:
                w.apply(tuple(op))
        elif k == "respawn":
            if op[1] in t.procs:
                w.apply(("vanish", op[1]))
            w.apply(("spawn", op[1], False))

    with w:
        for idx, op in enumerate(hist):
            k = op[0]
            if k in ("spawn", "exit", "reap", "vanish", "thread", "respawn"):
                table_op(op)
            elif k == "pids":
                rec = w.apply(("pids",))
                acc.count("pids_checked")
                if rec["res"] != ("ok", rec["model"]):
                    viols.append(("pids_wrong", ctx + f" op#{idx} got={rec['res']} want={rec['model']}"))
            elif k == "pidex":
                rec = w.apply(("pidex", op[1]))
                acc.count("pid_exists_checked")
                if rec["res"][0] != "ok":
                    mech = f"pid_exists_raised:{rec['res'][0]}"
                    if op[1] >= 2**31:
                        mech += ":pid_beyond_C_int"
                    if op[1] >= 0:
                        viols.append((mech, ctx + f" op#{idx} pid_exists({op[1]}) -> {rec['res']}"))
                elif rec["res"][1] is not rec["model"]:
                    viols.append(("pid_exists_wrong", ctx + f" op#{idx} pid_exists({op[1]}) -> {rec['res'][1]} want {rec['model']}"))
            elif k == "clear":
                w.apply(("clear",))
                nontrivial = True
                for pid, (obj, inc) in model.items():
                    must_be_fresh.setdefault(pid, []).append(obj)
                model.clear()
            elif k == "isrun_cached":
                pid = op[1]
                if pid in model:
                    obj, inc = model[pid]
                    try:
                        r = obj.is_running()
                    except Exception as e:  # noqa: BLE001
                        viols.append((f"is_running_exception:{type(e).__name__}", ctx + f" op#{idx} {e!r}"))
                        continue
                    cur = w.cur_inc(pid)
                    if cur is not None and cur != inc and r is False and id(obj) not in said_false:
                        flagged.add(pid)       # is_running() found the pid recycled
                    if r is False:
                        said_false.add(id(obj))
            elif k == "iter":
                _, stop_after, disturb, attrs = op
                listed = sorted(w.t.procs)
                listed_inc = {p: w.cur_inc(p) for p in listed}
                flagged_before = set(flagged)
                flagged_mid = set()
                acc.count("iterations_checked")
                got = []
                exc = None
                try:
                    it = ps.process_iter(attrs=attrs) if attrs is not None else ps.process_iter()
                    n = 0
                    while True:
                        if disturb is not None and n == disturb[0]:
                            if disturb[1] == "respawn_isrun":
                                # the pid of an object this (still suspended) iterator has just yielded is recycled and
                                # the caller asks that object whether it is still running
                                objs = [p for p in got if p.pid == disturb[2]]
                                table_op(["respawn", disturb[2]])
                                if objs:
                                    r = objs[0].is_running()
                                    acc.count("midscan_is_running_on_yielded_object")
                                    if r is False and id(objs[0]) not in said_false:
                                        flagged.add(disturb[2])
                                        flagged_mid.add(disturb[2])
                                    if r is False:
                                        said_false.add(id(objs[0]))
                            else:
                                table_op([disturb[1], disturb[2]] + ([False] if disturb[1] == "spawn" else []))
                            nontrivial = True
                            disturb = None
                        if stop_after is not None and n >= stop_after:
                            it.close()
                            break
                        try:
                            p = next(it)
                        except StopIteration:
                            break
                        got.append(p)
                        n += 1
                except Exception as e:  # noqa: BLE001
                    exc = e
                if exc is not None:
                    viols.append((f"process_iter_raised:{type(exc).__name__}", ctx + f" op#{idx} {exc!r}"))
                    model.clear()
                    continue
                gpids = [p.pid for p in got]
                if gpids != sorted(gpids) or len(set(gpids)) != len(gpids):
                    viols.append(("process_iter_not_ascending_or_duplicates", ctx + f" op#{idx} got={gpids}"))
                after = set(w.t.procs)
                alive_through = [p for p in listed if p in after and w.cur_inc(p) == listed_inc[p]]
                if stop_after is None:
                    missing = [p for p in alive_through if p not in gpids]
                    if missing:
                        mech = "process_iter_omits_listed_pid"
                        if any(p in flagged for p in missing):
                            mech += ":after_flagged_reuse"
                        elif attrs is not None and all(any(i != listed_inc[p] for i in ever.get(p, ())) for p in missing):
                            mech += ":stale_entry_found_recycled_during_as_dict"
                        for p in missing:
                            model.pop(p, None)
                        viols.append((mech, ctx + f" op#{idx} got={gpids} listed={listed} missing={missing}"))
                    extra = [p for p in gpids if p not in listed and p not in after]
                    if extra:
                        viols.append(("process_iter_yields_unlisted_pid", ctx + f" op#{idx} got={gpids} listed={listed}"))
                # eviction at the listing instant
                for pid in list(model):
                    if pid not in listed:
                        del model[pid]
                        nontrivial = True
                for p in got:
                    pid = p.pid
                    if id(p) not in obj_inc:
                        obj_inc[id(p)] = (p, listed_inc.get(pid, w.cur_inc(pid)))
                    true_inc = obj_inc[id(p)][1]
                    ever.setdefault(pid, set()).add(true_inc)
                    acc.count("identity_assertions")
                    if attrs is not None:
                        want_keys = set(attrs) if attrs else None
                        info = getattr(p, "info", None)
                        if info is None or (want_keys is not None and set(info) != want_keys):
                            viols.append(("info_keys_wrong", ctx + f" op#{idx} pid={pid} info={info} attrs={attrs}"))
                    if pid in flagged and pid in flagged_before:
                        nontrivial = True
                        if pid in model and p is model[pid][0]:
                            viols.append(("flagged_reuse_not_refreshed", ctx + f" op#{idx} pid={pid}"))
                        flagged.discard(pid)
                        model[pid] = (p, true_inc)
                    elif pid in model and model[pid][1] != listed_inc.get(pid):
                        # stale entry (pid re-used between two iterations, nobody asked is_running()): the cache may
                        # or may not have found out by itself; either object is acceptable
                        model[pid] = (p, true_inc)
                    elif pid in model:
                        if p is not model[pid][0]:
                            viols.append(("identity_not_preserved", ctx + f" op#{idx} pid={pid}"))
                            model[pid] = (p, true_inc)
                    else:
                        for old in must_be_fresh.get(pid, []):
                            if p is old:
                                viols.append(("stale_object_after_cache_clear", ctx + f" op#{idx} pid={pid}"))
                        model[pid] = (p, true_inc)
                    must_be_fresh.pop(pid, None)
                if stop_after is not None:
                    # unvisited entries: cache state is not specified by the statement -> forget them in the model
                    for pid in list(model):
                        if pid not in gpids:
                            del model[pid]
                    # ... but then identity can not be asserted for them; flagged stays
                if stop_after is None:
                    flagged -= (set(listed) & flagged_before)
                flagged |= flagged_mid
    acc.case(dict(hist=hist), nontrivial, viols)


# ---- part 2: two concurrent iterators --------------------------------------------------------------

SCEN = ["flagged_reuse", "static", "flagged_two"]


def run_schedule(scn, preempt, first):
    env = setup()
    ps, H, S = env["ps"], env["H"], env["sched"]
    w = H.World(ps)
    out = {}
    with w:
        for p in (7, 8, 9):
            w.apply(("spawn", p, False))
        objs = list(ps.process_iter())
        if scn in ("flagged_reuse", "flagged_two"):
            for pid in ((8,) if scn == "flagged_reuse" else (8, 9)):
                w.apply(("vanish", pid))
                w.apply(("spawn", pid, False))
                o = [x for x in objs if x.pid == pid][0]
                assert o.is_running() is False
        sch = S.Sched(env["codes"], preempt=preempt, first=first)

        def prog(i):
            def f():
                return [p.pid for p in ps.process_iter()]
            return f
        sch.run([prog(0), prog(1)])
        listed = sorted(w.t.procs)
    return sch, listed


def run_sched_case(case, acc, seen):
    sch, listed = run_schedule(case["scn"], tuple(case["preempt"]), case["first"])
    acc.count("schedules_run")
    viols = []
    ctx = f"scenario={case['scn']} preempt={case['preempt']} first={case['first']} trace={''.join(map(str, sch.trace))}"
    if sch.error:
        acc.inconclusive = ctx + " watchdog"
    for i, r in enumerate(sch.results):
        if r is None or r[0] == "deadlock":
            viols.append(("scheduler_deadlock", ctx + f" {r}"))
        elif r[0] == "exc":
            viols.append((f"concurrent_iter_exception:{type(r[1]).__name__}", ctx + f" thread {i}: {r[1]!r}"))
        else:
            seq = r[1]
            if seq != sorted(seq) or len(set(seq)) != len(seq):
                viols.append(("concurrent_iter_not_ascending_or_duplicates", ctx + f" thread {i}: {seq}"))
            if any(p not in listed for p in seq):
                viols.append(("concurrent_iter_unlisted_pid", ctx + f" thread {i}: {seq} listed={listed}"))
            if set(seq) != set(listed):
                mech = "concurrent_iter_omits_listed_pid"
                if case["scn"].startswith("flagged"):
                    mech += ":after_flagged_reuse"
                viols.append((mech, ctx + f" thread {i}: {seq} listed={listed}"))
    h = (case["scn"], sch.interleaving_hash())
    if h not in seen:
        seen.add(h)
        acc.count("distinct_interleavings")
    acc.case(case, sch.context_switches() >= 2, viols, key=harness.chash(h), sample=dict(case, trace="".join(map(str, sch.trace))))


def plan(tier, seed):
    shards = []
    n = 32000 if tier == "quick" else 600000
    for s, c in harness.split_range(n, 10 if tier == "quick" else 40):
        shards.append(dict(kind="rand", seed=seed, start=s, count=c))
    shards.append(dict(kind="fixed"))
    for scn in SCEN:
        sp = 2 if tier == "quick" else 6
        for part in range(sp):
            shards.append(dict(kind="sched_exh", scn=scn, bound=2, part=part, parts=sp))
        shards.append(dict(kind="sched_rand", scn=scn, seed=seed, count=800 if tier == "quick" else 40000))
    return shards


def fixed_histories():
    out = []
    for n in SPECIAL + [7, 8, 100, 101, 55]:
        out.append([["spawn", 7, False], ["thread", 7, 100], ["pidex", n], ["pids"]])
    for name in ("Tgid:\t100", "Tgid:\t7", "Tgid:\t1", "x\rTgid:\t100"):
        out.append([["spawn", 7, False], ["thread", 7, 100, name], ["pidex", 100], ["pidex", 7], ["pids"], ["iter", None, None, None]])
        out.append([["spawn", 7, False, None, name], ["spawn", 8, False, None, "Tgid:\t1"], ["pidex", 7], ["pidex", 8], ["pids"],
                    ["iter", None, None, None]])
    out.append([["spawn", 7, False], ["spawn", 8, False], ["iter", None, None, None], ["respawn", 8], ["isrun_cached", 8],
                ["iter", None, None, None], ["iter", None, None, None]])
    out.append([["spawn", 7, False], ["iter", None, None, None], ["clear"], ["iter", None, None, None]])
    # a pid first seen by a still-suspended iterator is recycled and its object asked is_running()
    for at in (3, 4):
        out.append([["spawn", 7, False], ["spawn", 8, False], ["iter", None, [at, "respawn_isrun", 7], None],
                    ["iter", None, None, None], ["iter", None, None, None], ["iter", None, None, None]])
        out.append([["spawn", 7, False], ["iter", None, None, None], ["spawn", 8, False], ["iter", None, [4, "respawn_isrun", 8], None],
                    ["iter", None, None, None], ["iter", None, None, None]])
    out.append([["spawn", 7, False], ["iter", None, None, None], ["vanish", 7], ["iter", None, None, None], ["spawn", 7, False],
                ["iter", None, None, None]])
    for attrs in ATTRS:
        out.append([["spawn", 7, False], ["spawn", 8, True], ["iter", None, None, attrs]])
    return out


def run_shard(shard):
    acc = harness.Acc(max_samples=2)
    setup()
    k = shard["kind"]
    seen = set()
    if k == "rand":
        for i in range(shard["start"], shard["start"] + shard["count"]):
            run_history(gen_history(harness.rng_for(shard["seed"], "c04", i)), acc)
    elif k == "fixed":
        for h in fixed_histories():
            run_history(h, acc)
    elif k == "sched_exh":
        sch, _ = run_schedule(shard["scn"], (), 0)
        total = sch.step
        acc.extra.setdefault("yield_points_per_scenario", {})[shard["scn"]] = total
        i = 0
        for first in (0, 1):
            for pre in _env["sched"].schedules_upto(total, shard["bound"]):
                if i % shard["parts"] == shard["part"]:
                    run_sched_case(dict(scn=shard["scn"], preempt=list(pre), first=first), acc, seen)
                i += 1
        acc.exhaustive = True
    elif k == "sched_rand":
        sch, _ = run_schedule(shard["scn"], (), 0)
        total = sch.step
        for i in range(shard["count"]):
            rng = harness.rng_for(shard["seed"], "c04s", shard["scn"], i)
            pre = sorted(rng.sample(range(total), min(total, rng.choice([3, 4]))))
            run_sched_case(dict(scn=shard["scn"], preempt=pre, first=rng.randrange(2)), acc, seen)
    elif k == "cases":
        for case in shard["cases"]:
            if "hist" in case:
                run_history(case["hist"], acc)
            else:
                run_sched_case(case, acc, seen)
    return acc.result()
