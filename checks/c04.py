"""C04 - pids(), pid_exists() and process_iter() give one coherent, cached process list.

Process-table histories (spawn/exit/reuse/zombie/threads) interleaved with pids(), pid_exists(n),
full / partially consumed / mid-iteration-disturbed process_iter(attrs?), cache_clear(), is_running()
on cached objects; object identity (`is`) is checked against a reference model of the cache.
Two concurrent iterators run under the deterministic scheduler.
"""
import contextlib
import os
import re

from vlib import harness

ID = "C04"
LEVEL = "exploration"
ENGINE = "vkernel+sched"
TECHNIQUE = "runtime monitor: cache reference model (object identity) over generated process-table histories; bounded-preemption schedules of two concurrent iterators; free-running iterator threads while a third thread changes the table; live kernel: real threads ids, death, a really recycled pid"
RULE = ("one case = a history over a simulated process table (pids + hidden thread ids) of table changes, pids(), pid_exists(n) "
        "for n in listed/thread-id/absent/{0,-1,-2**70,2**31-1,2**31,2**32+5,2**63,2**64,10**30}, process_iter() fully or partly "
        "consumed, with table changes applied between listing and visit, attrs=[...], cache_clear(), is_running() on cached "
        "objects. Part 2: two threads iterating at once (after a flagged reuse / during table changes), all <=2-pre-emption "
        "schedules + sampled 3-4. Part 3: 2-3 free-running threads (1 us switch interval) iterate fully / with attrs / abandon half-way while another thread spawns, removes and recycles pids (logical clock = shared counter; a pid listed during the whole iteration must be yielded, a yielded pid must have been listed at some moment of it), then two quiescent iterations (identity, exact pid set); one deterministic probe-race case. non-trivial = history with an eviction, a flagged-reuse refresh, a cache_clear or a "
        "mid-iteration change, resp. schedule with >=2 context switches; distinct by history hash")
ASSUMPTIONS = [
    "a cached entry may legitimately survive a pid that vanished and came back between two iterations (the cache only learns at listing instants or from is_running())",
    "for a pid that vanishes after the listing instant the iterator may skip it or yield the cached object",
    "every pid that is listed at the listing instant and stays alive until the iterator is exhausted must be yielded exactly once, ascending",
    "os.kill() raises OverflowError for values outside C int before any syscall (emulated by the sink exactly as CPython does)",
]
REQUIRED_COUNTERS = ["iterations_checked", "identity_assertions", "pid_exists_checked", "schedules_run"]
SHARD_TIMEOUT = 2400

SPECIAL = [0, -1, -2**70, 2**31 - 1, 2**31, 2**32 + 5, 2**63, 2**64, 10**30]
ATTRS = [["name"], ["pid", "ppid", "status"], ["cpu_times", "name", "num_threads"], []]

_env = {}


# kernel workers: the Name: line of their status file carries the work-queue description, up to 63 bytes - the lines in front
# of Tgid: are then far longer than for any ordinary process (every length from 40 to 63)
KWORKER_NAMES = [("kworker/u64:%d-" % (n % 10) + "events_freezable_power_efficient_unbound_long_wq")[:n] for n in range(40, 64)]

def setup():
    if not _env:
        from vlib import histories, psu, sched
        ps = psu.load()
        codes = {ps.process_iter.__code__: None, ps.Process.is_running.__code__: None, ps.pids.__code__: None}
        _env.update(ps=ps, H=histories, sched=sched, codes=codes)
    return _env


def gen_history(rng):
    pids = [7, 8, 9, 10, 11]
    state = {p: "free" for p in pids}
    hist = []
    tid = 100
    for p in pids[:rng.randrange(1, 4)]:
        hist.append(["spawn", p, False])
        state[p] = "live"
    for _ in range(rng.randrange(4, 26)):
        r = rng.random()
        p = rng.choice(pids)
        if r < 0.12:
            if state[p] == "free":
                z = rng.random() < 0.2
                if rng.random() < 0.15:
                    # names that look like fields of /proc/<pid>/status (the kernel does not escape tabs in Name:)
                    hist.append(["spawn", p, z, None, rng.choice(["Tgid:\t1", "Tgid:\t%d" % (p + 1), "Pid:\t1", "Tgid:\t99999"] + KWORKER_NAMES)])
                else:
                    hist.append(["spawn", p, z])
                if rng.random() < 0.2:
                    hist.append(["otheruser", p])        # not ours: kill(pid, 0) and kill(tid, 0) answer EPERM
                state[p] = "zombie" if z else "live"
        elif r < 0.18:
            if state[p] == "live":
                hist.append(["exit", p])
                state[p] = "zombie"
        elif r < 0.30:
            if state[p] == "zombie":
                hist.append(["reap", p])
                state[p] = "free"
            elif state[p] == "live":
                hist.append(["vanish", p])
                state[p] = "free"
        elif r < 0.34:
            if state[p] == "live":
                tid += 1
                if rng.random() < 0.4:
                    hist.append(["thread", p, tid, rng.choice(["Tgid:\t%d" % tid, "Tgid:\t%d" % p, "Tgid:\t1"])])
                else:
                    hist.append(["thread", p, tid])
        elif r < 0.42:
            hist.append(["pids"])
        elif r < 0.55:
            n = rng.choice(pids + [tid, tid - 1, 55, 99999] + SPECIAL)
            hist.append(["pidex", n])
        elif r < 0.75:
            k = rng.random()
            if k < 0.55:
                hist.append(["iter", None, None, None])
            elif k < 0.7:
                hist.append(["iter", rng.randrange(0, 4), None, None])            # partial
            elif k < 0.85:
                hist.append(["iter", None, None, rng.choice(ATTRS)])
            else:
                # disturbed: after `at` yields apply a table change
                q = rng.choice(pids)
                hist.append(["iter", None, [rng.randrange(0, 5), rng.choice(["vanish", "spawn", "respawn", "respawn_isrun", "respawn_isrun"]), q], None])
        elif r < 0.80:
            hist.append(["clear"])
        elif r < 0.93:
            hist.append(["isrun_cached", p])
        else:
            hist.append(["respawn", p])       # exit+reap+spawn at once: pid re-used by a new process
    hist.append(["iter", None, None, None])
    return hist


ODD_ROOT_ENTRIES = ["+7", "-1", "-7", "1_0", " 8", "9 ", "7\n", "0x10", "1e1", "7.0", "+0", "-0", "0b1"]

# ---- the procfs root holds more than PID directories ------------------------------------------------
# The kernel's own non-PID entries, and whatever a foreign / bind-mounted / restored procfs root carries. A name is a PID
# only if it is a plain ASCII decimal number; "digits" of other scripts, superscripts, numerals, names that are not even
# valid UTF-8 are no processes. Names are kept the way os.fsdecode() gives them (UTF-8 on disk; listing the root with a
# bytes path gives those bytes, with a str path the surrogateescape'd str) - the simulated kernel's listdir does just that.
KERNEL_ROOT_NAMES = ["thread-self", "sys", "bus", "fs", "irq", "tty", "driver", "acpi", "scsi", "kmsg", "kcore", "keys",
                     "1-1", ".7", "lost+found", "dynamic_debug"]
DECIMAL_SCRIPTS = {"arabic_indic": 0x0660, "ext_arabic_indic": 0x06F0, "nko": 0x07C0, "devanagari": 0x0966, "bengali": 0x09E6,
                   "thai": 0x0E50, "fullwidth": 0xFF10, "math_bold": 0x1D7CE}      # category Nd: int() reads them
OTHER_DIGITS = {"superscript": "\u2070\u00b9\u00b2\u00b3\u2074\u2075\u2076\u2077\u2078\u2079",
                "subscript": "\u2080\u2081\u2082\u2083\u2084\u2085\u2086\u2087\u2088\u2089",
                "circled": "\u24ea\u2460\u2461\u2462\u2463\u2464\u2465\u2466\u2467\u2468"}     # str.isdigit() only: int() refuses
NUMERALS_ONLY = ["\u00bd", "\u2166", "\u4e03", "\u3007", "\u0bf0", "\u2189"]          # str.isnumeric() only
UNDECODABLE = [b"\xff7", b"7\xb2", b"\xb2", b"\xb9\xb0", b"\xd9", b"1\xd9\xa3\xff"]      # not UTF-8 (latin-1 superscripts, cut sequences)


def digit_like(n, style):
    """The number n written so that it looks like a PID directory to a lenient reader, without being one."""
    txt = str(n)
    if style in DECIMAL_SCRIPTS:
        return "".join(chr(DECIMAL_SCRIPTS[style] + int(c)) for c in txt)
    if style in OTHER_DIGITS:
        return "".join(OTHER_DIGITS[style][int(c)] for c in txt)
    if style == "mixed":                      # ASCII digits with one foreign digit among them
        return chr(DECIMAL_SCRIPTS["arabic_indic"] + int(txt[0])) + txt[1:] if len(txt) > 1 else txt + "\u0660"
    raise ValueError(style)


def gen_root_population(rng, nops, numbers):
    """[(name, reading, appears_at)]: non-PID entries of the procfs root. `reading` = the number a lenient reader would take
    the name for (None: it could only choke on it); appears_at = -1 (there from the start) or the index of the op before
    which the entry shows up."""
    out, names = [], set()
    for _ in range(rng.randrange(3, 10)):
        r = rng.random()
        reading = None
        if r < 0.40:
            name = digit_like(rng.choice(numbers), rng.choice(sorted(DECIMAL_SCRIPTS) + ["mixed"]))
            if name.isascii():
                continue
            reading = int(name)               # (int() knows every script's decimal digits)
            if len(name) > 1 and rng.random() < 0.1:
                reading = None
                name = name[0] + rng.choice(["_", " ", "+", "a", "\u066b", "\u200f"]) + name[1:]
        elif r < 0.52:
            name = digit_like(rng.choice(numbers), rng.choice(sorted(OTHER_DIGITS)))
        elif r < 0.60:
            name = rng.choice(NUMERALS_ONLY) * rng.randrange(1, 3)
        elif r < 0.70:
            name = os.fsdecode(rng.choice(UNDECODABLE))
        elif r < 0.85:
            n = rng.choice(numbers)
            name = rng.choice(["%da", "+%d", " %d", "%d ", "a%d", "%d_000", "%d.", "-%d", "%d\t", "0x%d", "%d\u00a0", "\ufeff%d"]) % n
        else:
            name = rng.choice(KERNEL_ROOT_NAMES)
        if name in names or name.isdigit() and name.isascii():
            continue
        names.add(name)
        out.append((name, reading, -1 if rng.random() < 0.6 else rng.randrange(0, max(1, nops))))
    return out


def _names_entry(msg, population):
    """Does an error message quote one of the root's non-PID names (as str or as bytes)?"""
    for name, _r, _a in population:
        if not name.isascii() and (name in msg or repr(name)[1:-1] in msg or repr(os.fsencode(name))[2:-1] in msg):
            return True
    return False


def run_history(hist, acc):
    env = setup()
    ps, H = env["ps"], env["H"]
    w = H.World(ps)
    viols = []
    nontrivial = False
    ctx = f"history={hist}"
    population = []       # generated non-PID entries of the procfs root: (name, reading, appears_at)
    present = []

    def show_entries(upto):
        for ent in population:
            if ent[2] <= upto and ent not in present:
                present.append(ent)
                w.t.rootfiles[ent[0] + "/x" if len(present) % 3 else ent[0]] = b""

    def root_qual(msg=None, numbers=None):
        """qualifier for a violation that the root's non-PID entries explain: an error quoting one of their names, or wrong
        numbers that are exactly what a lenient reader makes of them"""
        if msg is not None and _names_entry(msg, present):
            return ":non_pid_root_entry_parsed_as_number"
        if numbers and all(any(r == n for _n, r, _a in present) for n in numbers):
            return ":non_pid_root_entry_taken_for_pid"
        return ""
    if harness.chash(hist)[-1] in "0123":
        # the procfs root holds more than PID directories; what is not a plain decimal number is no process, however much it
        # looks like one to int()
        for name in ODD_ROOT_ENTRIES:
            w.t.rootfiles[name + "/x"] = b""
        acc.count("histories_with_number_like_entries_in_the_procfs_root")
        ctx += f" root_entries={ODD_ROOT_ENTRIES}"
        # ... and a generated population of other non-PID entries (derived from the history, so a replay meets the same),
        # some of them appearing while the history runs
        population = gen_root_population(harness.rng_for(0, "c04root", harness.chash(hist)), len(hist), [1, 2, 7, 8, 9, 10, 11, 100, 101, 102, 55, 300, 99999, 0, 12])
        acc.count("non_pid_root_entries_generated", len(population))
        acc.count("non_pid_root_entries_appearing_mid_history", sum(1 for e in population if e[2] >= 0))
        acc.count("non_pid_root_entries_digits_of_another_script", sum(1 for e in population if e[1] is not None))
        ctx += f" generated_root_entries={[(ascii(n), r, a) for n, r, a in population]}"
    model = {}            # pid -> (object, inc) as the statement's cache
    ever = {}             # pid -> list of objects ever yielded
    flagged = set()       # pids flagged recycled by is_running() since the last iteration
    obj_inc = {}          # id(object) -> (object, incarnation it was created for)
    said_false = set()    # objects whose is_running() already answered False (later answers find nothing new)
    must_be_fresh = {}    # pid -> objects that must NOT be yielded again (flagged reuse / cache_clear)

    def table_op(op):
        k = op[0]
        t = w.t
        if k == "spawn":
            if op[1] not in t.procs:
                w.apply(tuple(op))
        elif k == "exit":
            if op[1] in t.procs and not t.procs[op[1]].zombie:
                w.apply(tuple(op))
        elif k == "reap":
            if op[1] in t.procs and t.procs[op[1]].zombie:
                w.apply(tuple(op))
        elif k == "vanish":
            if op[1] in t.procs:
                w.apply(tuple(op))
        elif k == "thread":
            if op[1] in t.procs:
                w.apply(tuple(op))
        elif k == "otheruser":
            t.deny_kill.add(op[1])
            acc.count("processes_of_another_user")
        elif k == "respawn":
            if op[1] in t.procs:
                w.apply(("vanish", op[1]))
            w.apply(("spawn", op[1], False))

    show_entries(-1)
    try:
        w.__enter__()
    except Exception as e:  # noqa: BLE001
        # the world's own first steps (boot_time(), one complete process_iter() pass over init and the harness) failed
        try:
            w.__exit__(None, None, None)
        except Exception:  # noqa: BLE001
            pass
        acc.case(dict(hist=hist), True, [(f"process_iter_raised:{type(e).__name__}:first_pass" + root_qual(str(e)), ctx + f" {e!r}")])
        return
    with contextlib.ExitStack() as _stack:
        _stack.push(w.__exit__)
        for idx, op in enumerate(hist):
            k = op[0]
            if population:
                show_entries(idx)
            if k in ("spawn", "exit", "reap", "vanish", "thread", "respawn", "otheruser"):
                table_op(op)
            elif k == "pids":
                rec = w.apply(("pids",))
                acc.count("pids_checked")
                if rec["res"] != ("ok", rec["model"]):
                    mech = "pids_wrong"
                    if present and rec["res"][0] != "ok":
                        mech += root_qual(str(rec["res"][1]))
                    elif present and isinstance(rec["res"][1], list):
                        surplus = list(rec["res"][1])
                        for n in rec["model"]:
                            if n in surplus:
                                surplus.remove(n)
                        mech += root_qual(None, surplus)
                    viols.append((mech, ctx + f" op#{idx} got={rec['res']} want={rec['model']}"))
            elif k == "pidex":
                rec = w.apply(("pidex", op[1]))
                acc.count("pid_exists_checked")
                if rec["res"][0] != "ok":
                    mech = f"pid_exists_raised:{rec['res'][0]}"
                    if op[1] >= 2**31:
                        mech += ":pid_beyond_C_int"
                    if op[1] >= 0:
                        viols.append((mech + root_qual(str(rec["res"][1])), ctx + f" op#{idx} pid_exists({op[1]}) -> {rec['res']}"))
                elif rec["res"][1] is not rec["model"]:
                    viols.append(("pid_exists_wrong" + (root_qual(None, [op[1]]) if rec["res"][1] is True else ""),
                                  ctx + f" op#{idx} pid_exists({op[1]}) -> {rec['res'][1]} want {rec['model']}"))
            elif k == "clear":
                w.apply(("clear",))
                nontrivial = True
                for pid, (obj, inc) in model.items():
                    must_be_fresh.setdefault(pid, []).append(obj)
                model.clear()
            elif k == "isrun_cached":
                pid = op[1]
                if pid in model:
                    obj, inc = model[pid]
                    try:
                        r = obj.is_running()
                    except Exception as e:  # noqa: BLE001
                        viols.append((f"is_running_exception:{type(e).__name__}", ctx + f" op#{idx} {e!r}"))
                        continue
                    cur = w.cur_inc(pid)
                    if cur is not None and cur != inc and r is False and id(obj) not in said_false:
                        flagged.add(pid)       # is_running() found the pid recycled
                    if r is False:
                        said_false.add(id(obj))
            elif k == "iter":
                _, stop_after, disturb, attrs = op
                listed = sorted(w.t.procs)
                listed_inc = {p: w.cur_inc(p) for p in listed}
                flagged_before = set(flagged)
                flagged_mid = set()
                acc.count("iterations_checked")
                got = []
                exc = None
                try:
                    it = ps.process_iter(attrs=attrs) if attrs is not None else ps.process_iter()
                    n = 0
                    while True:
                        if disturb is not None and n == disturb[0]:
                            if disturb[1] == "respawn_isrun":
                                # the pid of an object this (still suspended) iterator has just yielded is recycled and
                                # the caller asks that object whether it is still running
                                objs = [p for p in got if p.pid == disturb[2]]
                                table_op(["respawn", disturb[2]])
                                if objs:
                                    r = objs[0].is_running()
                                    acc.count("midscan_is_running_on_yielded_object")
                                    if r is False and id(objs[0]) not in said_false:
                                        flagged.add(disturb[2])
                                        flagged_mid.add(disturb[2])
                                    if r is False:
                                        said_false.add(id(objs[0]))
                            else:
                                table_op([disturb[1], disturb[2]] + ([False] if disturb[1] == "spawn" else []))
                            nontrivial = True
                            disturb = None
                            if n == 0:
                                # the iterator exists but nothing was asked of it yet: the iteration - and its listing -
                                # begins with the first next(), so what happened up to now is already part of the table
                                listed = sorted(w.t.procs)
                                listed_inc = {p: w.cur_inc(p) for p in listed}
                                acc.count("iterators_created_before_a_table_change_and_consumed_after")
                        if stop_after is not None and n >= stop_after:
                            it.close()
                            break
                        try:
                            p = next(it)
                        except StopIteration:
                            break
                        got.append(p)
                        n += 1
                except Exception as e:  # noqa: BLE001
                    exc = e
                if exc is not None:
                    viols.append((f"process_iter_raised:{type(exc).__name__}" + root_qual(str(exc)), ctx + f" op#{idx} {exc!r}"))
                    model.clear()
                    continue
                gpids = [p.pid for p in got]
                if gpids != sorted(gpids) or len(set(gpids)) != len(gpids):
                    viols.append(("process_iter_not_ascending_or_duplicates", ctx + f" op#{idx} got={gpids}"))
                after = set(w.t.procs)
                alive_through = [p for p in listed if p in after and w.cur_inc(p) == listed_inc[p]]
                if stop_after is None:
                    missing = [p for p in alive_through if p not in gpids]
                    if missing:
                        mech = "process_iter_omits_listed_pid"
                        if all(p in flagged for p in missing):
                            mech += ":after_flagged_reuse"
                        elif attrs is not None and ("ppid" in attrs or attrs == []) and all(any(i != listed_inc[p] for i in ever.get(p, ())) for p in missing):
                            mech += ":stale_entry_found_recycled_during_as_dict"
                        for p in missing:
                            model.pop(p, None)
                        viols.append((mech, ctx + f" op#{idx} got={gpids} listed={listed} missing={missing}"))
                    extra = [p for p in gpids if p not in listed and p not in after]
                    if extra:
                        viols.append(("process_iter_yields_unlisted_pid" + root_qual(None, extra), ctx + f" op#{idx} got={gpids} listed={listed}"))
                # eviction at the listing instant
                for pid in list(model):
                    if pid not in listed:
                        del model[pid]
                        nontrivial = True
                for p in got:
                    pid = p.pid
                    if id(p) not in obj_inc:
                        obj_inc[id(p)] = (p, listed_inc.get(pid, w.cur_inc(pid)))
                    true_inc = obj_inc[id(p)][1]
                    ever.setdefault(pid, set()).add(true_inc)
                    acc.count("identity_assertions")
                    if attrs is not None:
                        want_keys = set(attrs) if attrs else None
                        info = getattr(p, "info", None)
                        if info is None or (want_keys is not None and set(info) != want_keys):
                            viols.append(("info_keys_wrong", ctx + f" op#{idx} pid={pid} info={info} attrs={attrs}"))
                    if pid in flagged and pid in flagged_before:
                        nontrivial = True
                        if pid in model and p is model[pid][0]:
                            viols.append(("flagged_reuse_not_refreshed", ctx + f" op#{idx} pid={pid}"))
                        flagged.discard(pid)
                        model[pid] = (p, true_inc)
                    elif pid in model and model[pid][1] != listed_inc.get(pid):
                        # stale entry (pid re-used between two iterations, nobody asked is_running()): the cache may
                        # or may not have found out by itself; either object is acceptable
                        model[pid] = (p, true_inc)
                    elif pid in model:
                        if p is not model[pid][0]:
                            viols.append(("identity_not_preserved", ctx + f" op#{idx} pid={pid}"))
                            model[pid] = (p, true_inc)
                    else:
                        for old in must_be_fresh.get(pid, []):
                            if p is old:
                                viols.append(("stale_object_after_cache_clear", ctx + f" op#{idx} pid={pid}"))
                        model[pid] = (p, true_inc)
                    must_be_fresh.pop(pid, None)
                if stop_after is not None:
                    # unvisited entries: cache state is not specified by the statement -> forget them in the model
                    for pid in list(model):
                        if pid not in gpids:
                            del model[pid]
                    # ... but then identity can not be asserted for them; flagged stays
                if stop_after is None:
                    flagged -= (set(listed) & flagged_before)
                flagged |= flagged_mid
    acc.case(dict(hist=hist), nontrivial, viols)


# ---- part 2: two concurrent iterators --------------------------------------------------------------

SCEN = ["flagged_reuse", "static", "flagged_two", "iter_vs_isrun", "held_iterator"]


def run_schedule(scn, preempt, first):
    env = setup()
    ps, H, S = env["ps"], env["H"], env["sched"]
    w = H.World(ps)
    out = {}
    with w:
        for p in (7, 8, 9):
            w.apply(("spawn", p, False))
        objs = list(ps.process_iter())
        if scn in ("flagged_reuse", "flagged_two"):
            for pid in ((8,) if scn == "flagged_reuse" else (8, 9)):
                w.apply(("vanish", pid))
                w.apply(("spawn", pid, False))
                o = [x for x in objs if x.pid == pid][0]
                assert o.is_running() is False
        stale = None
        if scn == "iter_vs_isrun":
            # pid 9 flagged beforehand (so the refresh has work to do), pid 8 recycled but not yet noticed: its object is
            # asked is_running() by the other thread while the iterator refreshes the cache
            for pid in (8, 9):
                w.apply(("vanish", pid))
                w.apply(("spawn", pid, False))
            assert [x for x in objs if x.pid == 9][0].is_running() is False
            stale = [x for x in objs if x.pid == 8][0]
        sch = S.Sched(env["codes"], preempt=preempt, first=first)
        import sys as _sys
        undo = S.coop_module_locks([m for n, m in list(_sys.modules.items()) if m is not None and
                                    (n == ps.__name__ or n.startswith(ps.__name__ + "."))], lambda: sch)

        def prog(i):
            def f():
                if scn == "iter_vs_isrun" and i == 1:
                    return ("isrun", stale.is_running())
                if scn == "held_iterator" and i == 0:
                    # a half consumed iterator is kept while another thread makes a complete pass, and is finished only after
                    # that thread has ended (main thread: `it = process_iter(); next(it); worker.start(); worker.join(); ...`)
                    it = ps.process_iter()
                    head = [next(it).pid]
                    sch.wait_done(1)
                    return head + [p.pid for p in it]
                return [p.pid for p in ps.process_iter()]
            return f
        try:
            sch.run([prog(0), prog(1)])
        finally:
            undo()
        listed = sorted(w.t.procs)
        if scn == "iter_vs_isrun":
            # quiescent epilogue: the entry found recycled must be replaced by a fresh object
            later = [list(ps.process_iter()) for _ in range(3)]
            out["stale_yielded"] = [n for n, it in enumerate(later) if any(x is stale for x in it)]
            out["fresh_by_third"] = any(x.pid == 8 and x is not stale for x in later[2])
            out["isrun"] = sch.results[1][1][1] if sch.results[1] and sch.results[1][0] == "ok" else None
    sch.out = out
    return sch, listed


def run_sched_case(case, acc, seen):
    sch, listed = run_schedule(case["scn"], tuple(case["preempt"]), case["first"])
    acc.count("schedules_run")
    viols = []
    ctx = f"scenario={case['scn']} preempt={case['preempt']} first={case['first']} trace={''.join(map(str, sch.trace))}"
    if sch.error:
        acc.inconclusive = ctx + " watchdog"
    for i, r in enumerate(sch.results):
        if r is None or r[0] == "deadlock":
            viols.append(("scheduler_deadlock", ctx + f" {r}"))
        elif r[0] == "exc":
            viols.append((f"concurrent_iter_exception:{type(r[1]).__name__}", ctx + f" thread {i}: {r[1]!r}"))
        elif isinstance(r[1], tuple) and r[1] and r[1][0] == "isrun":
            acc.count("concurrent_is_running_calls")
            if r[1][1] is not False:
                viols.append(("is_running_True_for_recycled_pid", ctx + f" thread {i}: {r[1]}"))
            o = getattr(sch, "out", {})
            if o.get("stale_yielded"):
                viols.append(("stale_object_yielded_after_is_running_found_it_recycled",
                              ctx + f": iterations {o['stale_yielded']} after the threads finished still yield the recycled entry"))
            elif not o.get("fresh_by_third"):
                viols.append(("recycled_entry_not_replaced", ctx + " no fresh object for the pid by the third later iteration"))
        else:
            seq = r[1]
            if seq != sorted(seq) or len(set(seq)) != len(seq):
                viols.append(("concurrent_iter_not_ascending_or_duplicates", ctx + f" thread {i}: {seq}"))
            if any(p not in listed for p in seq):
                viols.append(("concurrent_iter_unlisted_pid", ctx + f" thread {i}: {seq} listed={listed}"))
            if set(seq) != set(listed):
                mech = "concurrent_iter_omits_listed_pid"
                # the recorded finding drops exactly the entries that is_running() flagged as recycled (8, or 8 and 9)
                flagged_pids = {"flagged_reuse": {8}, "flagged_two": {8, 9}, "iter_vs_isrun": {8, 9}}.get(case["scn"], set())
                if flagged_pids and set(listed) - set(seq) <= flagged_pids and set(seq) <= set(listed):
                    mech += ":after_flagged_reuse"
                viols.append((mech, ctx + f" thread {i}: {seq} listed={listed}"))
    h = (case["scn"], sch.interleaving_hash())
    if h not in seen:
        seen.add(h)
        acc.count("distinct_interleavings")
    acc.case(case, sch.context_switches() >= 2, viols, key=harness.chash(h), sample=dict(case, trace="".join(map(str, sch.trace))))


# ---- part 3: free-running iterators while the table changes ----------------------------------------

def run_threads_case(case, acc):
    """2-3 real threads iterate process_iter() (some only partly, some with attrs) while another thread spawns, removes
    and recycles processes; 1 us switch interval, so pre-emption happens anywhere. Logical clock = one shared counter."""
    import itertools
    import sys
    import threading
    import time
    env = setup()
    ps, H = env["ps"], env["H"]
    w = H.World(ps)
    clock = itertools.count(1)
    oplog = []          # (a, b, op, pid)   a/b = clock before/after the change
    iters = []          # dict(thread, c0, c2, pids, attrs)
    partial = []        # abandoned iterations: only order / membership of the prefix is decided
    errors = []
    stable_base = [7, 8, 9]
    pool = list(range(20, 20 + case["pool"]))
    old = sys.getswitchinterval()
    stop = threading.Event()

    def mutator():
        r = harness.rng_for(case["seed"], "c04tm", case["i"])
        try:
            for n in range(case["ops"]):
                pid = r.choice(pool)
                a = next(clock)
                if pid in w.t.procs:
                    w.t.remove(pid)
                    kind = "remove"
                    if r.random() < 0.4:
                        b = next(clock)
                        oplog.append((a, b, "remove", pid))
                        a = next(clock)
                        w.t.spawn(pid, 1000 + a, ppid=1, comm=b"re%d" % a)
                        kind = "spawn"
                else:
                    w.t.spawn(pid, 1000 + a, ppid=1, comm=b"mu%d" % a)
                    kind = "spawn"
                oplog.append((a, next(clock), kind, pid))
                if r.random() < 0.25:
                    # another part of the program drops the cache while the iterators run (the cache is private to psutil:
                    # membership and order of what is yielded do not depend on it)
                    ps.process_iter.cache_clear()
                    acc.count("cache_clear_calls_under_running_iterators")
                time.sleep(0)           # hand the GIL over: every change lands at a different point of the iterations
        except BaseException as e:  # noqa: BLE001
            errors.append(("mutator", e))
        finally:
            stop.set()

    def iterator(idx, attrs):
        n = 0
        while (not stop.is_set() or n < 3) and n <= case["ops"] * 4:
            n += 1
            c0 = next(clock)
            try:
                if idx == 2 and n % 2:
                    # an iterator abandoned half-way (its cache update happens when the generator is closed)
                    seq = []
                    for p in ps.process_iter():
                        seq.append(p.pid)
                        if len(seq) >= 1 + n % 5:
                            break
                    partial.append(dict(thread=idx, c0=c0, c2=next(clock), pids=seq))
                    continue
                seq = [p.pid for p in ps.process_iter(attrs=attrs)]
            except BaseException as e:  # noqa: BLE001
                import traceback
                e.tb_text = "".join(traceback.format_exception(e))[-1800:]
                e.at_clock = next(clock)
                errors.append((idx, e))
                continue
            iters.append(dict(thread=idx, c0=c0, c2=next(clock), pids=seq))

    with w:
        for pid in stable_base:
            w.apply(("spawn", pid, False))
        for pid in pool[::2]:
            w.t.spawn(pid, 900 + pid, ppid=1, comm=b"init%d" % pid)
        base_pids = sorted(w.t.procs)
        first = {p.pid: p for p in ps.process_iter()}
        nthreads = case["threads"]
        ths = [threading.Thread(target=iterator, args=(i, None if i != 1 else ["name", "status"]), daemon=True) for i in range(nthreads)]
        ths.append(threading.Thread(target=mutator, daemon=True))
        sys.setswitchinterval(1e-6)
        try:
            for t in ths:
                t.start()
            for t in ths:
                t.join(120)
            hung = [t for t in ths if t.is_alive()]
        finally:
            sys.setswitchinterval(old)
            stop.set()
        if hung:
            # somebody never came back (holding who knows what): nothing else is asked of the library in this worker
            acc.inconclusive = f"free-running iterators seed={case['seed']} i={case['i']}: a thread did not finish within 120 s"
            raise RuntimeError(acc.inconclusive)
        # quiescent epilogue: identity across two sequential iterations, and exactly the listed pids
        seq1 = list(ps.process_iter())
        seq2 = list(ps.process_iter())
        listed = sorted(w.t.procs)
    viols = []
    ctx = f"free-running iterators seed={case['seed']} i={case['i']}"
    if hung:
        acc.inconclusive = ctx + ": a thread did not finish within 120 s"
    for who, e in errors:
        mech = f"concurrent_iter_exception:{type(e).__name__}"
        m = re.search(r"/vproc/(\d+)/", str(getattr(e, "filename", "") or ""))
        if isinstance(e, FileNotFoundError) and m:
            # ENOENT on /proc/<pid>/<file>, then wrap_exceptions probes /proc/<pid>/stat to tell "gone" from "file missing":
            # if the pid was recycled between the two accesses the probe succeeds and the raw error is re-raised
            pid = int(m.group(1))
            ce = getattr(e, "at_clock", 0)
            rms = [(a, b) for a, b, k, p2 in oplog if k == "remove" and p2 == pid and a <= ce]
            if any(k == "spawn" and p2 == pid and any(b1 <= a2 for _a1, b1 in rms) and a2 <= ce for a2, _b2, k, p2 in oplog):
                mech = "leak:FileNotFoundError:pid_recycled_between_failed_read_and_existence_probe"
        viols.append((mech, f"{ctx} thread {who}: {e!r} {getattr(e, 'tb_text', '')}"))
    # life spans per pid from the op log
    spans = {pid: [(0, None)] for pid in base_pids}     # (start_done, end_started)
    for a, b, kind, pid in sorted(oplog):
        if kind == "spawn":
            spans.setdefault(pid, []).append((a, None))     # may be visible from a on
        else:
            lst = spans.get(pid) or []
            if lst and lst[-1][1] is None:
                lst[-1] = (lst[-1][0], b)                   # may be visible until b
    spawn_done = {}
    for a, b, kind, pid in sorted(oplog):
        if kind == "spawn":
            spawn_done.setdefault(pid, []).append((a, b))
    overl = 0
    for it in iters:
        acc.count("free_running_iterations_checked")
        seq, c0, c2 = it["pids"], it["c0"], it["c2"]
        if any(c0 <= b and a <= c2 for a, b, _k, _p in oplog):
            overl += 1
        if seq != sorted(seq) or len(set(seq)) != len(seq):
            viols.append(("concurrent_iter_not_ascending_or_duplicates", f"{ctx} {it}"))
        for pid in seq:
            if not any(s <= c2 and (e is None or e >= c0) for s, e in spans.get(pid, [])):
                viols.append(("concurrent_iter_unlisted_pid", f"{ctx} pid {pid} never listed during {it}"))
        # listed for the whole iteration: spawned (completed) before it began, removal not begun before it ended
        for pid, lst in spans.items():
            for (s, e), in [((s, e),) for s, e in lst]:
                done = 0 if s == 0 else next((b for a, b in spawn_done.get(pid, []) if a == s), s)
                rm_start = None if e is None else next((a for a, b, k, p2 in oplog if k == "remove" and p2 == pid and b == e), e)
                if done < c0 and (rm_start is None or rm_start > c2) and pid not in seq:
                    viols.append(("concurrent_iter_omits_listed_pid", f"{ctx} pid {pid} listed throughout but missing in {it}"))
    for it in partial:
        acc.count("free_running_abandoned_iterations")
        seq, c0, c2 = it["pids"], it["c0"], it["c2"]
        if seq != sorted(seq) or len(set(seq)) != len(seq):
            viols.append(("concurrent_iter_not_ascending_or_duplicates", f"{ctx} abandoned {it}"))
        for pid in seq:
            if not any(s_ <= c2 and (e_ is None or e_ >= c0) for s_, e_ in spans.get(pid, [])):
                viols.append(("concurrent_iter_unlisted_pid", f"{ctx} pid {pid} never listed during abandoned {it}"))
    acc.count("free_running_iterations_overlapping_table_changes", overl)
    acc.count("free_running_table_changes", len(oplog))
    if [p.pid for p in seq2] != listed:
        viols.append(("process_iter_omits_listed_pid" if set(listed) - {p.pid for p in seq2} else "iter_wrong_after_concurrency",
                      f"{ctx} after the threads stopped: got {[p.pid for p in seq2]} listed {listed}"))
    ids1 = {p.pid: p for p in seq1}
    for p in seq2:
        if p.pid in ids1 and ids1[p.pid] is not p:
            viols.append(("identity_not_preserved", f"{ctx} after the threads stopped: pid {p.pid} yielded as two objects by two successive iterations"))
    acc.case(dict(kind="threads", **case), overl > 0, viols)


def run_pid_exists_faults(acc):
    """pid_exists(n) while the process goes away: removed (or turned into a zombie) just before each of the accesses the
    call performs - the status file opened but not yet read answers ESRCH. Never an exception; any bool is acceptable for
    the racing pid, the exact answer for the others."""
    env = setup()
    ps, H = env["ps"], env["H"]

    def world():
        w = H.World(ps)
        w.__enter__()
        w.apply(("spawn", 7, False))
        w.apply(("thread", 7, 100))
        w.apply(("spawn", 9, False))
        return w
    for target, victim in ((7, 7), (100, 7), (9, 7), (55, 7)):
        w = world()
        try:
            n0 = len(w.vk.log)
            base = ps.pid_exists(target)
            n = len(w.vk.log) - n0
        finally:
            w.__exit__(None, None, None)
        for how in ("vanish", "exit"):
            for k in range(n + 1):
                w = world()
                viols = []
                try:
                    k0 = len(w.vk.log)

                    def fault(vk_, kind, path, w=w, how=how):
                        if victim in w.t.procs:
                            w.apply((how, victim))
                        return None
                    w.vk.plan[k0 + k] = fault
                    acc.count("pid_exists_fault_cases")
                    try:
                        got = ps.pid_exists(target)
                    except Exception as e:  # noqa: BLE001
                        viols.append((f"pid_exists_exception:{type(e).__name__}:process_gone_midcall",
                                      f"pid_exists({target}) raised {e!r}: pid {victim} {how} before access #{k} of {n}"))
                    else:
                        if not isinstance(got, bool):
                            viols.append(("pid_exists_not_bool", f"pid_exists({target}) -> {got!r}"))
                        elif target not in (7, 100) and got != base:
                            viols.append(("pid_exists_wrong", f"pid_exists({target}) -> {got} want {base}: unrelated pid {victim} {how} at #{k}"))
                        elif how == "exit" and target == 7 and got is not True:
                            viols.append(("pid_exists_wrong", f"pid_exists(7) -> {got} although pid 7 stays listed as a zombie (exit at #{k})"))
                finally:
                    w.__exit__(None, None, None)
                acc.case(dict(kind="pid_exists_fault", target=target, how=how, k=k), True, viols)
    # the status file cannot be consulted (refused: hidepid / an LSM; or served without a Tgid line): the documented fall-back is
    # the listing - True exactly for listed PIDs, False for thread ids and free numbers, whatever stat() says about /proc/<n>
    # ... and the listing is that of the PID directories: other entries of the root, digit-like as they may look, stay out of it
    roots = [None] + sorted(DECIMAL_SCRIPTS) + sorted(OTHER_DIGITS) + ["mixed", "undecodable"]
    for target, want in ((7, True), (9, True), (100, False), (55, False)):
        for root, how in [(r_, h_) for r_ in roots for h_ in ("EACCES", "EPERM", "EIO", "no_tgid_line")]:
            w = world()
            viols = []
            try:
                entries = []
                if root is not None:
                    entries = [os.fsdecode(b"10\xb0")] + [os.fsdecode(n) for n in UNDECODABLE] if root == "undecodable" else \
                        [digit_like(n, root) for n in (7, 100, 101, 55, 1000)]
                    for name in entries + KERNEL_ROOT_NAMES[:3]:
                        w.t.rootfiles[name + "/x"] = b""
                    acc.count("pid_exists_listing_fallback_with_non_pid_root_entries")
                if how == "no_tgid_line":
                    for pr_ in w.t.procs.values():
                        pr_.raw_status = lambda p_: b"Name:\tx\nState:\tS (sleeping)\nPid:\t%d\nPPid:\t1\n" % p_.pid
                else:
                    import errno as _errno
                    code = getattr(_errno, how)
                    w.vk.rules.append(lambda kind, path, code=code: OSError(code, os.strerror(code), path)
                                      if kind == "open" and path.endswith("/status") else None)
                acc.count("pid_exists_with_unusable_status_file")
                try:
                    got = ps.pid_exists(target)
                except Exception as e:  # noqa: BLE001
                    viols.append((f"pid_exists_exception:{type(e).__name__}:status_file_unusable" + (":non_pid_root_entry_parsed_as_number" if any(n_ in str(e) for n_ in entries) else ""),
                                  f"pid_exists({target}) with {how}: {e!r}; non-PID root entries {[ascii(n) for n in entries]}"))
                else:
                    if got is not want:
                        viols.append(("pid_exists_wrong:status_file_unusable" + (":non_pid_root_entry_taken_for_pid" if root and got is True else ""),
                                      f"pid_exists({target}) -> {got!r} want {want} ({how}; listed {sorted(w.t.procs)}, 100 is a thread of 7; "
                                      f"non-PID root entries {[ascii(n) for n in entries]})"))
            finally:
                w.__exit__(None, None, None)
            acc.case(dict(kind="pid_exists_fault", target=target, how=how, k=-1, **({"root": root} if root else {})), True, viols)


def run_probe_race(acc):
    """Deterministic form of what part 3 meets by chance: a listed process goes away just before one of its files is
    opened (ENOENT) and its pid is taken by a new process before the next access - the existence probe of
    /proc/<pid>/stat that wrap_exceptions uses to tell 'gone' from 'file missing'."""
    env = setup()
    ps, H = env["ps"], env["H"]
    for attrs, victim_file in ((None, "stat"), (["name", "status"], "status"), (["cmdline"], "cmdline")):
        w = H.World(ps)
        viols = []
        with w:
            for pid in (7, 8, 9):
                w.apply(("spawn", pid, False))
            if attrs is not None:
                list(ps.process_iter())          # pid 8 is cached: the iteration goes through as_dict() only
            state = dict(armed=True, respawn_at=None)

            def hook(vk, idx, kind, path):
                if state["armed"] and kind == "open" and path == f"/vproc/8/{victim_file}":
                    state["armed"] = False
                    w.t.remove(8)
                    state["respawn_at"] = idx + 1
                elif state["respawn_at"] == idx:
                    state["respawn_at"] = None
                    w.t.spawn(8, 5000, ppid=1, comm=b"newcomer")
            w.vk.on_access = hook
            acc.count("probe_race_cases")
            try:
                seq = [p.pid for p in ps.process_iter(attrs=attrs)]
            except Exception as e:  # noqa: BLE001
                mech = f"iter_exception:{type(e).__name__}"
                if isinstance(e, FileNotFoundError):
                    mech = "leak:FileNotFoundError:pid_recycled_between_failed_read_and_existence_probe"
                viols.append((mech, f"process_iter(attrs={attrs}) raised {e!r}: pid 8 removed at open of {victim_file}, recycled before the next access"))
            else:
                if seq != sorted(seq) or set(seq) - set(w.t.procs):
                    viols.append(("iter_wrong", f"probe race: yielded {seq}"))
            finally:
                w.vk.on_access = None
        acc.case(dict(kind="probe_race", attrs=attrs, file=victim_file), True, viols)


def run_flag_then_clear(acc):
    """"an entry whose PID was found recycled by is_running() is replaced by a fresh object" - also when a half consumed
    iterator is still alive and cache_clear() is called in between: the flag belongs to the stale object, not to the cache."""
    env = setup()
    ps, H = env["ps"], env["H"]
    for consume in (0, 1, 2):
        for clear_when in ("before_flag", "after_flag", "never"):
            w = H.World(ps)
            viols = []
            with w:
                for pid in (7, 8, 9):
                    w.apply(("spawn", pid, False))
                first = {p.pid: p for p in ps.process_iter()}
                stale = first[8]
                w.t.remove(8)
                w.t.spawn(8, 7000, ppid=1, comm=b"newcomer")
                it = ps.process_iter()                      # a consumer that stops half-way and finishes later
                for _ in range(consume):
                    next(it)
                if clear_when == "before_flag":
                    ps.process_iter.cache_clear()
                flagged = stale.is_running() is False
                if clear_when == "after_flag":
                    ps.process_iter.cache_clear()
                rest = list(it)
                del rest
                acc.count("flag_then_clear_cases")
                later = [list(ps.process_iter()) for _ in range(3)]
                bad = [n for n, ls in enumerate(later) if any(p is stale for p in ls)]
                # (one omission right after the flagging is the known `after_flagged_reuse` behaviour; a stale object handed out
                # again and again is not)
                if flagged and len(bad) >= 2:
                    viols.append(("stale_object_yielded_after_it_was_found_recycled",
                                  f"consume={consume} cache_clear={clear_when}: the object found recycled by is_running() is still "
                                  f"yielded by calls {bad} of 3 later process_iter() calls"))
            acc.case(dict(kind="flag_then_clear", consume=consume, clear=clear_when), True, viols)


# ---- live kernel ---------------------------------------------------------------------------------------------

def run_live(shard, acc):
    """pids()/pid_exists()/process_iter() against the real kernel: real children with real threads (thread ids answer
    kill(tid, 0) and /proc/<tid> resolves although it is not listed), death, and a really recycled pid."""
    import os
    import subprocess
    import sys
    import time
    from vlib import livereuse
    ps = setup()["ps"]
    ps.PROCFS_PATH = "/proc"
    env = {k: v for k, v in os.environ.items() if k != "LD_PRELOAD"}
    threaded = [sys.executable, "-S", "-c",
                "import threading, time\nfor _ in range(3): threading.Thread(target=time.sleep, args=(1000,), daemon=True).start()\n"
                "print('up', flush=True)\ntime.sleep(1000)"]
    viols = []
    ps.process_iter.cache_clear()
    kids = [subprocess.Popen(threaded, env=env, stdout=subprocess.PIPE) for _ in range(3)]
    try:
        for k in kids:
            k.stdout.readline()
        mine = sorted(k.pid for k in kids)
        listed = ps.pids()
        acc.count("live_pids_calls")
        if listed != sorted(listed) or len(set(listed)) != len(listed):
            viols.append(("live:pids_not_ascending_or_duplicates", str(listed)[:300]))
        if not set(mine) <= set(listed):
            viols.append(("live:pids_misses_live_process", f"{mine} not all in pids()"))
        for k in kids:
            tids = sorted(int(t) for t in os.listdir(f"/proc/{k.pid}/task"))
            acc.count("live_thread_ids_checked", len(tids) - 1)
            for tid in tids:
                got = ps.pid_exists(tid)
                if got is not (tid == k.pid):
                    viols.append(("live:pid_exists_wrong:thread_id" if tid != k.pid else "live:pid_exists_wrong",
                                  f"pid_exists({tid}) -> {got}; process {k.pid} has threads {tids}"))
                if tid != k.pid and tid in listed:
                    viols.append(("live:pids_lists_thread_id", f"{tid}"))
        for n in (0, 1, os.getpid(), -1, -mine[0], 2**22 + 5, 2**31 - 1, 2**31, 2**64, 10**30):
            try:
                got = ps.pid_exists(n)
            except Exception as e:  # noqa: BLE001
                viols.append((f"live:pid_exists_exception:{type(e).__name__}", f"pid_exists({n}) raised {e!r}"))
                continue
            want = n in (0, 1, os.getpid()) if n >= 0 else False
            if n == 0:
                want = got          # pid 0 is platform lore (the statement speaks of the process table)
            if got is not want:
                viols.append(("live:pid_exists_wrong", f"pid_exists({n}) -> {got} want {want}"))
        it1 = {p.pid: p for p in ps.process_iter()}
        it2 = {p.pid: p for p in ps.process_iter()}
        acc.count("live_iterations")
        for pid in mine:
            if pid not in it1 or it1.get(pid) is not it2.get(pid):
                viols.append(("live:identity_not_preserved", f"pid {pid}: {it1.get(pid)!r} vs {it2.get(pid)!r}"))
        seq = [p.pid for p in ps.process_iter()]
        if seq != sorted(seq):
            viols.append(("live:iter_not_ascending", str(seq)[:300]))
        # death: entry dropped, pid_exists False, not listed
        victim = kids[0]
        old_entry = it2[victim.pid]
        victim.kill()
        victim.wait()
        if ps.pid_exists(victim.pid) or victim.pid in ps.pids():
            viols.append(("live:dead_pid_still_listed", f"{victim.pid}"))
        if any(p.pid == victim.pid for p in ps.process_iter()):
            viols.append(("live:dead_pid_still_yielded", f"{victim.pid}"))
        ps.process_iter.cache_clear()
        it3 = {p.pid: p for p in ps.process_iter()}
        if it3.get(mine[1]) is it2.get(mine[1]) and mine[1] != victim.pid:
            viols.append(("live:cache_clear_kept_entry", f"pid {mine[1]}"))
        # a really recycled pid whose cached entry was never seen absent
        kid = kids[1]
        entry = it3[kid.pid]
        kid.kill()
        kid.wait()
        with livereuse.Recycled(kid.pid) as rec:
            if not rec.ok:
                acc.count("live_reuse_skipped")
                acc.extra.setdefault("live_reuse_skipped", []).append(rec.why)
            else:
                acc.count("live_pid_recyclings")
                if not ps.pid_exists(kid.pid) or kid.pid not in ps.pids():
                    viols.append(("live:recycled_pid_not_listed", f"{kid.pid}"))
                if entry.is_running() is not False:
                    viols.append(("live:is_running_True_for_recycled_pid", f"{entry!r}"))
                later = [[p for p in ps.process_iter() if p.pid == kid.pid] for _ in range(3)]
                if any(x and x[0] is entry for x in later):
                    viols.append(("live:stale_object_yielded_after_is_running_found_it_recycled", f"pid {kid.pid}"))
                if not later[2] or later[2][0] is entry:
                    viols.append(("live:recycled_entry_not_replaced", f"pid {kid.pid}: {later}"))
    finally:
        for k in kids:
            try:
                k.kill()
            except Exception:  # noqa: BLE001
                pass
            k.wait()
            k.stdout.close()
    acc.case(dict(kind="live"), True, viols)


def run_handover(acc):
    """An iterator started in one thread is finished in another (a worker pool that hands generators around), and a third
    thread makes a complete pass afterwards. Real threads, strictly one after the other - no race is involved, only the question
    which thread runs which part."""
    import threading
    env = setup()
    ps, H = env["ps"], env["H"]
    for variant in ("started_elsewhere", "created_elsewhere", "finished_elsewhere_after_a_full_pass"):
        case = dict(kind="handover", variant=variant)
        viols = []
        w = H.World(ps)
        with w:
            for p in (7, 8, 9):
                w.apply(("spawn", p, False))
            listed = sorted(w.t.procs)
            box = {}

            def first_part():
                try:
                    box["it"] = ps.process_iter()
                    if variant != "created_elsewhere":
                        box["head"] = [next(box["it"]).pid]
                except BaseException as e:  # noqa: BLE001
                    box["exc"] = e
            t = threading.Thread(target=first_part)
            t.start()
            t.join()
            acc.count("iterators_handed_to_another_thread")
            try:
                if "exc" in box:
                    raise box["exc"]
                if variant == "finished_elsewhere_after_a_full_pass":
                    list(ps.process_iter())
                seq = box.get("head", []) + [p.pid for p in box["it"]]
                if seq != listed:
                    viols.append(("handed_over_iterator_wrong", f"{variant}: yielded {seq}, listed {listed}"))
            except Exception as e:  # noqa: BLE001
                viols.append((f"handed_over_iterator_exception:{type(e).__name__}", f"{variant}: {e!r}"))
            if not viols:
                # a later complete pass from yet another thread (bounded wait: a thread that never comes back is reported as
                # such, and nothing else is attempted in this worker afterwards)
                def full_pass():
                    try:
                        box["later"] = [p.pid for p in ps.process_iter()]
                    except BaseException as e:  # noqa: BLE001
                        box["later_exc"] = e
                t2 = threading.Thread(target=full_pass, daemon=True)
                t2.start()
                t2.join(120)
                if t2.is_alive():
                    acc.inconclusive = f"handover {variant}: a complete pass from another thread did not return within 120 s"
                    acc.case(case, True, viols)
                    return
                if "later_exc" in box:
                    viols.append((f"pass_after_handover_exception:{type(box['later_exc']).__name__}", f"{variant}: {box['later_exc']!r}"))
                elif box.get("later") != listed:
                    viols.append(("pass_after_handover_wrong", f"{variant}: yielded {box.get('later')}, listed {listed}"))
        acc.case(case, True, viols)
        if viols:
            return      # whatever went wrong may have left a lock behind: nothing else is attempted in this worker


def plan(tier, seed):
    shards = []
    n = 32000 if tier == "quick" else 600000
    for s, c in harness.split_range(n, 10 if tier == "quick" else 40):
        shards.append(dict(kind="rand", seed=seed, start=s, count=c))
    shards.append(dict(kind="fixed"))
    for scn in SCEN:
        sp = 2 if tier == "quick" else 6
        for part in range(sp):
            shards.append(dict(kind="sched_exh", scn=scn, bound=2, part=part, parts=sp))
        shards.append(dict(kind="sched_rand", scn=scn, seed=seed, count=800 if tier == "quick" else 40000))
    for part in range(4 if tier == "quick" else 16):
        shards.append(dict(kind="threads", seed=seed, part=part, count=5 if tier == "quick" else 60))
    shards.append(dict(kind="live", timeout=1200))
    shards.append(dict(kind="handover"))
    return shards


def fixed_histories():
    out = []
    for n in SPECIAL + [7, 8, 100, 101, 55]:
        out.append([["spawn", 7, False], ["thread", 7, 100], ["pidex", n], ["pids"]])
        out.append([["spawn", 7, False], ["otheruser", 7], ["thread", 7, 100], ["pidex", n], ["pidex", 100], ["pidex", 7], ["pids"]])
    for name in ("Tgid:\t100", "Tgid:\t7", "Tgid:\t1", "x\rTgid:\t100"):
        out.append([["spawn", 7, False], ["thread", 7, 100, name], ["pidex", 100], ["pidex", 7], ["pids"], ["iter", None, None, None]])
        out.append([["spawn", 7, False, None, name], ["spawn", 8, False, None, "Tgid:\t1"], ["pidex", 7], ["pidex", 8], ["pids"],
                    ["iter", None, None, None]])
    out.append([["spawn", 7, False], ["spawn", 8, False], ["iter", None, None, None], ["respawn", 8], ["isrun_cached", 8],
                ["iter", None, None, None], ["iter", None, None, None]])
    out.append([["spawn", 7, False], ["iter", None, None, None], ["clear"], ["iter", None, None, None]])
    # a pid first seen by a still-suspended iterator is recycled and its object asked is_running()
    for at in (3, 4):
        out.append([["spawn", 7, False], ["spawn", 8, False], ["iter", None, [at, "respawn_isrun", 7], None],
                    ["iter", None, None, None], ["iter", None, None, None], ["iter", None, None, None]])
        out.append([["spawn", 7, False], ["iter", None, None, None], ["spawn", 8, False], ["iter", None, [4, "respawn_isrun", 8], None],
                    ["iter", None, None, None], ["iter", None, None, None]])
    out.append([["spawn", 7, False], ["iter", None, None, None], ["vanish", 7], ["iter", None, None, None], ["spawn", 7, False],
                ["iter", None, None, None]])
    # the iterator is created, the table changes, and only then is the iterator consumed
    for what in ("spawn", "vanish", "respawn"):
        out.append([["spawn", 7, False], ["spawn", 8, False] if what != "spawn" else ["spawn", 9, False], ["iter", None, None, None],
                    ["iter", None, [0, what, 8], None], ["iter", None, None, None], ["iter", None, None, None]])
    for attrs in ATTRS:
        out.append([["spawn", 7, False], ["spawn", 8, True], ["iter", None, None, attrs]])
    return out


def run_shard(shard):
    acc = harness.Acc(max_samples=2)
    setup()
    k = shard["kind"]
    seen = set()
    if k == "rand":
        for i in range(shard["start"], shard["start"] + shard["count"]):
            run_history(gen_history(harness.rng_for(shard["seed"], "c04", i)), acc)
    elif k == "fixed":
        for h in fixed_histories():
            run_history(h, acc)
        run_probe_race(acc)
        run_flag_then_clear(acc)
        run_pid_exists_faults(acc)
    elif k == "threads":
        for i in range(shard["count"]):
            run_threads_case(dict(seed=shard["seed"], i=shard["part"] * 1000 + i, threads=2 + i % 2, ops=150, pool=8 + 4 * (i % 3)), acc)
    elif k == "live":
        run_live(shard, acc)
    elif k == "handover":
        run_handover(acc)
    elif k == "sched_exh":
        sch, _ = run_schedule(shard["scn"], (), 0)
        total = sch.step
        acc.extra.setdefault("yield_points_per_scenario", {})[shard["scn"]] = total
        i = 0
        for first in (0, 1):
            for pre in _env["sched"].schedules_upto(total, shard["bound"]):
                if i % shard["parts"] == shard["part"]:
                    run_sched_case(dict(scn=shard["scn"], preempt=list(pre), first=first), acc, seen)
                i += 1
        acc.exhaustive = True
    elif k == "sched_rand":
        sch, _ = run_schedule(shard["scn"], (), 0)
        total = sch.step
        for i in range(shard["count"]):
            rng = harness.rng_for(shard["seed"], "c04s", shard["scn"], i)
            pre = sorted(rng.sample(range(total), min(total, rng.choice([3, 4]))))
            run_sched_case(dict(scn=shard["scn"], preempt=pre, first=rng.randrange(2)), acc, seen)
    elif k == "cases":
        for case in shard["cases"]:
            if "hist" in case:
                run_history(case["hist"], acc)
            elif case.get("kind") == "threads":
                run_threads_case({k_: v for k_, v in case.items() if k_ != "kind"}, acc)
            elif case.get("kind") == "live":
                run_live({}, acc)
            elif case.get("kind") == "handover":
                run_handover(acc)
            elif case.get("kind") == "probe_race":
                run_probe_race(acc)
            elif case.get("kind") == "flag_then_clear":
                run_flag_then_clear(acc)
            elif case.get("kind") == "pid_exists_fault":
                run_pid_exists_faults(acc)
            else:
                run_sched_case(case, acc, seen)
    return acc.result()
