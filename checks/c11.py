"""C11 - net_connections(): every socket once, right kind, right addresses, right owner.

Workload: generated socket tables rendered the way the kernel prints /proc/net/{tcp,tcp6,udp,udp6,unix}
plus /proc/<pid>/fd/* "socket:[inode]" links of 1-5 simulated processes (vkernel ProcTable); the REAL
psutil.net_connections(kind) / Process(pid).net_connections(kind) run over it.
Oracle: the generator's socket list filtered by a kind table transcribed from docs/index.rst, compared as
sets of rows (+ a no-duplicates check); addresses are compared as packed bytes (any textual form accepted).
The generator's address/line encoder is validated against the live kernel in every worker (real sockets on
127.0.0.1 / ::1 / a UNIX path with a space): a wrong encoder makes the run INCONCLUSIVE, never a violation.
A small "live" workload runs the same oracle over real sockets of the worker (and a forked child) on /proc.
"""
import ipaddress
import os
import socket
import sys

from vlib import harness

ID = "C11"
LEVEL = "exploration"
TECHNIQUE = ("runtime monitor: generated kernel socket tables + fd links under the real net_connections(), "
             "ground-truth set oracle with a documentation-transcribed kind table; encoder validated on the live kernel; "
             "three free-running threads over a static table must each get the sequential answer")
RULE = ("one case = one socket table (0-14 sockets: TCP/UDP over IPv4/IPv6, UNIX stream/dgram/seqpacket) held by "
        "0-3 descriptors across 1-5 simulated processes (some with an unreadable fd directory); all 11 documented "
        "kinds are run system-wide and per process, plus 2 invalid kinds (must raise ValueError). "
        "non-trivial = table with an IPv6 socket, or a socket shared by several holders, or a UNIX path with a "
        "space / an abstract name, or a port 0; distinct by case hash")
ASSUMPTIONS = [
    "line formats of /proc/net/{tcp,tcp6,udp,udp6,unix} transcribed from net/ipv4/tcp_ipv4.c, net/ipv6/tcp_ipv6.c, "
    "net/ipv4/udp.c, net/unix/af_unix.c and compared token by token with the live 6.18 kernel in every worker",
    "addresses are printed as native-endian 32-bit words (%08X), ports %04X; the encoder is checked against real "
    "sockets bound to 127.0.0.1 and ::1 (mismatch => INCONCLUSIVE)",
    "kind table transcribed from docs/index.rst (net_connections kind table); 'unix' = stream + dgram",
    "inet socket with several holders: any one visible holder is accepted (exactly one row)",
    "SOCK_SEQPACKET UNIX sockets under 'unix'/'all' are don't-care (docs list stream/dgram only) but must be "
    "well-formed if present and never appear under inet kinds",
    "rows that are identical in every field (e.g. two unbound, unheld UNIX sockets) count once (set comparison)",
    "UNIX raddr is '' (documented Linux limitation); UNIX paths are compared as os.fsdecode(bytes)",
    "per-process form on a process whose fd directory is unreadable: AccessDenied is the accepted outcome",
    "TIME_WAIT / SYN_RECV mini-sockets are printed with inode 0 and have no holder (kernel behaviour)",
]
REQUIRED_COUNTERS = ["rows_compared", "kinds_exercised", "invalid_kinds_rejected", "encoder_live_validations",
                     "perprocess_calls", "systemwide_calls"]

AF_INET, AF_INET6, AF_UNIX = int(socket.AF_INET), int(socket.AF_INET6), int(socket.AF_UNIX)
STREAM, DGRAM, SEQPACKET = int(socket.SOCK_STREAM), int(socket.SOCK_DGRAM), int(socket.SOCK_SEQPACKET)

# include/net/tcp_states.h (the value printed in the "st" column) -> documented psutil.CONN_<name> constant
TCP_STATES = {1: "ESTABLISHED", 2: "SYN_SENT", 3: "SYN_RECV", 4: "FIN_WAIT1", 5: "FIN_WAIT2", 6: "TIME_WAIT",
              7: "CLOSE", 8: "CLOSE_WAIT", 9: "LAST_ACK", 10: "LISTEN", 11: "CLOSING"}

# docs/index.rst, net_connections(): "Kind value" -> "Connections using"   (families, protocols)
T, U, X = "tcp", "udp", "unix"
DOC_KINDS = {
    "inet": ({4, 6}, {T, U}),     # IPv4 and IPv6
    "inet4": ({4}, {T, U}),       # IPv4
    "inet6": ({6}, {T, U}),       # IPv6
    "tcp": ({4, 6}, {T}),         # TCP
    "tcp4": ({4}, {T}),           # TCP over IPv4
    "tcp6": ({6}, {T}),           # TCP over IPv6
    "udp": ({4, 6}, {U}),         # UDP
    "udp4": ({4}, {U}),           # UDP over IPv4
    "udp6": ({6}, {U}),           # UDP over IPv6
    "unix": ({0}, {X}),           # UNIX socket (both UDP and TCP protocols)
    "all": ({4, 6, 0}, {T, U, X}),  # the sum of all the possible families and protocols
}
KINDS = list(DOC_KINDS)
PROTO = {"tcp": (4, T), "tcp6": (6, T), "udp": (4, U), "udp6": (6, U), "unix": (0, X)}

BAD_KIND_STRINGS = ["", " ", "TCP", "Tcp4", "tcp ", " tcp", "tcp\n", "inet5", "inet46", "tcp7", "udp5", "ipv4",
                    "ipv6", "unix4", "unix6", "ALL", "any", "raw", "icmp", "tcp,udp", "tcp4,tcp6", "inet\0",
                    "all ", "unixx", "uni", "tc", "sctp", "*", "4", "6", "None"]


def _b(s):
    return s.encode("latin-1")


def _s(b):
    return b.decode("latin-1")


# ------------------------------------------------------------------------------------------------
# kernel-format encoder (what the generator claims the kernel prints)
# ------------------------------------------------------------------------------------------------

HOST_BYTEORDER = [sys.byteorder]     # the byte order of the (simulated) host that prints the tables


def enc_ip(packed):
    """__be32 words printed with %08X as host integers (net/ipv4/tcp_ipv4.c get_tcp4_sock, tcp_ipv6.c)."""
    return "".join("%08X" % int.from_bytes(packed[i:i + 4], HOST_BYTEORDER[0]) for i in range(0, len(packed), 4))


def enc_addr(packed, port):
    return "%s:%04X" % (enc_ip(packed), port)


def render_inet_line(i, s):
    l = enc_addr(bytes.fromhex(s["l"][0]), s["l"][1])
    r = enc_addr(bytes.fromhex(s["r"][0]), s["r"][1])
    v6 = s["proto"].endswith("6")
    if s["proto"].startswith("tcp"):
        st = s["st"]
        if st == 6:      # get_timewait4_sock
            line = "%4d: %s %s %02X %08X:%08X %02X:%08X %08X %5d %8d %d %d %016x" % (
                i, l, r, st, 0, 0, 3, 0x1234, 0, 0, 0, 0, 2, 0x8b4c0d1e + i)
        elif st == 3:    # get_openreq4
            line = "%4d: %s %s %02X %08X:%08X %02X:%08X %08X %5u %8d %u %d %016x" % (
                i, l, r, st, 0, 0, 1, 0x45, 0, s["uid"], 0, s["inode"], 0, 0x7a3c0d1e + i)
        else:            # get_tcp4_sock
            line = "%4d: %s %s %02X %08X:%08X %02X:%08X %08X %5u %8d %u %d %016x %u %u %u %u %d" % (
                i, l, r, st, s["txq"], s["rxq"], 0, 0, 0, s["uid"], 0, s["inode"], 1, 0x99860dc1 + i,
                100, 0, 0, 10, -1 if st != 10 else 0)
    else:                # udp4_format_sock / udp6
        line = "%5d: %s %s %02X %08X:%08X %02X:%08X %08X %5u %8d %u %d %016x %u" % (
            s["bucket"], l, r, s["st"], s["txq"], s["rxq"], 0, 0, 0, s["uid"], 0, s["inode"], 2,
            0x07a35ac3 + i, s["drops"])
    if not v6:
        width = 149 if s["proto"] == "tcp" else 127
        line = line.ljust(width)
    return line + "\n"


HEADERS = {
    "tcp": "  sl  local_address rem_address   st tx_queue rx_queue tr tm->when retrnsmt   uid  timeout inode".ljust(149) + "\n",
    "tcp6": "  sl  local_address                         remote_address                        st tx_queue rx_queue tr tm->when retrnsmt   uid  timeout inode\n",
    "udp": "   sl  local_address rem_address   st tx_queue rx_queue tr tm->when retrnsmt   uid  timeout inode ref pointer drops".ljust(127) + "\n",
    "udp6": "  sl  local_address                         remote_address                        st tx_queue rx_queue tr tm->when retrnsmt   uid  timeout inode ref pointer drops\n",
    "unix": "Num       RefCount Protocol Flags    Type St Inode Path\n",
}


def render_unix_line(i, s):
    # net/unix/af_unix.c unix_seq_show: "%pK: %08X %08X %08X %04X %02X %5lu" [+ ' ' + path]
    line = b"%016x: %08X %08X %08X %04X %02X %5d" % (0x367008b3 + i * 0x1111, s["refs"], 0, s["flags"],
                                                    s["utype"], s["ust"], s["inode"])
    if s["path"] is not None:
        line += b" " + _b(s["path"])
    return line + b"\n"


def render_tables(socks):
    out = {}
    for name in ("tcp", "tcp6", "udp", "udp6"):
        lines = [HEADERS[name]]
        i = 0
        for s in socks:
            if s["proto"] == name:
                lines.append(render_inet_line(i, s))
                i += 1
        out[name] = "".join(lines).encode("ascii")
    lines = [HEADERS["unix"].encode()]
    for i, s in enumerate(x for x in socks if x["proto"] == "unix"):
        lines.append(render_unix_line(i, s))
    out["unix"] = b"".join(lines)
    return out


# ------------------------------------------------------------------------------------------------
# generator
# ------------------------------------------------------------------------------------------------

def gen_ip4(rng):
    c = rng.randrange(10)
    if c == 0:
        return bytes(4)
    if c == 1:
        return bytes([127, 0, 0, 1])
    if c == 2:
        return bytes([127, rng.randrange(256), rng.randrange(256), rng.randrange(1, 255)])
    if c == 3:
        return bytes([10, rng.randrange(256), rng.randrange(256), rng.randrange(256)])
    if c == 4:
        return bytes([192, 168, rng.randrange(256), rng.randrange(256)])
    if c == 5:
        return bytes([169, 254, rng.randrange(256), rng.randrange(256)])     # link-local
    if c == 6:
        return rng.choice([bytes([255] * 4), bytes([224, 0, 0, 1]), bytes([1, 2, 3, 4]), bytes([0, 0, 0, 1]),
                           bytes([1, 0, 0, 0]), bytes([0, 255, 0, 255])])
    return bytes(rng.randrange(256) for _ in range(4))


def gen_ip6(rng):
    c = rng.randrange(10)
    if c == 0:
        return bytes(16)
    if c == 1:
        return bytes(15) + b"\x01"
    if c in (2, 3):
        return bytes(10) + b"\xff\xff" + gen_ip4(rng)                         # v4-mapped
    if c == 4:
        return b"\xfe\x80" + bytes(6) + bytes(rng.randrange(256) for _ in range(8))   # link-local
    if c == 5:
        return b"\x20\x01\x0d\xb8" + bytes(rng.randrange(256) for _ in range(12))
    if c == 6:
        return rng.choice([b"\xff\x02" + bytes(13) + b"\x01", bytes(range(1, 17)), bytes(12) + gen_ip4(rng),
                           b"\x00\x64\xff\x9b" + bytes(8) + gen_ip4(rng), b"\x00\x01" + bytes(14),
                           bytes(4) + b"\x00\x00\x00\x01" + bytes(8)])
    if c == 7:      # runs of zero groups in odd places (text compression rules)
        groups = [rng.choice([0, 0, rng.randrange(1, 0x10000)]) for _ in range(8)]
        return b"".join(g.to_bytes(2, "big") for g in groups)
    return bytes(rng.randrange(256) for _ in range(16))


def gen_port(rng):
    c = rng.randrange(8)
    if c == 0:
        return 0
    if c == 1:
        return rng.choice([1, 22, 80, 255, 256, 443, 1023, 1024, 32768, 65534, 65535, 0x0100, 0x00FF, 0xFF00])
    return rng.randrange(1, 65536)


UNIX_PLAIN = ["/run/dbus/system_bus_socket", "/tmp/.X11-unix/X0", "/run/user/1000/bus", "/var/run/x.sock", "/s",
              "relative.sock", "./rel/sock", "/tmp/sock-\xc3\xa9", "/tmp/sock-\xff\xfe", "/tmp/@at", "/a:b",
              "/tmp/" + "x" * 100]
UNIX_SPACE = ["/tmp/my sock", "/tmp/a b c/s", "/run/My App/ipc.sock", "/tmp/x y", "/tmp/dir with  two spaces/s",
              "/tmp/tmpaa0y0lpu/my sock"]
# white space the kernel prints verbatim: a leading blank or tab, a carriage return inside the name (any user may bind these)
UNIX_ODD = [" lead", "\tTab", " ", "/tmp/a\rb", "a\r b c", "/tmp/cr\r", "/tmp/x\r\ny"[:7],
            # ... or a line feed: the row then spans several lines of the table
            "/tmp/a\nb c", "/tmp/a\nb", "/tmp/lf\n", "x\n\ny z", "/tmp/two\nline feeds\nhere", "/tmp/x\r\ny", "@abs\nname x"]
UNIX_ABSTRACT = ["@/tmp/.X11-unix/X0", "@abstract", "@", "@@", "@a@b", "@00012", "@/tmp/dbus-Zx1"]
UNIX_ABSTRACT_SPACE = ["@abs name", "@my app socket"]


def gen_unix_path(rng):
    c = rng.randrange(12)
    if c < 3:
        return None
    if c < 6:
        p = rng.choice(UNIX_PLAIN)
        if rng.random() < 0.3:
            p = "/tmp/s%d.sock" % rng.randrange(10**6)
        return p
    if c < 8:
        return rng.choice(UNIX_SPACE if rng.random() < 0.7 else UNIX_ODD)
    if c < 11:
        return rng.choice(UNIX_ABSTRACT)
    return rng.choice(UNIX_ABSTRACT_SPACE)


def gen_bad_kind(rng):
    while True:
        k = _gen_bad_kind(rng)
        if not (k[0] == "s" and k[1] in DOC_KINDS):
            return k


def _gen_bad_kind(rng):
    c = rng.randrange(10)
    if c < 5:
        return ["s", rng.choice(BAD_KIND_STRINGS)]
    if c == 5:
        n = rng.randrange(1, 9)
        return ["s", "".join(rng.choice("tcpudinexal46 _-T") for _ in range(n))]
    if c == 6:
        return ["s", rng.choice(KINDS) + rng.choice(["x", " ", "4", "6", "\t", "s"])]
    if c == 7:
        return rng.choice([["n"], ["i", 4], ["i", 0], ["f", 1.5], ["i", 1]])
    if c == 8:
        return rng.choice([["b", "tcp"], ["b", "inet"], ["b", "all"]])
    return rng.choice([["l", ["tcp"]], ["t", ["tcp", "udp"]], ["t", ["inet"]], ["l", []], ["t", []]])


def decode_kind(k):
    if isinstance(k, str):
        return k
    tag = k[0]
    if tag == "s":
        return k[1]
    if tag == "n":
        return None
    if tag in ("i", "f"):
        return k[1]
    if tag == "b":
        return _b(k[1])
    if tag == "l":
        return list(k[1])
    if tag == "t":
        return tuple(k[1])
    raise ValueError(k)


def gen_case(rng):
    nproc = rng.choice([1, 1, 2, 2, 3, 4, 5])
    pids = rng.sample(range(2, 70000), nproc)
    if rng.random() < 0.05:
        pids[0] = 4194303
    procs = [dict(pid=p, readable=rng.random() >= 0.15, noise=[]) for p in pids]
    nextfd = {p: rng.choice([0, 3, 3, 5]) for p in pids}
    used_inodes = set()

    def new_fd(pid):
        fd = nextfd[pid]
        nextfd[pid] = fd + rng.choice([1, 1, 1, 2, 7, 100, 1000])
        return fd

    # a descriptor that is listed but closed before it is looked at (ENOENT on its link): the scan must carry on
    for p in procs:
        if rng.random() < 0.3:
            p["noise"].append([new_fd(p["pid"]), "@gone"])

    def new_inode():
        while True:
            c = rng.randrange(4)
            ino = (rng.randrange(1, 100) if c == 0 else rng.randrange(100, 10**6) if c < 3
                   else rng.randrange(10**6, 2**32))
            if ino not in used_inodes:
                used_inodes.add(ino)
                return ino

    socks = []
    for _ in range(rng.choice([0, 1, 2, 3, 4, 6, 8, 11, 14])):
        proto = rng.choice(["tcp", "tcp", "tcp6", "tcp6", "udp", "udp6", "unix", "unix", "unix"])
        s = dict(proto=proto, inode=new_inode(), holders=[], uid=rng.choice([0, 1000, 65534]))
        nh = rng.choice([0, 1, 1, 1, 1, 2, 2, 3])
        if proto != "unix":
            g = gen_ip6 if proto.endswith("6") else gen_ip4
            s["l"] = [g(rng).hex(), gen_port(rng)]
            s["txq"], s["rxq"] = rng.choice([0, 0, 1, 0xFFFF]), rng.choice([0, 0, 0x10])
            if proto.startswith("tcp"):
                s["st"] = rng.randrange(1, 12)
                if s["st"] == 10:
                    s["r"] = [bytes(16 if proto.endswith("6") else 4).hex(), 0]
                else:
                    s["r"] = [g(rng).hex(), gen_port(rng) if rng.random() < 0.15 else rng.randrange(1, 65536)]
                if s["st"] in (3, 6):
                    # mini-sockets: no inode, no holder
                    s["inode"] = 0
                    nh = 0
            else:
                if rng.random() < 0.6:
                    s["r"] = [bytes(16 if proto.endswith("6") else 4).hex(), 0]
                else:
                    s["r"] = [g(rng).hex(), gen_port(rng)]
                s["st"] = 7 if s["r"][1] == 0 and not any(bytes.fromhex(s["r"][0])) else 1
                s["bucket"] = rng.randrange(0, 65536)
                s["drops"] = rng.choice([0, 0, 7])
        else:
            s["utype"] = rng.choice([STREAM, STREAM, DGRAM, DGRAM, SEQPACKET])
            s["path"] = gen_unix_path(rng)
            listening = s["utype"] != DGRAM and s["path"] is not None and rng.random() < 0.6
            s["flags"] = 0x10000 if listening else 0
            s["ust"] = 1 if listening or rng.random() < 0.5 else 3
            s["refs"] = 2 if s["ust"] == 1 else 3
        for _h in range(nh):
            pid = rng.choice(pids)
            s["holders"].append([pid, new_fd(pid)])
        socks.append(s)
    # descriptors that are not sockets of the tables (files, pipes, netlink/packet sockets)
    for p in procs:
        for _ in range(rng.choice([0, 1, 2, 3])):
            tgt = rng.choice(["/dev/null", "pipe:[%d]" % rng.randrange(1, 10**6), "anon_inode:[eventpoll]",
                              "socket:[%d]" % new_inode(), "/tmp/socket:[12]", "anon_inode:[eventfd]",
                              "/tmp/file (deleted)"])
            p["noise"].append([new_fd(p["pid"]), tgt])
    has_v6 = any(s["proto"].endswith("6") for s in socks)
    case = dict(procs=procs, socks=socks, no_v6_files=(not has_v6 and rng.random() < 0.15),
                bad_kinds=[gen_bad_kind(rng), gen_bad_kind(rng)])
    return case


def nontrivial(case):
    for s in case["socks"]:
        if s["proto"].endswith("6") or len(s["holders"]) > 1:
            return True
        if s["proto"] == "unix":
            if s["path"] and (" " in s["path"] or s["path"].startswith("@")):
                return True
        elif s["l"][1] == 0 or s["r"][1] == 0:
            return True
    return False


# ------------------------------------------------------------------------------------------------
# oracle
# ------------------------------------------------------------------------------------------------

def sock_rows(s, holders, ps, with_pid):
    """Canonical expected rows of socket s, one per (pid, fd) in holders."""
    fam, prot = PROTO[s["proto"]]
    out = []
    for pid, fd in holders:
        if prot == X:
            path = os.fsdecode(_b(s["path"])) if s["path"] is not None else ""
            row = (fd, AF_UNIX, s["utype"], path, "", ps.CONN_NONE)
        else:
            la = (s["l"][0], s["l"][1]) if s["l"][1] else ()
            ra = (s["r"][0], s["r"][1]) if s["r"][1] else ()
            status = getattr(ps, "CONN_" + TCP_STATES[s["st"]]) if prot == T else ps.CONN_NONE
            row = (fd, AF_INET if fam == 4 else AF_INET6, STREAM if prot == T else DGRAM, la, ra, status)
        out.append(row + ((pid,) if with_pid else ()))
    return out


def expectation(case, kind, ps, pid=None):
    """-> (required rows, [alternative groups], optional rows, row -> socket index)."""
    fams, prots = DOC_KINDS[kind]
    readable = {p["pid"] for p in case["procs"] if p["readable"]}
    required, groups, optional, owner = set(), [], set(), {}
    for idx, s in enumerate(case["socks"]):
        fam, prot = PROTO[s["proto"]]
        if fam not in fams or prot not in prots:
            continue
        if pid is None:
            vis = [(p, fd) for p, fd in s["holders"] if p in readable]
            if not vis:
                vis = [(None, -1)]
            rows = sock_rows(s, vis, ps, True)
        else:
            vis = [(p, fd) for p, fd in s["holders"] if p == pid]
            if not vis:
                continue
            rows = sock_rows(s, vis, ps, False)
        for r in rows:
            owner.setdefault(r, idx)
        if prot == X:
            if s["utype"] == SEQPACKET:
                optional.update(rows)
            else:
                required.update(rows)
        elif len(rows) == 1:
            required.add(rows[0])
        else:
            groups.append(set(rows))
    return required, groups, optional, owner


def canon_addr(a, fam):
    if fam == AF_UNIX:
        return a if isinstance(a, str) else ("bad-type", repr(a))
    if a == () or a == "" or a is None:
        return () if a == () else ("bad-empty", repr(a))
    try:
        ip, port = a
        obj = ipaddress.ip_address(ip)
    except (ValueError, TypeError):
        return ("bad-addr", repr(a))
    if obj.version != (4 if fam == AF_INET else 6) or type(port) is not int:
        return ("bad-addr", repr(a))
    if ip != socket.inet_ntop(fam, obj.packed):
        # same address, but not spelled as the socket API (getsockname / inet_ntop) and the kernel's own tools spell it,
        # e.g. '::ffff:7f00:1' for the IPv4-mapped '::ffff:127.0.0.1': the row would never compare equal to getpeername()
        _NONCANON.append((ip, socket.inet_ntop(fam, obj.packed)))
    return (obj.packed.hex(), port)


_NONCANON = []


def canon_rows(result, with_pid):
    rows, bad = [], []
    del _NONCANON[:]
    for c in result:
        try:
            fam, typ = int(c.family), int(c.type)
            row = (c.fd, fam, typ, canon_addr(c.laddr, fam), canon_addr(c.raddr, fam), c.status)
            if with_pid:
                row += (c.pid,)
            if len(c) != (7 if with_pid else 6) or type(c.fd) is not int:
                raise ValueError("shape")
            hash(row)
        except Exception as e:  # noqa: BLE001
            bad.append(f"{c!r}: {e!r}")
            continue
        rows.append(row)
    for got, want in sorted(set(_NONCANON))[:3]:
        bad.append(f"address text {got!r} is not the canonical spelling {want!r}")
    return rows, bad


FIELD_NAMES = ["fd", "family", "type", "laddr", "raddr", "status", "pid"]


def proto_of(row):
    if row[1] == AF_UNIX:
        return "unix"
    base = "tcp" if row[2] == STREAM else "udp" if row[2] == DGRAM else "type%s" % row[2]
    return base + ("6" if row[1] == AF_INET6 else "4" if row[1] == AF_INET else "?")


def compare(case, kind, got_rows, exp, form, acc, ps):
    """-> list of (mech, detail)."""
    required, groups, optional, owner = exp
    viols = []
    gotset = set(got_rows)
    acc.count("rows_compared", len(got_rows))
    if len(gotset) != len(got_rows):
        dup = sorted((r for r in gotset if got_rows.count(r) > 1), key=repr)[:3]
        viols.append(("duplicate_rows", f"{form} kind={kind}: rows returned more than once: {dup!r}"))
    allowed = set(required) | optional
    for g in groups:
        allowed |= g
    missing = [r for r in required if r not in gotset]
    extra = [r for r in gotset if r not in allowed]
    for g in groups:
        n = len(gotset & g)
        acc.count("shared_inet_sockets_compared")
        if n == 0:
            missing.append(sorted(g, key=repr)[0])
        elif n > 1:
            viols.append(("inet_socket_listed_more_than_once",
                          f"{form} kind={kind}: {sorted(gotset & g, key=repr)!r}"))
    acc.count("optional_seqpacket_rows_seen", len(gotset & optional))
    if not missing and not extra:
        return viols
    socks = case["socks"]
    readable = {p["pid"] for p in case["procs"] if p["readable"]}
    explained_extra = set()
    leftovers = []
    for m in missing:
        s = socks[owner[m]]
        if s["proto"] == "unix":
            blank = m[:3] + ("",) + m[4:]
            spacey = s["path"] is not None and " " in s["path"]
            if spacey and blank in gotset:
                explained_extra.add(blank)
                viols.append(("unix_path_with_space_lost",
                              f"{form} kind={kind}: UNIX socket bound to {s['path']!r} returned with laddr='' "
                              f"(want {m!r})"))
                continue
            if form.endswith("system"):
                others = [(p, fd) for p, fd in s["holders"] if p in readable and p != m[-1]]
                cands = set(sock_rows(s, others, ps, True))
                if spacey:
                    cands |= {r[:3] + ("",) + r[4:] for r in cands}
                seen = sorted(cands & gotset, key=repr)
                if seen:
                    viols.append(("unix_shared_between_processes_holder_lost",
                                  f"{form} kind={kind}: UNIX socket inode {s['inode']} held by {s['holders']!r}: "
                                  f"row {m!r} missing, only {seen!r} returned"))
                    continue
        leftovers.append(m)
    # an optional (seqpacket) row whose path has a space shows up with laddr='' as well
    for o in optional:
        s = socks[owner[o]]
        blank = o[:3] + ("",) + o[4:]
        if s["path"] is not None and " " in s["path"] and blank in extra and blank not in explained_extra:
            explained_extra.add(blank)
            viols.append(("unix_path_with_space_lost",
                          f"{form} kind={kind}: UNIX seqpacket socket bound to {s['path']!r} returned with laddr='' "
                          f"(got {blank!r})"))
    extra = [e for e in extra if e not in explained_extra]
    # pair remaining missing/extra rows that differ in one field
    for m in leftovers:
        pair = None
        best = 99
        for e in extra:
            if len(e) == len(m) and e[1:3] == m[1:3]:
                diff = [i for i in range(len(m)) if m[i] != e[i]]
                # same descriptor with other contents, or same contents under another descriptor/owner
                if (len(diff) == 1 or not {0, 6} & set(diff)) and len(diff) < best:
                    pair, best = (e, diff), len(diff)
        if pair:
            e, diff = pair
            extra.remove(e)
            mech = "+".join(FIELD_NAMES[i] for i in diff) + "_wrong:" + proto_of(m)
            if set(diff) <= {0, 6} and len(socks[owner[m]]["holders"]) > 1:
                mech += ":shared_socket"
            viols.append((mech, f"{form} kind={kind}: got {e!r} want {m!r}"))
        else:
            viols.append((f"row_missing:{proto_of(m)}", f"{form} kind={kind}: want {m!r}; got {sorted(gotset, key=repr)[:8]!r}"))
    for e in extra:
        fams, prots = DOC_KINDS[kind]
        fam = {AF_INET: 4, AF_INET6: 6, AF_UNIX: 0}.get(e[1])
        prot = X if e[1] == AF_UNIX else {STREAM: T, DGRAM: U}.get(e[2])
        if fam not in fams or prot not in prots:
            viols.append((f"row_of_other_kind:{proto_of(e)}_under_{kind}", f"{form} kind={kind}: got {e!r}"))
        else:
            viols.append((f"row_unexpected:{proto_of(e)}", f"{form} kind={kind}: got {e!r}; required "
                          f"{sorted(required, key=repr)[:8]!r}"))
    return viols


# ------------------------------------------------------------------------------------------------
# environment / live validation of the encoder
# ------------------------------------------------------------------------------------------------

_env = {}


def _real_lines(name):
    from vlib import vkernel
    with vkernel.real_open("/proc/net/" + name, "rb") as f:
        return f.read().split(b"\n")[1:]


def _find_inode_line(name, inode, col):
    for ln in _real_lines(name):
        tok = ln.split()
        if len(tok) > col and tok[col] == str(inode).encode():
            return ln
    return None


def validate_encoder():
    """Compare the generator's rendering with the live kernel's lines for sockets opened here.
    -> (n_ok, [problems])"""
    import tempfile
    problems, ok = [], 0
    keep = []
    try:
        specs = [("tcp", socket.AF_INET, "127.0.0.1"), ("tcp6", socket.AF_INET6, "::1")]
        for name, fam, ip in specs:
            try:
                srv = socket.socket(fam, socket.SOCK_STREAM)
                srv.bind((ip, 0))
                srv.listen(1)
                cli = socket.socket(fam, socket.SOCK_STREAM)
                cli.connect(srv.getsockname()[:2])
            except OSError as e:
                problems.append(f"{name}: cannot open a live socket on {ip}: {e!r}")
                continue
            keep += [srv, cli]
            packed = socket.inet_pton(fam, ip)
            for sk, st in ((srv, 10), (cli, 1)):
                ino = os.fstat(sk.fileno()).st_ino
                ln = _find_inode_line(name, ino, 9)
                if ln is None:
                    problems.append(f"{name}: inode {ino} not found in live /proc/net/{name}")
                    continue
                tok = ln.split()
                lport = sk.getsockname()[1]
                rport = sk.getpeername()[1] if st == 1 else 0
                s = dict(proto=name, l=[packed.hex(), lport],
                         r=[(packed if st == 1 else bytes(len(packed))).hex(), rport], st=st, txq=0, rxq=0,
                         uid=os.getuid(), inode=ino)
                mine = render_inet_line(0, s).split()
                if [t.decode() for t in tok[1:4]] != mine[1:4] or len(tok) != len(mine) or tok[9].decode() != mine[9]:
                    problems.append(f"{name}: live line {ln!r} != generated {render_inet_line(0, s)!r}")
                else:
                    ok += 1
        for name, fam, ip in (("udp", socket.AF_INET, "127.0.0.1"), ("udp6", socket.AF_INET6, "::1")):
            try:
                sk = socket.socket(fam, socket.SOCK_DGRAM)
                sk.bind((ip, 0))
            except OSError as e:
                problems.append(f"{name}: cannot open a live socket on {ip}: {e!r}")
                continue
            keep.append(sk)
            ino = os.fstat(sk.fileno()).st_ino
            ln = _find_inode_line(name, ino, 9)
            packed = socket.inet_pton(fam, ip)
            s = dict(proto=name, l=[packed.hex(), sk.getsockname()[1]], r=[bytes(len(packed)).hex(), 0], st=7,
                     txq=0, rxq=0, uid=os.getuid(), inode=ino, bucket=0, drops=0)
            mine = render_inet_line(0, s).split()
            if ln is None or [t.decode() for t in ln.split()[1:4]] != mine[1:4] or len(ln.split()) != len(mine):
                problems.append(f"{name}: live line {ln!r} != generated {render_inet_line(0, s)!r}")
            else:
                ok += 1
        with tempfile.TemporaryDirectory(prefix="c11_") as d:
            for path, typ, listen in ((d + "/my sock", socket.SOCK_STREAM, True), (d + "/plain", socket.SOCK_DGRAM, False),
                                      ("\0c11 abs %d" % os.getpid(), socket.SOCK_STREAM, True),
                                      (d + "/seq", socket.SOCK_SEQPACKET, True), (None, socket.SOCK_STREAM, False)):
                sk = socket.socket(socket.AF_UNIX, typ)
                keep.append(sk)
                if path is not None:
                    sk.bind(path)
                if listen:
                    sk.listen(1)
                ino = os.fstat(sk.fileno()).st_ino
                ln = _find_inode_line("unix", ino, 6)
                shown = None if path is None else path.replace("\0", "@")
                s = dict(proto="unix", refs=2, flags=0x10000 if listen else 0, utype=int(typ), ust=1, inode=ino,
                         path=None if shown is None else _s(os.fsencode(shown)))
                mine = render_unix_line(0, s)
                if ln is None or ln.split(b" ", 1)[1] != mine.rstrip(b"\n").split(b" ", 1)[1]:
                    problems.append(f"unix: live line {ln!r} != generated {mine!r}")
                else:
                    ok += 1
                # and the fd link text
                if os.readlink(f"/proc/self/fd/{sk.fileno()}") != f"socket:[{ino}]":
                    problems.append("fd link text is not socket:[inode]")
    finally:
        for sk in keep:
            sk.close()
    return ok, problems


def env_ps():
    return _env["ps"]


def setup(validate=True):
    if _env:
        return _env
    from vlib import psu, vkernel
    from vlib.proctable import ProcTable
    ps = psu.load()
    ok, problems = validate_encoder() if validate else (0, [])
    _env.update(ps=ps, vkernel=vkernel, ProcTable=ProcTable, enc_ok=ok, enc_problems=problems)
    return _env


# ------------------------------------------------------------------------------------------------
# running a case
# ------------------------------------------------------------------------------------------------

def build_table(case, env):
    vkernel, ProcTable = env["vkernel"], env["ProcTable"]
    t = ProcTable(btime=1_700_000_000)
    t.spawn(1, 1, ppid=0, comm=b"init")
    fds = {p["pid"]: {} for p in case["procs"]}
    for s in case["socks"]:
        for pid, fd in s["holders"]:
            fds[pid][fd] = dict(target="socket:[%d]" % s["inode"], pos=0, flags=0o2)
    for p in case["procs"]:
        for fd, tgt in p["noise"]:
            if tgt == "@gone":
                fds[p["pid"]][fd] = dict(target="/closed/meanwhile", pos=0, flags=0o2, gone=True)
            else:
                fds[p["pid"]][fd] = dict(target=tgt, pos=0, flags=0o2)
    for i, p in enumerate(case["procs"]):
        pr = t.spawn(p["pid"], 100 + i, ppid=1, comm=b"holder%d" % i)
        pr.fds = dict(sorted(fds[p["pid"]].items()))        # the kernel lists descriptors in ascending order
        if not p["readable"]:
            pr.overrides["fd"] = vkernel.D([], list_err=PermissionError(13, "Permission denied"))
    for name, data in render_tables(case["socks"]).items():
        if case.get("no_v6_files") and name.endswith("6"):
            continue
        t.rootfiles["net/" + name] = data
    return t


def call_checked(fn, form, kind, with_pid, case, exp_fn, acc, viols):
    try:
        res = fn()
    except Exception as e:  # noqa: BLE001
        if isinstance(e, ValueError):
            viols.append((f"valid_kind_rejected:{kind}", f"{form} kind={kind!r} raised {e!r}"))
        else:
            viols.append((f"exception:{type(e).__name__}", f"{form} kind={kind!r} raised {e!r}"))
        return
    if not isinstance(res, list):
        viols.append(("result_not_a_list", f"{form} kind={kind!r} returned {type(res).__name__}"))
        return
    rows, bad = canon_rows(res, with_pid)
    for b in bad:
        viols.append(("address_text_not_canonical" if b.startswith("address text") else "malformed_row", f"{form} kind={kind!r}: {b}"))
    viols.extend(compare(case, kind, rows, exp_fn(), form, acc, env_ps()))


def run_case(case, acc):
    if case.get("live"):
        return run_live_case(case, acc)
    env = setup()
    ps, vkernel = env["ps"], env["vkernel"]
    ps.PROCFS_PATH = "/vproc"
    t = build_table(case, env)
    vk = vkernel.VK()
    vk.table = t
    vk.mount("/vproc", t)
    viols = []
    with vk:
        for kind in KINDS:
            acc.count("kinds_exercised")
            acc.count("systemwide_calls")
            call_checked(lambda: ps.net_connections(kind), "system", kind, True, case,
                         lambda: expectation(case, kind, ps), acc, viols)
        for p in case["procs"]:
            try:
                proc = ps.Process(p["pid"])
            except Exception as e:  # noqa: BLE001
                viols.append(("construct_exception", f"Process({p['pid']}) raised {e!r}"))
                continue
            for kind in KINDS:
                acc.count("perprocess_calls")
                if not p["readable"]:
                    try:
                        r = proc.net_connections(kind)
                    except ps.AccessDenied:
                        acc.count("unreadable_fd_dir_access_denied")
                    except Exception as e:  # noqa: BLE001
                        viols.append((f"unreadable_fd_dir_exception:{type(e).__name__}",
                                      f"Process({p['pid']}).net_connections({kind!r}) raised {e!r}"))
                    else:
                        viols.append(("unreadable_fd_dir_result",
                                      f"Process({p['pid']}).net_connections({kind!r}) returned {r!r} although "
                                      f"the descriptors cannot be listed"))
                    continue
                call_checked(lambda: proc.net_connections(kind), f"process({p['pid']})", kind, False, case,
                             lambda: expectation(case, kind, ps, pid=p["pid"]), acc, viols)
        # invalid kinds: ValueError on both forms
        for bk in case["bad_kinds"]:
            kind = decode_kind(bk)
            forms = [("system", lambda: ps.net_connections(kind))]
            if case["procs"]:
                pid0 = case["procs"][0]["pid"]
                forms.append(("process", lambda: ps.Process(pid0).net_connections(kind)))
            for form, fn in forms:
                try:
                    r = fn()
                except ValueError as e:
                    if hasattr(e, "pid"):
                        viols.append(("invalid_kind_wrong_exception", f"{form} kind={kind!r} raised {e!r}"))
                    else:
                        acc.count("invalid_kinds_rejected")
                except Exception as e:  # noqa: BLE001
                    viols.append((f"invalid_kind_wrong_exception:{type(e).__name__}",
                                  f"{form} kind={kind!r} raised {e!r} instead of ValueError"))
                else:
                    viols.append(("invalid_kind_accepted", f"{form} kind={kind!r} returned {str(r)[:200]}"))
    acc.count("sockets_generated", len(case["socks"]))
    acc.count("unreadable_processes", sum(1 for p in case["procs"] if not p["readable"]))
    # narrow the mechanism key when the table holds a UNIX name with white space the line parser may trip over
    odd = [s_["path"] for s_ in case["socks"] if s_["proto"] == "unix" and s_.get("path")
           and ("\r" in s_["path"] or "\n" in s_["path"] or s_["path"] != s_["path"].lstrip())]
    if odd:
        acc.count("tables_with_odd_whitespace_in_a_unix_name")
        feat = (":unix_name_with_line_feed" if any("\n" in o for o in odd) else
                ":unix_name_with_carriage_return" if any("\r" in o for o in odd) else ":unix_name_with_leading_whitespace")
        viols = [(m + feat if ("unix" in m or m.startswith("exception:RuntimeError")) and not m.endswith(feat) else m, d) for m, d in viols]
    acc.case(case, nontrivial(case), viols)


# ------------------------------------------------------------------------------------------------
# concurrent callers over a static table: every answer must be the sequential one
# ------------------------------------------------------------------------------------------------

def run_threads_case(case, acc):
    import sys
    import threading
    env = setup()
    ps, vkernel = env["ps"], env["vkernel"]
    ps.PROCFS_PATH = "/vproc"
    t = build_table(case, env)
    vk = vkernel.VK()
    vk.table = t
    vk.mount("/vproc", t)
    viols = []
    readable = [p["pid"] for p in case["procs"] if p["readable"]]
    jobs = [("system", k, None) for k in ("all", "inet", "tcp", "unix", "udp6", "tcp4")]
    jobs += [("process", k, pid) for pid in readable[:3] for k in ("all", "inet", "unix")]

    def call(job):
        form, kind, pid = job
        res = ps.net_connections(kind) if form == "system" else ps.Process(pid).net_connections(kind)
        rows, _bad = canon_rows(res, form == "system")
        return sorted(rows, key=repr)
    errors = []
    mismatches = []
    old = sys.getswitchinterval()
    with vk:
        try:
            base = {job: call(job) for job in jobs}
        except Exception as e:  # noqa: BLE001
            acc.case(case, False, [(f"exception:{type(e).__name__}", f"sequential baseline raised {e!r}")])
            return
        barrier = threading.Barrier(3)

        def worker(i):
            rng = harness.rng_for(case.get("seed", 0), "c11t", i)
            try:
                barrier.wait()
                for _ in range(25):
                    job = rng.choice(jobs)
                    got = call(job)
                    acc.count("concurrent_calls_compared")
                    if got != base[job]:
                        mismatches.append((job, got, base[job]))
            except BaseException as e:  # noqa: BLE001
                errors.append((i, e))
        sys.setswitchinterval(1e-6)
        try:
            ths = [threading.Thread(target=worker, args=(i,), daemon=True) for i in range(3)]
            for th in ths:
                th.start()
            for th in ths:
                th.join(120)
        finally:
            sys.setswitchinterval(old)
    for i, e in errors:
        viols.append((f"concurrent_exception:{type(e).__name__}", f"thread {i}: {e!r}"))
    for job, got, want in mismatches[:3]:
        lost = [r for r in want if r not in got][:3]
        extra = [r for r in got if r not in want][:3]
        viols.append(("concurrent_result_differs_from_sequential", f"{job}: missing {lost} unexpected {extra} (static table, "
                                                                  f"{len(mismatches)} of the concurrent calls differ)"))
    acc.case(dict(case, threads=True), bool(jobs) and len(case["socks"]) >= 2, viols)


# ------------------------------------------------------------------------------------------------
# live workload: the same oracle over real sockets of this worker (and a forked child) on /proc
# ------------------------------------------------------------------------------------------------

LIVE_CASES = [
    dict(live=True, name="inet_basic", fork=False, specs=[
        dict(proto="tcp", ip="127.0.0.1", listen=True), dict(proto="tcp6", ip="::1", listen=True),
        dict(proto="udp", ip="127.0.0.1"), dict(proto="udp6", ip="::1"), dict(proto="tcp", ip="0.0.0.0", listen=True),
        dict(proto="tcp6", ip="::", listen=True), dict(proto="udp", ip="127.0.0.1", connect=True),
        dict(proto="tcp", ip="127.0.0.1", connect=True), dict(proto="tcp6", ip="::1", connect=True),
        dict(proto="tcp6", ip="::ffff:127.0.0.1", listen=True)]),
    dict(live=True, name="unix_paths", fork=False, specs=[
        dict(proto="unix", utype=STREAM, path="plain.sock", listen=True), dict(proto="unix", utype=DGRAM, path="dgram.sock"),
        dict(proto="unix", utype=STREAM, path="my sock", listen=True), dict(proto="unix", utype=STREAM, path="@c11-abstract-%d"),
        dict(proto="unix", utype=SEQPACKET, path="seq.sock", listen=True), dict(proto="unix", utype=STREAM, path=None)]),
    dict(live=True, name="unix_shared_with_child", fork=True, specs=[
        dict(proto="unix", utype=STREAM, path="shared.sock", listen=True), dict(proto="tcp", ip="127.0.0.1", listen=True)]),
]


def run_live_case(case, acc):
    """Real sockets, real /proc. Ground truth = what this function opened (getsockname/fileno/getpid)."""
    import tempfile
    env = setup()
    ps = env["ps"]
    ps.PROCFS_PATH = "/proc"
    me = os.getpid()
    keep, socks = [], []
    viols = []
    child = None
    tmp = tempfile.TemporaryDirectory(prefix="c11live_")
    # descriptors this worker inherited (e.g. a socket as stdin) are not part of the model
    foreign = set()
    for name in os.listdir("/proc/self/fd"):
        try:
            if os.readlink(f"/proc/self/fd/{name}").startswith("socket:["):
                foreign.add(int(name))
        except OSError:
            pass
    try:
        for sp in case["specs"]:
            if sp["proto"] == "unix":
                sk = socket.socket(socket.AF_UNIX, sp["utype"])
                path = sp["path"]
                shown = None
                if path is not None:
                    if path.startswith("@"):
                        name = path[1:] % me if "%d" in path else path[1:]
                        sk.bind("\0" + name)
                        shown = "@" + name
                    else:
                        shown = os.path.join(tmp.name, path)
                        sk.bind(shown)
                if sp.get("listen"):
                    sk.listen(1)
                s = dict(proto="unix", utype=sp["utype"], path=shown, inode=os.fstat(sk.fileno()).st_ino,
                         holders=[[me, sk.fileno()]])
            else:
                fam = socket.AF_INET6 if sp["proto"].endswith("6") else socket.AF_INET
                typ = socket.SOCK_STREAM if sp["proto"].startswith("tcp") else socket.SOCK_DGRAM
                sk = socket.socket(fam, typ)
                peer = None
                if sp.get("connect"):
                    srv = socket.socket(fam, typ)
                    srv.bind((sp["ip"], 0))
                    if typ == socket.SOCK_STREAM:
                        srv.listen(1)
                    keep.append(srv)
                    sk.connect(srv.getsockname()[:2])
                    peer = srv
                else:
                    sk.bind((sp["ip"], 0))
                    if sp.get("listen"):
                        sk.listen(1)
                ln = sk.getsockname()
                rn = sk.getpeername() if peer is not None else None
                n = 16 if fam == socket.AF_INET6 else 4
                s = dict(proto=sp["proto"], inode=os.fstat(sk.fileno()).st_ino, holders=[[me, sk.fileno()]],
                         l=[socket.inet_pton(fam, ln[0]).hex(), ln[1]],
                         r=[socket.inet_pton(fam, rn[0]).hex(), rn[1]] if rn else [bytes(n).hex(), 0],
                         st=(1 if peer is not None else 10 if sp.get("listen") else 7))
                if peer is not None:
                    # the listening/peer socket is ours too
                    pl = peer.getsockname()
                    socks.append(dict(proto=sp["proto"], inode=os.fstat(peer.fileno()).st_ino,
                                      holders=[[me, peer.fileno()]], l=[socket.inet_pton(fam, pl[0]).hex(), pl[1]],
                                      r=[bytes(n).hex(), 0], st=10))
            keep.append(sk)
            socks.append(s)
        if case.get("fork"):
            r, w = os.pipe()
            child = os.fork()
            if child == 0:
                try:
                    os.close(w)
                    os.read(r, 1)
                finally:
                    os._exit(0)
            os.close(r)
            for s in socks:
                s["holders"].append([child, s["holders"][0][1]])
        mine = {me} | ({child} if child else set())
        model = dict(procs=[dict(pid=p, readable=True) for p in sorted(mine)], socks=socks)
        inodes = {s["inode"] for s in socks}
        for kind in KINDS:
            acc.count("live_calls")
            try:
                res = ps.net_connections(kind)
            except Exception as e:  # noqa: BLE001
                viols.append((f"live_exception:{type(e).__name__}", f"live system kind={kind!r} raised {e!r}"))
                continue
            # only the rows of our own processes are ground truth; accepted TCP children of `connect` specs are
            # unknown to the model (held by nobody here: the server side was never accept()ed) -> pid filter
            rows, bad = canon_rows([c for c in res if c.pid in mine and c.fd not in foreign], True)
            for b in bad:
                viols.append(("address_text_not_canonical" if b.startswith("address text") else "malformed_row", f"live kind={kind!r}: {b}"))
            viols.extend(compare(model, kind, rows, expectation(model, kind, ps), "LIVE-KERNEL system", acc, ps))
            try:
                res = ps.Process(me).net_connections(kind)
            except Exception as e:  # noqa: BLE001
                viols.append((f"live_exception:{type(e).__name__}", f"live process kind={kind!r} raised {e!r}"))
                continue
            rows, bad = canon_rows([c for c in res if c.fd not in foreign], False)
            viols.extend(compare(model, kind, rows, expectation(model, kind, ps, pid=me), "LIVE-KERNEL process(self)",
                                 acc, ps))
        acc.count("live_sockets_opened", len(inodes))
    finally:
        ps.PROCFS_PATH = "/vproc"
        if child:
            try:
                os.write(w, b"x")
                os.close(w)
            except OSError:
                pass
            os.waitpid(child, 0)
        for sk in keep:
            sk.close()
        tmp.cleanup()
    acc.case(case, True, viols)


# ------------------------------------------------------------------------------------------------
# plan / shards
# ------------------------------------------------------------------------------------------------

def handmade_cases():
    """Small fixed tables: every TCP state x family, the structured address classes, the documented corner cases."""
    out = []
    z4, z6 = bytes(4).hex(), bytes(16).hex()
    for st in TCP_STATES:
        for proto, ip, rip in (("tcp", "01020304", "0a000005"), ("tcp6", bytes(range(1, 17)).hex(),
                                                                 (bytes(10) + b"\xff\xff\x7f\x00\x00\x01").hex())):
            held = st not in (3, 6)
            out.append(dict(procs=[dict(pid=50, readable=True, noise=[])], no_v6_files=False, bad_kinds=[],
                            socks=[dict(proto=proto, inode=7000 + st if held else 0, holders=[[50, 3]] if held else [],
                                        uid=0, l=[ip, 0x1F90], r=[rip if st != 10 else (z6 if proto == "tcp6" else z4),
                                                                    0 if st == 10 else 0x0016],
                                        st=st, txq=0, rxq=0)]))
    for path in UNIX_PLAIN + UNIX_SPACE + UNIX_ABSTRACT + UNIX_ABSTRACT_SPACE + [None]:
        for utype in (STREAM, DGRAM, SEQPACKET):
            out.append(dict(procs=[dict(pid=50, readable=True, noise=[]), dict(pid=60, readable=True, noise=[])],
                            no_v6_files=True, bad_kinds=[],
                            socks=[dict(proto="unix", inode=9001, holders=[[50, 4]], uid=0, utype=utype, path=path,
                                        flags=0, ust=1, refs=2)]))
    # sockets inherited across fork(): one holder in each of two processes (+ a dup'ed descriptor)
    two = [dict(pid=50, readable=True, noise=[]), dict(pid=60, readable=True, noise=[])]
    out.append(dict(procs=two, no_v6_files=True, bad_kinds=[],
                    socks=[dict(proto="unix", inode=9100, holders=[[50, 4], [60, 4]], uid=0, utype=STREAM,
                                path="/run/shared.sock", flags=0x10000, ust=1, refs=2)]))
    out.append(dict(procs=two, no_v6_files=True, bad_kinds=[],
                    socks=[dict(proto="unix", inode=9101, holders=[[50, 4], [50, 9]], uid=0, utype=DGRAM,
                                path="/run/dup.sock", flags=0, ust=1, refs=2)]))
    out.append(dict(procs=two, no_v6_files=True, bad_kinds=[],
                    socks=[dict(proto="tcp", inode=9102, holders=[[50, 4], [60, 4], [60, 7]], uid=0, st=10, txq=0, rxq=0,
                                l=["7f000001", 8080], r=[z4, 0])]))
    for bk in BAD_KIND_STRINGS:
        out.append(dict(procs=[dict(pid=50, readable=True, noise=[])], no_v6_files=False, socks=[],
                        bad_kinds=[["s", bk]]))
    for bk in (["n"], ["i", 4], ["f", 1.5], ["b", "tcp"], ["l", ["tcp"]], ["t", ["inet"]], ["t", []]):
        out.append(dict(procs=[dict(pid=50, readable=True, noise=[])], no_v6_files=False, socks=[], bad_kinds=[bk]))
    return out


def plan(tier, seed):
    n = 10_000 if tier == "quick" else 150_000
    shards = [dict(kind="fixed")]
    for s, c in harness.split_range(n, 15 if tier == "quick" else 46):
        shards.append(dict(kind="gen", seed=seed, start=s, count=c))
    shards.append(dict(kind="live"))
    for part in range(2 if tier == "quick" else 8):
        shards.append(dict(kind="threads", seed=seed, part=part, count=40 if tier == "quick" else 600))
    shards.append(dict(kind="gen_no_v6_bind", seed=seed, count=300 if tier == "quick" else 6000))
    shards.append(dict(kind="gen_big_endian", seed=seed, count=300 if tier == "quick" else 6000))
    return shards


def shard_cmd_prefix(shard):
    # a fresh network namespace: AF_INET6 sockets exist in the tables, but ::1 cannot be bound (lo is down), which is what
    # psutil's supports_ipv6() probes
    return ["unshare", "-n"] if "gen_no_v6_bind" in (shard.get("kind"), shard.get("origin")) else []


def run_shard(shard):
    acc = harness.Acc()
    env = setup(validate="gen_no_v6_bind" not in (shard.get("kind"), shard.get("origin")))
    acc.count("encoder_live_validations", env["enc_ok"])
    if env["enc_problems"]:
        acc.inconclusive = "generator encoder disagrees with the live kernel: " + "; ".join(env["enc_problems"][:3])
        return acc.result()
    if shard["kind"] == "fixed":
        for case in handmade_cases():
            run_case(case, acc)
        acc.count("handmade_cases", acc.evals)
    elif shard["kind"] == "live":
        for case in LIVE_CASES:
            run_case(case, acc)
    elif shard["kind"] == "gen":
        for i in range(shard["start"], shard["start"] + shard["count"]):
            run_case(gen_case(harness.rng_for(shard["seed"], "c11", i)), acc)
    elif shard["kind"] == "gen_big_endian":
        # the same tables as a big-endian kernel (s390x, ppc64, mips) prints them, read by psutil as it runs there: its
        # byte-order constant is what sys.byteorder gives on such a host
        import psutil._pslinux as pl
        old = pl.LITTLE_ENDIAN
        pl.LITTLE_ENDIAN = False
        HOST_BYTEORDER[0] = "big"
        try:
            for i in range(shard["count"]):
                run_case(gen_case(harness.rng_for(shard["seed"], "c11be", i)), acc)
            acc.count("cases_as_on_a_big_endian_host", shard["count"])
        finally:
            pl.LITTLE_ENDIAN = old
            HOST_BYTEORDER[0] = sys.byteorder
    elif shard["kind"] == "gen_no_v6_bind":
        from psutil._common import supports_ipv6
        if supports_ipv6():
            acc.count("no_v6_bind_skipped")
            acc.extra["gen_no_v6_bind"] = "skipped: ::1 can be bound here (no private network namespace)"
        else:
            for i in range(shard["count"]):
                run_case(gen_case(harness.rng_for(shard["seed"], "c11nb", i)), acc)
            acc.count("cases_where_loopback_v6_cannot_be_bound", shard["count"])
    elif shard["kind"] == "threads":
        for i in range(shard["count"]):
            case = gen_case(harness.rng_for(shard["seed"], "c11t", shard["part"], i))
            case["seed"] = shard["seed"] * 100003 + shard["part"] * 1009 + i
            run_threads_case(case, acc)
    elif shard["kind"] == "cases":
        for case in shard["cases"]:
            if case.get("threads"):
                run_threads_case(case, acc)
            else:
                run_case(case, acc)
    return acc.result()
