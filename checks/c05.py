"""C05 - children(), parent(), parents() describe the real process tree (any parent-link graph).

Generated process tables with arbitrary ppid assignments (forests, self-loops, cycles, unlisted
parents), arbitrary start-tick orderings incl. ties, mid-walk vanishes, recycled caller pid; histories of such tables seen by long-lived Process objects (pids recycled repeatedly).
Termination is decided logically by a settrace line budget, not by wall time.
"""
import itertools
import sys

from vlib import harness

ID = "C05"
LEVEL = "exploration"
TECHNIQUE = "runtime monitor: reference tree-walk model vs children()/parent()/parents() on generated parent-link graphs; line-budget termination monitor; live kernel: real process tree / fork / same-tick children vs an independent /proc reader"
RULE = ("one case = (process table with ppid function + start ticks, caller, optional mid-walk vanish, optional recycled "
        "caller); all tables with <=4 processes x every ppid function over {unlisted,1..n} x 3 start orders x every caller "
        "are enumerated (exhaustive); larger tables (<=40 procs) random. children(), children(recursive=True), parent(), "
        "parents() are compared with a 20-line reference written from the statement. non-trivial = the graph has a cycle, a "
        "self-loop, a child older than the caller, an unlisted parent, a mid-walk vanish or a recycled caller; distinct by case hash. Live part (real kernel): a 5-process tree of real children compared "
        "with an independent reader of /proc/*/stat before and after an intermediate node is killed (re-parenting), Process objects "
        "made before os.fork() asked from the forked child, and children started within the clock tick their parent was created in. "
        "Histories: Process objects are made once and KEPT while the table changes (exits with/without re-parenting, spawns on free and "
        "re-used pids with start ticks before/at/after the holders', a pid re-used two or more times); after every mutation every kept "
        "object is asked all four calls and compared with the reference for its incarnation on the table as it is then; exhaustive over "
        "all sequences of 3 successive occupants of one pid next to a kept caller, random otherwise")
ASSUMPTIONS = [
    "result order is not promised; results are compared as sets plus a no-duplicates check",
    "parents() is asserted only when the reference chain is finite (the statement promises termination for children() only); an infinite chain is cut by the line budget and not judged",
    "for the lowest listed pid parent() is only required to be None or the statement's answer (the code's lowest-PID stop)",
    "mid-walk vanish: result must lie between the reference on the table before and after the vanish, no duplicates, never the caller",
    "termination verdict = more than 40000*(n+2) traced lines inside one children() call",
    "histories: a kept object whose process exited is judged only once its pid is listed again with another start tick (NoSuchProcess demanded); pid free, or re-used within the same tick (indistinguishable by pid + start), is asked but not judged",
]
REQUIRED_COUNTERS = ["children_calls_checked", "cyclic_graphs_walked"]
SHARD_TIMEOUT = 1800


class Budget(Exception):
    pass


NASTY_COMMS = [b"p%d", b"a b %d", b") R 1 (%d", b"x) S 0 0 %d", b"((%d))", b"%d 1 2 3 4", b"\xff%d", b"p%d", b"p%d"]


def nasty_comm(pid):
    """Names with spaces / parentheses / digits: the parent pid must be read from the field after the LAST ')'."""
    return (NASTY_COMMS[pid % len(NASTY_COMMS)] % pid)[:15]


def ref_children(procs, caller, recursive):
    """procs: {pid: (ppid, start)}; -> set of pids"""
    cstart = procs[caller][1]
    if not recursive:
        return {p for p, (pp, st) in procs.items() if pp == caller and p != caller and st >= cstart}
    out = set()
    stack = [caller]
    seen = {caller}
    while stack:
        cur = stack.pop()
        for p, (pp, st) in procs.items():
            if pp == cur and p not in seen and st >= cstart:
                seen.add(p)
                out.add(p)
                stack.append(p)
    return out


def ref_parent(procs, pid):
    ppid, start = procs[pid]
    if ppid not in procs:
        return None
    if procs[ppid][1] > start:
        return None      # that pid now belongs to a process younger than the caller
    return ppid


def ref_parents(procs, pid, lowest):
    chain = []
    seen_states = set()
    cur = pid
    while True:
        if cur == lowest:
            return chain
        nxt = ref_parent(procs, cur)
        if nxt is None:
            return chain
        if (cur, nxt) in seen_states:
            return None       # infinite
        seen_states.add((cur, nxt))
        chain.append(nxt)
        cur = nxt
        if len(chain) > 500:
            return None


def features(procs, caller):
    f = set()
    for p, (pp, st) in procs.items():
        if pp == p:
            f.add("selfloop")
        if pp not in procs:
            f.add("unlisted_parent")
        if pp in procs and procs[pp][1] > st:
            f.add("parent_younger")
    # cycle detection
    for p in procs:
        seen = set()
        cur = p
        while cur in procs and cur not in seen:
            seen.add(cur)
            cur = procs[cur][0]
        if cur in procs and cur in seen and len(seen) > 0 and procs[cur][0] != cur:
            f.add("cycle")
        if cur == caller and cur in seen and p != caller:
            f.add("cycle_through_caller")
    cstart = procs[caller][1]
    if any(pp == caller and st < cstart for p, (pp, st) in procs.items()):
        f.add("older_child")
    return f


_env = {}


def setup():
    if not _env:
        from vlib import psu, vkernel
        from vlib.proctable import ProcTable
        ps = psu.load()
        ps.PROCFS_PATH = "/vproc"
        _env.update(ps=ps, vkernel=vkernel, ProcTable=ProcTable)
    return _env


def traced(fn, budget):
    n = [0]

    def tr(frame, event, arg):
        if event == "line":
            n[0] += 1
            if n[0] > budget:
                raise Budget()
        return tr
    sys.settrace(tr)
    try:
        return fn()
    finally:
        sys.settrace(None)


def run_case(case, acc):
    if case.get("kind") == "history":
        return run_history(case, acc)
    env = setup()
    ps, vkernel, ProcTable = env["ps"], env["vkernel"], env["ProcTable"]
    procs = {int(k): tuple(v) for k, v in case["procs"].items()}
    caller = case["caller"]
    t = ProcTable()
    t.reparent = case.get("reparent", False)
    for pid in sorted(procs):
        pp, st = procs[pid]
        t.spawn(pid, st, ppid=pp, comm=nasty_comm(pid))
    if case.get("zombies") and not case.get("reparent"):
        # exited but not reaped yet (or a thread-group leader that exited while its threads run on): still listed, still
        # somebody's child, still somebody's parent
        for pid in case["zombies"]:
            if pid in t.procs and pid != caller:
                t.procs[pid].zombie = True
                t.procs[pid].state = "Z"
        acc.count("tables_with_zombie_members")
    vk = vkernel.VK()
    vk.table = t
    vk.mount("/vproc", t)
    viols = []
    feats = features(procs, caller)
    if case.get("vanish"):
        feats.add("midwalk_vanish")
    if case.get("recycle"):
        feats.add("recycled_caller")
    lowest = min(procs)
    budget = 40000 * (len(procs) + 2)
    use_trace = bool(feats & {"cycle", "selfloop", "cycle_through_caller"}) or case.get("trace", False)
    ctx = f"procs={case['procs']} caller={caller} vanish={case.get('vanish')} recycle={case.get('recycle')}"

    def call(fn):
        try:
            if use_trace:
                return ("ok", traced(fn, budget))
            return ("ok", fn())
        except Budget:
            return ("budget", None)
        except ps.NoSuchProcess as e:
            return ("NoSuchProcess", e.pid)
        except ps.Error as e:
            return (type(e).__name__, getattr(e, "pid", None))
        except Exception as e:  # noqa: BLE001
            return ("exc:" + type(e).__name__, str(e)[:200])

    with vk:
        ps.process_iter.cache_clear()
        ps.boot_time()
        if case.get("before"):
            # an earlier state of the table (older incarnations of some pids) is seen by process_iter() first, so
            # that psutil's own caches hold Process objects of processes which have since been replaced
            for pid in list(t.procs):
                t.procs.pop(pid)
            for pid, (pp, st) in sorted((int(k), tuple(v)) for k, v in case["before"].items()):
                t.spawn(pid, st, ppid=pp, comm=b"o%d" % pid)
            list(ps.process_iter())
            acc.count("warm_cache_cases")
            for pid in list(t.procs):
                t.procs.pop(pid)
            for pid in sorted(procs):
                pp, st = procs[pid]
                t.spawn(pid, st, ppid=pp, comm=nasty_comm(pid))
            feats.add("stale_process_iter_cache")
        pr = ps.Process(caller)
        if case.get("recycle"):
            # the caller exits; its pid is taken by a younger process
            t.remove(caller)
            t.spawn(caller, max(s for _, s in procs.values()) + 50, ppid=procs[caller][0], comm=b"new")
            for name, fn in (("children", lambda: pr.children()), ("children_rec", lambda: pr.children(recursive=True)),
                             ("parent", lambda: pr.parent()), ("parents", lambda: pr.parents())):
                ps.pids()
                r = call(fn)
                acc.count("recycled_caller_calls")
                if r[0] != "NoSuchProcess":
                    mech = f"recycled_caller_no_NSP:{name}"
                    if caller == min(t.procs) and name in ("parent", "parents") and r[0] == "ok" and r[1] in (None, []):
                        mech = "recycled_lowest_listed_pid_parent_shortcut"
                    viols.append((mech, ctx + f" -> {r[0]}:{str(r[1])[:100]}"))
            acc.case(case, True, viols)
            return
        for rec in (False, True):
            name = "children_rec" if rec else "children"
            before = dict(procs)
            after = None
            if case.get("vanish"):
                victim, k = case["vanish"]
                base = len(vk.log)

                def act(vk_, kind, path, victim=victim):
                    t.remove(victim)
                    return None
                vk.plan = {base + k: act}
            r = call(lambda: pr.children(recursive=rec))
            vk.plan = {}
            acc.count("children_calls_checked")
            if "cycle" in feats or "selfloop" in feats:
                acc.count("cyclic_graphs_walked")
            if case.get("vanish"):
                after = {p: (q.ppid, q.start) for p, q in t.procs.items()}
            if r[0] == "budget":
                viols.append((f"nontermination:{name}", ctx + f" exceeded {budget} lines"))
                continue
            if r[0] != "ok":
                if case.get("vanish") and case["vanish"][0] == caller and r[0] == "NoSuchProcess":
                    continue
                viols.append((f"{name}_raised:{r[0]}", ctx + f" -> {r}"))
                continue
            got = [p.pid for p in r[1]]
            gset = set(got)
            if len(got) != len(gset):
                viols.append((f"{name}_duplicates", ctx + f" got={got}"))
            if caller in gset:
                mech = f"{name}_contains_caller"
                if "selfloop" in feats and procs[caller][0] == caller:
                    mech += ":selfloop"
                elif "cycle_through_caller" in feats or "cycle" in feats:
                    mech += ":cycle"
                viols.append((mech, ctx + f" got={got}"))
                gset = gset - {caller}
            want = ref_children(before, caller, rec)
            if after is None:
                if gset != want:
                    older = {p for p in gset - want if p in procs and procs[p][1] < procs[caller][1]}
                    mech = f"{name}_wrong"
                    if older:
                        mech += ":older_process_returned"
                    viols.append((mech, ctx + f" got={sorted(gset)} want={sorted(want)}"))
            else:
                want2 = ref_children(after, caller, rec) if caller in after else set()
                lo, hi = want & want2, want | want2
                # documented: "if process X disappears process Y won't be listed as the reference to process A is lost":
                # what hangs below the victim in the table as it was before may legitimately be missing
                victim = case["vanish"][0]
                if victim in before and victim != caller:
                    below = ref_children({k: (v[0], 0) for k, v in before.items()}, victim, True)
                    lo = lo - below
                if not (lo - {case["vanish"][0]} <= gset | {case["vanish"][0]} and gset <= hi):
                    viols.append((f"{name}_wrong:midwalk_vanish", ctx + f" got={sorted(gset)} before={sorted(want)} after={sorted(want2)}"))
                # restore the table for the next call
                for p in list(t.procs):
                    t.procs.pop(p)
                for pid in sorted(procs):
                    pp, st = procs[pid]
                    t.spawn(pid, st, ppid=pp, comm=nasty_comm(pid))
                pr = ps.Process(caller)
        if case.get("vanish"):
            # the same disturbance while walking *up*: the victim exits (and, with `reparent`, its children are handed to pid 1)
            # at access k of parent() / parents(); the walk must end, and name only processes that were or are ancestors
            victim, k = case["vanish"]
            for name, fn in (("parent", lambda: pr.parent()), ("parents", lambda: pr.parents())):
                before = {p: (q.ppid, q.start) for p, q in t.procs.items()}
                cur, seen_up, cyclic = caller, set(), False
                while cur in before:
                    if cur in seen_up:
                        cyclic = True
                        break
                    seen_up.add(cur)
                    cur = before[cur][0]
                if name == "parents" and cyclic:
                    continue        # a cyclic chain upwards (self-parented root, ...): only children() is promised to terminate on those
                ps.pids()       # fresh lowest-pid knowledge: a self-parented lowest pid ends the chain through that rule
                base = len(vk.log)
                def act_up(vk_, kind, path, victim=victim):
                    if victim in t.procs:
                        t.remove(victim)
                    return None
                vk.plan = {base + k: act_up}
                saved, use_trace = use_trace, True
                r = call(fn)
                use_trace = saved
                vk.plan = {}
                after = {p: (q.ppid, q.start) for p, q in t.procs.items()}
                acc.count("upward_walks_with_midwalk_vanish")
                if r[0] == "budget":
                    viols.append((f"nontermination:{name}:midwalk_vanish", ctx + f" exceeded {budget} lines"))
                elif r[0] == "NoSuchProcess" and victim == caller:
                    pass
                elif r[0] == "NoSuchProcess" and r[1] != caller:
                    viols.append((f"{name}_raised_NoSuchProcess_of_an_ancestor:midwalk_vanish", ctx + f" -> {r}"))
                elif r[0] != "ok":
                    viols.append((f"{name}_raised:{r[0]}:midwalk_vanish", ctx + f" -> {r}"))
                else:
                    got = [r[1].pid] if name == "parent" and r[1] is not None else ([] if name == "parent" else [x.pid for x in r[1]])
                    anc = set()
                    for tbl in (before, after):
                        cur, seen_ = caller, set()
                        while cur in tbl and cur not in seen_:
                            seen_.add(cur)
                            cur = tbl[cur][0]
                            anc.add(cur)
                    if not set(got) <= anc:
                        viols.append((f"{name}_wrong:midwalk_vanish", ctx + f" got={got} ancestors before/after={sorted(anc)}"))
                    elif name == "parents":
                        # every ancestor below the one that went away was there the whole time: the chain holds them all
                        chain_b = ref_parents(before, caller, min(before))
                        if chain_b is not None:
                            d = chain_b.index(victim) if victim in chain_b else len(chain_b)
                            acc.count("upward_chains_checked_below_the_vanished_ancestor")
                            if got[:d] != chain_b[:d]:
                                viols.append(("parents_wrong:midwalk_vanish:ancestor_below_the_vanished_one_missing",
                                              ctx + f" got={got} chain before={chain_b} (victim {victim})"))
                for p in list(t.procs):
                    t.procs.pop(p)
                for pid in sorted(procs):
                    pp, st = procs[pid]
                    t.spawn(pid, st, ppid=pp, comm=nasty_comm(pid))
                pr = ps.Process(caller)
        stale_low = None
        if not case.get("vanish") and case.get("stale_listing") is not None and any(p >= case["stale_listing"] for p in procs):
            # the program's last listing (pids() / process_iter()) dates from when only the PIDs >= L existed; lower PIDs have
            # appeared since (the kernel's PID counter wrapped) and nothing was listed again before parent() is asked
            stale_low = min(p for p in procs if p >= case["stale_listing"])
            for p in [p for p in t.procs if p < stale_low]:
                t.procs.pop(p)
            ps.pids()
            for p in list(t.procs):
                t.procs.pop(p)
            for pid in sorted(procs):
                pp, st = procs[pid]
                t.spawn(pid, st, ppid=pp, comm=nasty_comm(pid))
            pr = ps.Process(caller)
            acc.count("parent_walks_after_lower_pids_appeared_since_the_last_listing")
        refresh = (lambda: None) if stale_low is not None else ps.pids
        if not case.get("vanish"):
            refresh()   # fresh lowest-pid knowledge, as the statement's rule is evaluated on the current table
            r = call(lambda: pr.parent())
            acc.count("parent_calls_checked")
            want = ref_parent(procs, caller)
            if r[0] == "budget":
                viols.append(("nontermination:parent", ctx))
            elif r[0] != "ok":
                viols.append((f"parent_raised:{r[0]}", ctx + f" -> {r}"))
            else:
                got = r[1].pid if r[1] is not None else None
                if got != want and not (caller == lowest and got is None):
                    mech = "parent_wrong"
                    if stale_low is not None:
                        mech += ":stale_lowest_pid_shortcut" if (caller == stale_low and got is None) else ":lower_pids_appeared_since_last_listing"
                    viols.append((mech, ctx + f" got={got} want={want} stale_listing_lowest={stale_low}"))
            wantc = ref_parents(procs, caller, lowest)
            if wantc is not None and stale_low is not None and ref_parents(procs, caller, stale_low) is None:
                # finite only thanks to the lowest-PID rule, which is evaluated with the remembered lowest PID: a cyclic chain
                # upwards, where only children() is promised to terminate
                wantc = None
            if wantc is not None:
                refresh()
                use_trace_saved = use_trace
                r = call(lambda: pr.parents())
                acc.count("parents_calls_checked")
                if r[0] == "budget":
                    viols.append(("nontermination:parents_finite_chain", ctx + f" want={wantc}"))
                elif r[0] != "ok":
                    viols.append((f"parents_raised:{r[0]}", ctx + f" -> {r}"))
                else:
                    got = [p.pid for p in r[1]]
                    if got != wantc:
                        mech = "parents_wrong"
                        if stale_low is not None:
                            mech += (":stale_lowest_pid_shortcut" if got == ref_parents(procs, caller, stale_low)
                                     else ":lower_pids_appeared_since_last_listing")
                        viols.append((mech, ctx + f" got={got} want={wantc} stale_listing_lowest={stale_low}"))
            else:
                acc.count("parents_infinite_chain_not_judged")
    acc.case(case, bool(feats), viols)


def small_cases():
    orders = {
        "asc": lambda n: {i: 100 + 10 * i for i in range(1, n + 1)},
        "desc": lambda n: {i: 100 + 10 * (n - i) for i in range(1, n + 1)},
        "tie": lambda n: {i: 100 for i in range(1, n + 1)},
    }
    for n in (1, 2, 3, 4):
        for ppids in itertools.product(range(0, n + 1), repeat=n):
            for oname, ofn in orders.items():
                st = ofn(n)
                procs = {str(i): [ppids[i - 1], st[i]] for i in range(1, n + 1)}
                for caller in range(1, n + 1):
                    yield dict(procs=procs, caller=caller)


def gen_random(rng):
    n = rng.choice([2, 3, 5, 8, 12, 20, 40])
    pids = rng.sample(range(1, 90), n)
    style = rng.choice(["forest", "random", "cyclic", "chain"])
    procs = {}
    base = 100
    for i, p in enumerate(pids):
        if style == "forest":
            pp = rng.choice(pids[:i]) if i and rng.random() < 0.9 else rng.choice([0, 95, 96])
            st = base + i * rng.choice([0, 1, 5])
        elif style == "chain":
            pp = pids[i - 1] if i else rng.choice([0, pids[-1]])
            st = base + rng.choice([i, n - i, 0]) * 3
        else:
            pp = rng.choice(pids + [0, 95, p])
            st = base + rng.randrange(0, 6) * (1 if style == "cyclic" else 10)
        procs[str(p)] = [pp, st]
    case = dict(procs=procs, caller=rng.choice(pids))
    if rng.random() < 0.3:
        before = {k: list(v) for k, v in procs.items()}
        for k in rng.sample(sorted(before), rng.randrange(1, min(4, len(before)) + 1)):
            # an older incarnation of that pid (it died and the pid was re-used by the process in `procs`)
            before[k] = [rng.choice([before[k][0], 0, int(rng.choice(sorted(before)))]), max(1, before[k][1] - rng.choice([1, 40, 90]))]
        case["before"] = before
    if rng.random() < 0.25:
        case["zombies"] = rng.sample(pids, rng.randrange(1, max(2, n // 2)))
    r = rng.random()
    if r < 0.2:
        case["vanish"] = [rng.choice(pids), rng.randrange(0, 3 * n + 2)]
        case["reparent"] = rng.random() < 0.5
    elif r < 0.3:
        case["recycle"] = True
    elif r < 0.4:
        case["trace"] = True
    elif r < 0.55:
        case["stale_listing"] = rng.choice(pids)
    return case


# ---- histories: the same Process objects are asked again and again while the table changes under them -------------

def has_loop(procs):
    for p in procs:
        seen, cur = set(), p
        while cur in procs and cur not in seen:
            seen.add(cur)
            cur = procs[cur][0]
        if cur in procs:
            return True
    return False


def run_history(case, acc):
    """One case = an initial table, the PIDs for which a Process object is made and KEPT, and a list of mutations
    (["exit", pid] / ["spawn", pid, ppid, start, hold]).  After every mutation every kept object is asked children(),
    children(recursive=True), parent() and parents(); the answers are compared with the reference evaluated on the table as it
    is now, for the incarnation (pid, start tick) the object was made for: alive -> the statement's answer, pid re-used by
    another incarnation -> NoSuchProcess, pid not listed -> not judged.  What an object saw at earlier calls must not matter."""
    env = setup()
    ps, vkernel, ProcTable = env["ps"], env["vkernel"], env["ProcTable"]
    t = ProcTable()
    t.reparent = case.get("reparent", False)
    cur = {}
    incarnations = {}

    def spawn(pid, pp, st):
        t.spawn(pid, st, ppid=pp, comm=nasty_comm(pid))
        cur[pid] = (pp, st)
        incarnations.setdefault(pid, []).append(st)

    for pid, (pp, st) in sorted((int(k), tuple(v)) for k, v in case["procs"].items()):
        spawn(pid, pp, st)
    vk = vkernel.VK()
    vk.table = t
    vk.mount("/vproc", t)
    viols = []
    feats = set()
    held = []           # [pid, start, Process, {pids this object once had to reject as older look-alike children}, its process still runs]
    done = []

    def call(fn, trace, budget):
        try:
            return ("ok", traced(fn, budget) if trace else fn())
        except Budget:
            return ("budget", None)
        except ps.NoSuchProcess as e:
            return ("NoSuchProcess", e.pid)
        except ps.Error as e:
            return (type(e).__name__, getattr(e, "pid", None))
        except Exception as e:  # noqa: BLE001
            return ("exc:" + type(e).__name__, str(e)[:200])

    def queries(pr):
        return (("children", lambda: pr.children()), ("children_rec", lambda: pr.children(recursive=True)),
                ("parent", lambda: pr.parent()), ("parents", lambda: pr.parents()))

    def pids_of(name, r):
        if name == "parent":
            return [] if r is None else [r.pid]
        return [x.pid for x in r]

    def check_all():
        procs = dict(cur)
        if not procs:
            return
        trace = has_loop(procs)
        budget = 40000 * (len(procs) + 2)
        lowest = min(procs)
        ctx = f"history procs={case['procs']} reparent={t.reparent} steps so far={done} table now={procs}"
        for h in held:
            pid, st, pr, older_seen, alive = h
            if not alive and pid in procs and procs[pid][1] == st:
                # the object's process exited and the pid was taken by a process started in the same tick: (pid, start tick) is all
                # there is to tell them apart, so either answer (NoSuchProcess / the new process's tree) is accepted
                acc.count("history_same_tick_reincarnation_not_judged")
                continue
            if pid not in procs:
                # the object's process is gone and its pid free: nothing promised; still asked, so that the object is in
                # whatever state such a call leaves behind when the pid comes back
                for name, fn in queries(pr)[:2]:
                    r = call(fn, trace, budget)
                    acc.count("history_calls_on_exited_callers_not_judged")
                    if r[0].startswith("exc:") or r[0] == "budget":
                        viols.append((f"{name}_raised:{r[0]}:history:exited_caller", ctx + f" object=({pid},{st}) -> {r}"))
                continue
            if procs[pid][1] != st:
                feats.add("recycled_caller")
                for name, fn in queries(pr):
                    ps.pids()
                    r = call(fn, trace, budget)
                    acc.count("recycled_caller_calls")
                    acc.count("history_calls_checked")
                    if r[0] != "NoSuchProcess":
                        mech = f"recycled_caller_no_NSP:{name}:history"
                        if pid == lowest and name in ("parent", "parents") and r[0] == "ok" and r[1] in (None, []):
                            mech = "recycled_lowest_listed_pid_parent_shortcut"
                        viols.append((mech, ctx + f" object=({pid},{st}) -> {r[0]}:{str(r[1])[:100]}"))
                continue
            octx = ctx + f" object=({pid},{st})"
            for name, fn in queries(pr):
                if name in ("parent", "parents"):
                    ps.pids()       # fresh lowest-pid knowledge (see run_case)
                if name == "children":
                    want = sorted(ref_children(procs, pid, False))
                elif name == "children_rec":
                    want = sorted(ref_children(procs, pid, True))
                elif name == "parent":
                    w = ref_parent(procs, pid)
                    want = [] if w is None else [w]
                else:
                    want = ref_parents(procs, pid, lowest)
                    if want is None:
                        acc.count("parents_infinite_chain_not_judged")
                        continue
                r = call(fn, trace, budget)
                acc.count("history_calls_checked")
                if name.startswith("children"):
                    acc.count("children_calls_checked")
                    if trace:
                        acc.count("cyclic_graphs_walked")
                if r[0] == "budget":
                    viols.append((f"nontermination:{name}:history", octx + f" exceeded {budget} lines"))
                    continue
                if r[0] != "ok":
                    viols.append((f"{name}_raised:{r[0]}:history", octx + f" -> {r}"))
                    continue
                got = pids_of(name, r[1])
                if name.startswith("children"):
                    if len(got) != len(set(got)):
                        viols.append((f"{name}_duplicates:history", octx + f" got={got}"))
                    got = sorted(set(got))
                    below = {pid} | (set(want) if name == "children_rec" else set())
                    older_seen.update(p for p, (pp, s2) in procs.items() if pp in below and s2 < st and p not in below)
                ok = got == want
                if name == "parent" and pid == lowest and got == []:
                    ok = True
                if ok:
                    continue
                mech = f"{name}_wrong:history"
                if name.startswith("children") and pid in got:
                    mech = f"{name}_contains_caller:history"
                elif name.startswith("children") and any(procs[p][1] < st for p in set(got) - set(want) if p in procs):
                    mech += ":older_process_returned"
                # does an object made now, for the same process, give the statement's answer?
                fr = call(dict(queries(ps.Process(pid)))[name], trace, budget)
                if fr[0] == "ok" and (sorted(set(pids_of(name, fr[1]))) if name.startswith("children") else pids_of(name, fr[1])) == want:
                    mech += ":answer_depends_on_what_the_same_object_saw_before"
                    lost = set(want) - set(got)
                    if name.startswith("children") and lost & older_seen:
                        mech += ":pid_of_a_once_rejected_older_lookalike_now_a_real_child"
                    elif any(len(incarnations.get(p, ())) > 1 for p in set(want) ^ set(got)):
                        mech += ":pid_recycled_since"
                viols.append((mech, octx + f" got={got} want={want} fresh object -> {fr[0]}:"
                              f"{pids_of(name, fr[1]) if fr[0] == 'ok' else fr[1]}"))

    with vk:
        ps.process_iter.cache_clear()
        ps.boot_time()
        for pid in case["hold"]:
            held.append([pid, cur[pid][1], ps.Process(pid), set(), True])
        check_all()
        for step in case["steps"]:
            if step[0] == "exit":
                if step[1] not in cur:
                    continue
                t.remove(step[1])
                cur.pop(step[1])
                for h in held:
                    if h[0] == step[1]:
                        h[4] = False
                for p, q in t.procs.items():        # re-parenting, if the table does it
                    cur[p] = (q.ppid, q.start)
            else:
                _, pid, pp, st, hold = step
                if pid in cur:
                    continue
                if len(incarnations.get(pid, ())) >= 1:
                    feats.add("pid_recycled")
                if len(incarnations.get(pid, ())) >= 2:
                    feats.add("pid_recycled_twice_or_more")
                    acc.count("history_pids_recycled_twice_or_more")
                spawn(pid, pp, st)
                if hold:
                    held.append([pid, st, ps.Process(pid), set(), True])
            done.append(step)
            acc.count("history_mutations_followed")
            check_all()
    if any(h[3] for h in held):
        feats.add("older_lookalike_child_seen_by_a_kept_object")
        acc.count("histories_with_older_lookalike_child_seen_by_a_kept_object")
    acc.count("histories_run")
    acc.case(case, bool(feats), viols)


SLOT_ALPHABET = [None, (5, 50), (5, 100), (5, 150), (1, 150), (7, 150), (7, 250)]


def small_histories():
    """Exhaustive: caller 5 (start 100) under 1, a process 7 that names pid 6 as parent, and every sequence of 3 successive
    occupants of pid 6 (nobody / child of 5 older, same tick, younger / child of 1 / child of its own child 7)."""
    for seq in itertools.product(SLOT_ALPHABET, repeat=3):
        steps, occupied = [], False
        for occ in seq:
            if occupied:
                steps.append(["exit", 6])
                occupied = False
            if occ is not None:
                steps.append(["spawn", 6, occ[0], occ[1], True])
                occupied = True
        yield dict(kind="history", procs={"1": [0, 1], "5": [1, 100], "7": [6, 200]}, hold=[5, 7], steps=steps, reparent=False)


def gen_history(rng):
    pool = rng.sample(range(2, 40), rng.choice([3, 4, 5, 7]))
    ticks = [50, 100, 100, 150, 200, 250]
    monotone = rng.random() < 0.4         # start ticks follow a clock, as a kernel's do (ties possible)
    clock = [100]

    def start():
        if monotone:
            clock[0] += rng.choice([0, 1, 10])
            return clock[0]
        return rng.choice(ticks)
    procs = {}
    if rng.random() < 0.75:
        procs["1"] = [0, 1]
    for p in rng.sample(pool, rng.randrange(1, len(pool))):
        procs[str(p)] = [rng.choice(pool + [0, 1, 1]), start()]
    live = {int(k) for k in procs}
    hold = sorted(live)
    used = set(live)
    steps = []
    for _ in range(rng.choice([4, 8, 12])):
        free = [p for p in pool if p not in live]
        if free and (rng.random() < 0.55 or len(live) < 2):
            again = [p for p in free if p in used]
            pid = rng.choice(again) if again and rng.random() < 0.8 else rng.choice(free)
            heldlive = [p for p in hold if p in live]
            pp = rng.choice(heldlive) if heldlive and rng.random() < 0.6 else rng.choice(pool + [0, 1])
            h = rng.random() < 0.5
            steps.append(["spawn", pid, pp, start(), h])
            live.add(pid)
            used.add(pid)
            if h:
                hold.append(pid)
        elif live:
            pid = rng.choice(sorted(live))
            steps.append(["exit", pid])
            live.discard(pid)
    return dict(kind="history", procs=procs, hold=sorted(set(int(k) for k in procs)), steps=steps, reparent=rng.random() < 0.4)


# ---- live kernel: a real process tree, fork from a process that holds Process objects, same-tick children --------

TREE_SCRIPT = r"""
import os, subprocess, sys, time
depth = int(sys.argv[1])
kids = []
def spawn():
    kids.append(subprocess.Popen([sys.executable, "-S", "-c", open(sys.argv[2]).read(), str(depth - 1), sys.argv[2]]))
if depth > 0:
    spawn()
    if depth == 2:
        # the second child is forked by a worker thread that stays alive: the kernel files it under that *thread*
        # (/proc/PID/task/TID/children), while its ppid is the process
        import threading
        done = threading.Event()
        threading.Thread(target=lambda: (spawn(), done.set(), time.sleep(1000)), daemon=True).start()
        done.wait(30)
print("NODE", os.getpid(), os.getppid(), flush=True)
while True:
    time.sleep(1000)
"""


def live_ppid_map():
    """Independent reader of the kernel's table: pid -> (ppid, starttime ticks)."""
    import os
    out = {}
    for name in os.listdir("/proc"):
        if not name.isdigit():
            continue
        try:
            with open(f"/proc/{name}/stat", "rb") as f:
                data = f.read()
        except OSError:
            continue
        fields = data[data.rfind(b")") + 2:].split()
        out[int(name)] = (int(fields[1]), int(fields[19]))
    return out


def run_live(shard, acc):
    import json
    import os
    import signal
    import subprocess
    import tempfile
    import time
    ps = setup()["ps"]
    ps.PROCFS_PATH = "/proc"          # this shard talks to the real kernel (own worker process)
    env = {k: v for k, v in os.environ.items() if k != "LD_PRELOAD"}
    viols = []
    tmp = tempfile.mkdtemp(prefix="c05live_")
    script = os.path.join(tmp, "node.py")
    with open(script, "w") as f:
        f.write(TREE_SCRIPT)
    root = subprocess.Popen([sys.executable, "-S", script, "2", script], env=env, stdout=subprocess.DEVNULL)
    try:
        # wait until the tree (root + 2 children + 2 grandchildren) is up
        me = os.getpid()
        deadline = time.time() + 30
        while time.time() < deadline:
            m = live_ppid_map()
            sub = ref_children({p: v for p, v in m.items()}, root.pid, True) if root.pid in m else set()
            if len(sub) >= 4:
                break
            time.sleep(0.05)
        m = live_ppid_map()
        nodes = sorted({root.pid} | ref_children(m, root.pid, True))
        acc.extra["live_tree_size"] = len(nodes)

        def compare(tag):
            m = live_ppid_map()
            for pid in nodes:
                if pid not in m:
                    continue
                pr = ps.Process(pid)
                for rec in (False, True):
                    acc.count("children_calls_checked")
                    acc.count("live_children_calls_checked")
                    got = [c.pid for c in pr.children(recursive=rec)]
                    m2 = live_ppid_map()
                    want1, want2 = ref_children(m, pid, rec) & set(nodes), ref_children(m2, pid, rec) & set(nodes)
                    g = set(got) & set(nodes) if pid != me else set(got) & set(nodes)
                    if len(got) != len(set(got)) or pid in got:
                        viols.append(("live:children_duplicates_or_self", f"{tag}: pid {pid} rec={rec} got {got}"))
                    if g != want1 and g != want2:
                        viols.append(("live:children_wrong", f"{tag}: pid {pid} rec={rec} got {sorted(g)} want {sorted(want1)}"))
                acc.count("live_parent_calls_checked")
                par = pr.parent()
                if par is None or par.pid != m[pid][0]:
                    viols.append(("live:parent_wrong", f"{tag}: pid {pid} parent() -> {par} want pid {m[pid][0]}"))
                chain = [x.pid for x in pr.parents()]
                want = []
                cur = pid
                while cur in m and m[cur][0] in m and m[cur][0] != cur and len(want) < 64:
                    cur = m[cur][0]
                    want.append(cur)
                if chain != want:
                    viols.append(("live:parents_wrong", f"{tag}: pid {pid} parents() -> {chain} want {want}"))
        compare("tree")
        # an intermediate node dies: its children are re-parented (to init / the nearest subreaper)
        mid = [p for p in nodes if live_ppid_map().get(p, (None,))[0] == root.pid][0]
        stale_mid = ps.Process(mid)
        os.kill(mid, signal.SIGKILL)
        t0 = time.time()
        while time.time() - t0 < 10:
            st = live_ppid_map().get(mid)
            if st is None:
                break
            time.sleep(0.05)           # a zombie until the root reaps it - the root never does: stays a zombie
            if time.time() - t0 > 1:
                break
        nodes = [p for p in nodes if p != mid]
        compare("after_reparenting")
        acc.count("live_reparenting_checked")
        # --- fork from a process that already holds Process objects for itself
        p_none = ps.Process()
        p_pid = ps.Process(os.getpid())
        orig_pid, orig_ppid = os.getpid(), os.getppid()
        r, wfd = os.pipe()
        child = os.fork()
        if child == 0:
            try:
                os.close(r)
                out = {}
                for tag, p in (("none", p_none), ("pid", p_pid)):
                    par = p.parent()
                    out[tag] = dict(pid=p.pid, ppid=p.ppid(), parent=None if par is None else par.pid,
                                    parents=[x.pid for x in p.parents()][:2])
                fresh = ps.Process()
                fp = fresh.parent()
                out["fresh"] = dict(pid=fresh.pid, ppid=fresh.ppid(), parent=None if fp is None else fp.pid)
                out["kids_of_orig"] = sorted(c.pid for c in p_pid.children())
                os.write(wfd, json.dumps(out).encode())
            except BaseException as e:  # noqa: BLE001
                os.write(wfd, json.dumps(dict(error=repr(e))).encode())
            finally:
                os._exit(0)
        os.close(wfd)
        data = b""
        while True:
            chunk = os.read(r, 65536)
            if not chunk:
                break
            data += chunk
        os.close(r)
        os.waitpid(child, 0)
        res = json.loads(data or b"{}")
        acc.count("live_fork_scenarios_checked")
        if "error" in res or not res:
            viols.append(("live:fork_scenario_exception", str(res)))
        else:
            for tag in ("none", "pid"):
                d = res[tag]
                if d["pid"] != orig_pid or d["ppid"] != orig_ppid or d["parent"] != orig_ppid or d["parents"][:1] != [orig_ppid]:
                    viols.append(("live:parent_wrong_after_fork", f"object made before fork() ({tag}), asked in the forked child: {d}; "
                                                                  f"the object's process is {orig_pid}, its parent {orig_ppid}"))
            d = res["fresh"]
            if d["pid"] != child or d["ppid"] != orig_pid or d["parent"] != orig_pid:
                viols.append(("live:parent_wrong_after_fork", f"Process() made in the forked child {child}: {d}"))
            if child not in res["kids_of_orig"]:
                viols.append(("live:children_wrong", f"children() of the forking process, asked in the child: {res['kids_of_orig']} lacks {child}"))
        # --- children started within the tick their parent was created in
        same_tick = 0
        for _ in range(shard.get("ticks", 25)):
            sh = subprocess.Popen(["/bin/sh", "-c", "sleep 60 & wait"], env=env)
            try:
                t1 = time.time()
                kid = None
                while time.time() - t1 < 5 and kid is None:
                    m = live_ppid_map()
                    ks = [p for p, (pp, _s) in m.items() if pp == sh.pid]
                    kid = ks[0] if ks else None
                if kid is None:
                    continue
                m = live_ppid_map()
                if sh.pid in m and kid in m and m[kid][1] == m[sh.pid][1]:
                    same_tick += 1
                acc.count("children_calls_checked")
                got = [c.pid for c in ps.Process(sh.pid).children()]
                if kid not in got:
                    viols.append(("live:children_wrong:same_tick" if m.get(kid, (0, 0))[1] == m.get(sh.pid, (0, 1))[1] else "live:children_wrong",
                                  f"sh {sh.pid} (start {m.get(sh.pid)}) has child {kid} (start {m.get(kid)}), children() -> {got}"))
            finally:
                for p in ([kid] if kid else []) + [sh.pid]:
                    try:
                        os.kill(p, signal.SIGKILL)
                    except OSError:
                        pass
                sh.wait()
        acc.count("live_same_tick_children_seen", same_tick)
    finally:
        m = live_ppid_map()
        for p in sorted(ref_children(m, root.pid, True) | {root.pid}) if root.pid in m else [root.pid]:
            try:
                os.kill(p, signal.SIGKILL)
            except OSError:
                pass
        for p in nodes if "nodes" in dir() else []:
            try:
                os.kill(p, signal.SIGKILL)
            except OSError:
                pass
        root.wait()
        import shutil
        shutil.rmtree(tmp, ignore_errors=True)
    acc.case(dict(kind="live"), True, viols)


def plan(tier, seed):
    nrand = 20000 if tier == "quick" else 200000
    nparts = 16 if tier == "quick" else 48
    shards = [dict(kind="small", part=i, parts=nparts) for i in range(nparts)]
    for s, c in harness.split_range(nrand, nparts):
        shards.append(dict(kind="rand", seed=seed, start=s, count=c))
    for s, c in harness.split_range(200 if tier == "quick" else 6000, 8 if tier == "quick" else 24):
        shards.append(dict(kind="hist", seed=seed, start=s, count=c))
    shards.append(dict(kind="live", ticks=25 if tier == "quick" else 200))
    shards.append(dict(kind="deep"))
    return shards


def run_shard(shard):
    acc = harness.Acc(max_samples=2)
    setup()
    k = shard["kind"]
    if k == "small":
        for i, case in enumerate(small_cases()):
            if i % shard["parts"] == shard["part"]:
                run_case(case, acc)
        # recycled caller on every small graph shape is covered by the random part; add a few fixed ones
        if shard["part"] == 0:
            for case in [dict(procs={"1": [0, 1], "50": [1, 300], "60": [50, 200]}, caller=60, before={"1": [0, 1], "50": [1, 100], "60": [50, 200]}),
                         dict(procs={"1": [0, 1], "50": [1, 150], "60": [50, 200]}, caller=60, before={"1": [0, 1], "50": [1, 100], "60": [50, 200]}),
                         dict(procs={"1": [0, 1], "50": [1, 300], "60": [50, 200], "70": [60, 400]}, caller=70,
                              before={"1": [0, 1], "50": [1, 100], "60": [50, 200]}),
                         dict(procs={"1": [0, 1], "5": [1, 100], "6": [5, 300]}, caller=5, before={"1": [0, 1], "5": [1, 100], "6": [5, 50]})]:
                run_case(case, acc)
            # the parent (or grandparent) exits and is reaped at each access point of the walk, the orphan is re-parented
            for victim in (5, 4):
                for k_ in range(0, 9):
                    for rep in (True, False):
                        run_case(dict(procs={"1": [0, 1], "4": [1, 50], "5": [4, 100], "6": [5, 200]}, caller=6, vanish=[victim, k_],
                                      reparent=rep, trace=True), acc)
            for case in [dict(procs={"1": [0, 1], "5": [1, 100], "6": [5, 200]}, caller=5, recycle=True),
                         dict(procs={"1": [0, 1], "5": [6, 100], "6": [5, 200]}, caller=5, recycle=True)]:
                run_case(case, acc)
        for i, case in enumerate(small_histories()):
            if i % shard["parts"] == shard["part"]:
                run_case(case, acc)
        acc.exhaustive = True
    elif k == "hist":
        for i in range(shard["start"], shard["start"] + shard["count"]):
            run_case(gen_history(harness.rng_for(shard["seed"], "c05hist", i)), acc)
    elif k == "deep":
        # "any number of processes": a chain deeper than the interpreter's recursion limit, a wide fan-out, and a chain whose
        # members were started (= are listed) in the opposite order of their pids
        import sys as _sys
        n = _sys.getrecursionlimit() * 3
        chain = {"1": [0, 1]}
        chain.update({str(10 + i): [1 if i == 0 else 9 + i, 100 + i] for i in range(n)})
        run_case(dict(procs=chain, caller=10), acc)
        run_case(dict(procs=chain, caller=10 + n // 2), acc)
        back = {"1": [0, 1]}
        back.update({str(10 + n - i): [1 if i == 0 else 11 + n - i, 100 + i] for i in range(n)})
        run_case(dict(procs=back, caller=10 + n), acc)
        wide = {"1": [0, 1], "5": [1, 50]}
        wide.update({str(10 + i): [5, 100 + i % 7] for i in range(n)})
        run_case(dict(procs=wide, caller=5), acc)
        acc.count("deep_or_wide_trees_checked", 4)
    elif k == "rand":
        for i in range(shard["start"], shard["start"] + shard["count"]):
            run_case(gen_random(harness.rng_for(shard["seed"], "c05", i)), acc)
    elif k == "live":
        run_live(shard, acc)
    elif k == "cases":
        for case in shard["cases"]:
            if case.get("kind") == "live":
                run_live(dict(ticks=25), acc)
            else:
                run_case(case, acc)
    return acc.result()
