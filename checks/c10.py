"""C10 - nowrap=True counters never decrease while their device stays present.

Raw counter snapshots are served as /proc/net/dev and /proc/diskstats (the k-th open serves snapshot k),
so the real public functions - parsing included - are what runs.  Oracle: a sequential reference model
written from the statement; for two threads, brute-force linearizability against that model.
"""
import itertools
import os
import shutil
import tempfile

from vlib import harness

ID = "C10"
LEVEL = "exploration"
ENGINE = "vkernel+sched"
TECHNIQUE = "runtime monitor: history of served counter snapshots vs sequential wrap-accumulator reference model; linearizability check of two-thread schedules under a deterministic scheduler and of short free-running multi-thread histories"
RULE = ("one case = a history of calls (net_io_counters / disk_io_counters, nowrap True/False, pernic/perdisk, cache_clear) each "
        "served its own raw snapshot (1-5 devices; every counter steps up, wraps, wraps repeatedly, devices disappear/reappear, "
        "all devices disappear). all histories of length <=3 (quick) / <=4 (thorough) over one varied device x {absent,3 "
        "magnitudes} x optional second device x {nowrap call, raw call, clear+call} are enumerated; longer ones random. Part 2: "
        "two threads x 2-3 calls under vlib.sched, all <=2-pre-emption schedules + sampled 3-4. non-trivial = history with a "
        "wrap, a disappear/reappear or a cache_clear, resp. schedule with >=2 context switches; distinct by history hash")
ASSUMPTIONS = [
    "a device 'stays present' when it is listed in every snapshot handed to consecutive nowrap=True calls of that function",
    "concurrent callers: results must be explainable by some serial order of the calls that respects real-time order and in which the snapshots appear in the order the kernel served them",
    "_common._wn.lock is replaced by a cooperative wrapper so that a blocked thread hands control back to the scheduler",
]
REQUIRED_COUNTERS = ["nowrap_calls_checked", "wrap_events", "schedules_run"]
SHARD_TIMEOUT = 2400

NET_FIELDS = 8     # psutil: bytes_sent bytes_recv packets_sent packets_recv errin errout dropin dropout
DISK_FIELDS = 9

_env = {}


def setup():
    if not _env:
        from vlib import psu, sched, vkernel
        ps = psu.load()
        ps.PROCFS_PATH = "/vproc"
        import psutil._common as pc
        d = tempfile.mkdtemp(prefix="c10_", dir=os.environ.get("VERIF_TMP") or None)
        for name in ("sda", "sdb", "nvme0n1", "dm-0", "loop0"):
            os.makedirs(os.path.join(d, name))
        shared = ("self.cache", "self.reminders", "self.reminder_keys", "lock", "_wn.run", "return")
        codes = {pc.wrap_numbers.__code__: None, pc._WrapNumbers.cache_clear.__code__: None,
                 pc._WrapNumbers._add_dict.__code__: None}
        for c in (pc._WrapNumbers.run.__code__, pc._WrapNumbers._remove_dead_reminders.__code__):
            codes[c] = sched.lines_matching(c, *shared)
        for c in (ps.net_io_counters.__code__, ps.disk_io_counters.__code__):
            codes[c] = sched.lines_matching(c, "_psplatform.", "_wrap_numbers", "return")
        _env.update(ps=ps, sched=sched, vkernel=vkernel, pc=pc, sysblock=d, codes=codes)
        import atexit
        atexit.register(shutil.rmtree, d, True)
    return _env


# ---- rendering ---------------------------------------------------------------------------------

def render_netdev(snap):
    """snap: {name: [8 psutil-order ints]} -> /proc/net/dev bytes (16 kernel columns)."""
    out = [b"Inter-|   Receive                                                |  Transmit\n",
           b" face |bytes    packets errs drop fifo frame compressed multicast|bytes    packets errs drop fifo colls carrier compressed\n"]
    for name, f in snap.items():
        bs, br, ps_, pr, ei, eo, di, do = f
        cols = [br, pr, ei, di, 7001, 7002, 7003, 7004, bs, ps_, eo, do, 7005, 7006, 7007, 7008]
        out.append(("%6s: " % name).encode() + " ".join(map(str, cols)).encode() + b"\n")
    return b"".join(out)


def render_diskstats(snap):
    """snap: {name: [9 psutil-order ints, byte fields already multiples of 512]} -> 14-field lines."""
    out = []
    for i, (name, f) in enumerate(snap.items()):
        reads, writes, rb, wb, rt, wt, rm, wm, busy = f
        cols = [8, i, name, reads, rm, rb // 512, rt, writes, wm, wb // 512, wt, 0, busy, 9999]
        out.append((" ".join(map(str, cols)) + "\n").encode())
    return b"".join(out)


WHOLE = {"sda", "sdb", "nvme0n1", "dm-0", "loop0"}


# ---- reference model (from the statement) -----------------------------------------------------

class Model:
    def __init__(self):
        self.st = {}

    def call(self, fn, snap, nowrap):
        if not nowrap:
            return {k: tuple(v) for k, v in snap.items()}
        s = self.st.get(fn)
        if s is None:
            self.st[fn] = dict(last={k: tuple(v) for k, v in snap.items()}, off={})
            return {k: tuple(v) for k, v in snap.items()}
        last, off = s["last"], s["off"]
        for k in list(last):
            if k not in snap:
                for kk in [x for x in off if x[0] == k]:
                    del off[kk]
        out = {}
        for k, vals in snap.items():
            if k in last:
                row = []
                for i, v in enumerate(vals):
                    if v < last[k][i]:
                        off[(k, i)] = off.get((k, i), 0) + last[k][i]
                    row.append(v + off.get((k, i), 0))
                out[k] = tuple(row)
            else:
                out[k] = tuple(vals)
        s["last"] = {k: tuple(v) for k, v in snap.items()}
        return out

    def clear(self, fn):
        self.st.pop(fn, None)

    def copy(self):
        m = Model()
        for fn, s in self.st.items():
            m.st[fn] = dict(last=dict(s["last"]), off=dict(s["off"]))
        return m


# ---- world -------------------------------------------------------------------------------------

class World:
    def __init__(self):
        env = setup()
        self.ps = env["ps"]
        vk = env["vkernel"].VK()
        self.fs = env["vkernel"].MemFS()
        self.next = {"net": None, "disk": None}     # snapshot to serve on the next open
        self.queue = {"net": [], "disk": []}
        self.opened = []
        self.fs.put("net/dev", env["vkernel"].F(lambda: self._serve("net")))
        self.fs.put("diskstats", env["vkernel"].F(lambda: self._serve("disk")))
        vk.mount("/vproc", self.fs)
        vk.redirect("/sys/block", env["sysblock"])
        self.vk = vk
        self.who = lambda: None

    def _serve(self, kind):
        q = self.queue[kind]
        snap = q.pop(0) if q else self.next[kind]
        self.opened.append((self.who(), kind, snap))
        return render_netdev(snap) if kind == "net" else render_diskstats(snap)

    def clear_all(self):
        self.ps.net_io_counters.cache_clear()
        self.ps.disk_io_counters.cache_clear()


def expected_view(fn, snap, per):
    """What the platform layer hands to the wrapper for this call (None -> the no-device convention)."""
    if fn == "disk" and not per:
        snap = {k: v for k, v in snap.items() if k in WHOLE}
    return snap


def psutil_call(w, fn, snap, nowrap, per):
    ps = w.ps
    w.next["net" if fn == "net" else "disk"] = snap
    if fn == "net":
        r = ps.net_io_counters(pernic=per, nowrap=nowrap)
    else:
        # (any truthy value asks for the per-disk form: spelled 1, 2 or "all" for a share of the calls)
        per_arg = per if not per or (len(w.opened) % 3) else (1, 2, "all")[len(w.opened) % 5 % 3]
        r = ps.disk_io_counters(perdisk=per_arg, nowrap=nowrap)
    return r


def total(d, nf):
    return tuple(sum(v[i] for v in d.values()) for i in range(nf))


def run_history(hist, acc):
    """hist: list of ops: ["call", fn, snap, nowrap, per] | ["clear", fn]"""
    w = World()
    model = Model()
    model_b = Model()
    viols = []
    nontrivial = False
    ctx = f"history={hist}"
    prev_out = {}
    with w.vk:
        w.clear_all()
        for idx, op in enumerate(hist):
            if op[0] == "clear":
                (w.ps.net_io_counters if op[1] == "net" else w.ps.disk_io_counters).cache_clear()
                model.clear(op[1])
                for key in list(model_b.st):
                    if key.startswith(op[1] + "/"):
                        model_b.clear(key)
                nontrivial = True
                prev_out.pop(op[1], None)
                continue
            _, fn, snap, nowrap, per = op[:5]
            mutate = op[5] if len(op) > 5 else None
            nf = NET_FIELDS if fn == "net" else DISK_FIELDS
            try:
                got = psutil_call(w, fn, snap, nowrap, per)
            except Exception as e:  # noqa: BLE001
                viols.append((f"exception:{type(e).__name__}", ctx + f" at op#{idx}: {e!r}"))
                break
            view = expected_view(fn, snap, per)
            if not view:
                # nothing listed: None / {} convention; the statement says a device that disappears starts afresh
                want_empty = {} if per else None
                if got != want_empty:
                    viols.append(("empty_convention", ctx + f" at op#{idx} got={got!r}"))
                if nowrap:
                    model.call(fn, snap, True)
                    model_b.call(f"{fn}/{per if fn == 'disk' else 'x'}", view, True)
                    prev_out[fn] = {}
                continue
            # the statement speaks of devices that stay present *in the kernel's listing* over "successive calls".
            # Two readings are accepted: (A) one history per function over every nowrap call (unfiltered snapshot, the
            # perdisk=False form merely leaves partitions out of the total), (B) one history per function *and form*
            # (the successive calls of the same form). The pre-fix behaviour (one history, fed filtered views, so that
            # partitions "disappear" whenever the total is asked) matches neither.
            want = expected_view(fn, model.call(fn, snap, nowrap), per)
            want_b = model_b.call(f"{fn}/{per if fn == 'disk' else 'x'}", view, nowrap)
            if nowrap:
                acc.count("nowrap_calls_checked")
            if per:
                gotd = {k: tuple(v) for k, v in got.items()}
            else:
                gotd = None
            if mutate and isinstance(got, dict) and got:
                # the result belongs to the caller: whatever they do with it (drop the loopback entry, empty it, overwrite an
                # entry) is no business of later calls
                acc.count("results_mutated_by_the_caller")
                nontrivial = True
                if mutate == "pop":
                    got.pop(sorted(got)[0])
                elif mutate == "clear":
                    got.clear()
                else:
                    k0 = sorted(got)[-1]
                    got[k0] = type(got[k0])(*([2**70] * nf))
            feature = ""
            all_gone_before = False
            if nowrap:
                # classify for mechanism key: did *all* devices vanish at some earlier nowrap call of this fn?
                for j in range(idx):
                    o = hist[j]
                    if o[0] == "call" and o[1] == fn and o[3] and not expected_view(fn, o[2], o[4]):
                        all_gone_before = True
                if all_gone_before:
                    feature = ":after_all_devices_vanished"
                elif fn == "disk" and len({o[4] for o in hist[:idx + 1] if o[0] == "call" and o[1] == "disk" and o[3]}) > 1:
                    feature = ":alternating_perdisk"
                elif any(o[0] == "call" and o[1] == fn and len(o) > 5 and o[5] for o in hist[:idx]):
                    feature = ":after_caller_mutated_result"
            if per:
                if gotd != want and gotd != want_b:
                    viols.append((f"value_mismatch{feature}", ctx + f" at op#{idx} got={gotd} want={want}"))
                if nowrap and fn in prev_out:
                    for k, row in gotd.items():
                        if k in prev_out[fn] and k in view:
                            if any(a < b for a, b in zip(row, prev_out[fn][k])):
                                viols.append((f"counter_decreased{feature}", ctx + f" at op#{idx} dev={k} {prev_out[fn][k]} -> {row}"))
                if nowrap:
                    prev_out[fn] = {k: v for k, v in gotd.items()}
            else:
                if nowrap and fn in prev_out:
                    # a device that is absent from this snapshot legitimately starts afresh later
                    prev_out[fn] = {k: v for k, v in prev_out[fn].items() if k in snap}
                wt = total(want, nf)
                if got is None:
                    viols.append((f"total_mismatch{feature}", ctx + f" at op#{idx} got=None although devices are listed; want={wt}"))
                elif tuple(got) != wt and tuple(got) != total(want_b, nf):
                    viols.append((f"total_mismatch{feature}", ctx + f" at op#{idx} got={tuple(got)} want={wt}"))
        w.clear_all()
    # wrap events in the history (for the non-trivial rule)
    last = {}
    for op in hist:
        if op[0] != "call" or not op[3]:
            continue
        view = expected_view(op[1], op[2], op[4])
        l0 = last.get(op[1], {})
        for k, vals in view.items():
            if k in l0 and any(a < b for a, b in zip(vals, l0[k])):
                acc.count("wrap_events")
                nontrivial = True
        if set(l0) - set(view):
            nontrivial = True
            acc.count("disappear_events")
        last[op[1]] = view
    acc.case(dict(hist=hist), nontrivial, viols)


# ---- generators --------------------------------------------------------------------------------

def mk_row(m, kidx, nf, fn):
    """Unique-per-(key, field) values whose ordering follows m."""
    row = []
    for i in range(nf):
        v = m * 1000 + kidx * 20 + i
        if fn == "disk" and i in (2, 3):
            v *= 512
        row.append(v)
    return row


def enum_histories(length):
    ops_step = []
    for a in (None, 1, 2, 3):
        for b in (None, 5):
            for mode in ("nowrap", "raw", "clear+nowrap"):
                ops_step.append((a, b, mode))
    for fn, keys in (("net", ("eth0", "lo")), ("disk", ("sda", "sda1"))):
        nf = NET_FIELDS if fn == "net" else DISK_FIELDS
        for combo in itertools.product(ops_step, repeat=length):
            hist = []
            for a, b, mode in combo:
                snap = {}
                if a is not None:
                    snap[keys[0]] = mk_row(a, 0, nf, fn)
                if b is not None:
                    snap[keys[1]] = mk_row(b, 1, nf, fn)
                if mode == "clear+nowrap":
                    hist.append(["clear", fn])
                hist.append(["call", fn, snap, mode != "raw", True])
            yield hist


def gen_random(rng):
    names = {"net": ["eth0", "lo", "wlan0", "br-9f", "veth1:2"], "disk": ["sda", "sda1", "sdb", "nvme0n1", "nvme0n1p1", "dm-0"]}
    hist = []
    cur = {"net": {}, "disk": {}}
    last_snap = {}
    use = {fn: rng.sample(names[fn], rng.randrange(1, len(names[fn]) + 1)) for fn in names}
    perdisk_modes = rng.choice([[True], [True], [True, False]])
    for _ in range(rng.randrange(3, 14)):
        fn = rng.choice(["net", "net", "disk"])
        nf = NET_FIELDS if fn == "net" else DISK_FIELDS
        r = rng.random()
        if r < 0.08:
            hist.append(["clear", fn])
            continue
        snap = {}
        style = rng.random()
        order = list(enumerate(use[fn]))
        if rng.random() < 0.3:
            rng.shuffle(order)          # the kernel lists the same devices in another order (re-plugged NIC, renumbered disks)
        for kidx, k in order:
            present = rng.random() < (0.85 if style > 0.1 else 0.0)
            if not present:
                cur[fn].pop(k, None)
                continue
            prev = cur[fn].get(k)
            row = []
            for i in range(nf):
                if prev is None:
                    m = rng.randrange(1, 1000)
                else:
                    pm = prev[i]
                    q = rng.random()
                    if q < 0.55:
                        m = pm + rng.choice([0, 1, 7, 10**6])
                    elif q < 0.9:
                        m = rng.randrange(0, pm + 1)       # wrapped
                    else:
                        m = rng.choice([0, 2**64 // 1000 - 1, 2**32 // 1000])
                row.append(m)
            cur[fn][k] = row
            vals = [m * 1000 + kidx * 20 + i for i, m in enumerate(row)]
            if fn == "disk":
                vals[2] *= 512
                vals[3] *= 512
            snap[k] = vals
        if last_snap.get(fn) and rng.random() < 0.15:
            # idle devices: the kernel's numbers have not moved since the previous call
            snap = {k_: list(v_) for k_, v_ in last_snap[fn].items()}
        last_snap[fn] = snap
        nowrap = rng.random() < 0.85
        per = True if fn == "net" and rng.random() < 0.8 else rng.choice(perdisk_modes if fn == "disk" else [True, False])
        call = ["call", fn, snap, nowrap, per]
        if per and rng.random() < 0.25:
            call.append(rng.choice(["pop", "clear", "poison"]))
        hist.append(call)
    return hist


# ---- part 2: two threads -----------------------------------------------------------------------

SCEN = {
    "net2x2": [[("call", True), ("call", True)], [("call", True), ("call", True)]],
    "net_clear": [[("call", True), ("call", True)], [("clear",), ("call", True)]],
    "net3x2": [[("call", True), ("call", True), ("call", True)], [("call", True), ("call", True)]],
}
# snapshots served in open order: up, wrap, up, wrap, ...
SNAPS = [
    {"eth0": mk_row(5, 0, 8, "net"), "lo": mk_row(9, 1, 8, "net")},
    {"eth0": mk_row(2, 0, 8, "net"), "lo": mk_row(10, 1, 8, "net")},
    {"eth0": mk_row(3, 0, 8, "net")},
    {"eth0": mk_row(1, 0, 8, "net"), "lo": mk_row(4, 1, 8, "net")},
    {"eth0": mk_row(8, 0, 8, "net"), "lo": mk_row(2, 1, 8, "net")},
    {"eth0": mk_row(6, 0, 8, "net"), "lo": mk_row(7, 1, 8, "net")},
]


def run_schedule(scn, preempt, first):
    env = setup()
    ps, S, pc = env["ps"], env["sched"], env["pc"]
    w = World()
    w.queue["net"] = [dict(s) for s in SNAPS]
    cur = [None]
    real_lock = pc._wn.lock
    calls = []       # dict(thread, kind, step0, step1, result, snap)
    with w.vk:
        w.clear_all()
        # seed the cache with one serial call so that the racing calls start from known history
        ps.net_io_counters(pernic=True, nowrap=True)
        seed_snap = w.opened[-1][2]
        sch = S.Sched(env["codes"], preempt=preempt, first=first)
        cur[0] = sch
        w.who = lambda: getattr(sch.idx, "i", None)
        pc._wn.lock = S.CoopLock(real_lock, lambda: cur[0])
        other_locks = {nm: getattr(ps, nm) for nm in ("_net_io_lock", "_disk_io_lock") if hasattr(ps, nm)}
        for nm, lk in other_locks.items():
            setattr(ps, nm, S.CoopLock(lk, lambda: cur[0]))
        try:
            def prog(i):
                def f():
                    for op in SCEN[scn][i]:
                        s0 = sch.step
                        n0 = len(w.opened)
                        if op[0] == "clear":
                            ps.net_io_counters.cache_clear()
                            calls.append(dict(t=i, kind="clear", step0=s0, step1=sch.step))
                        else:
                            r = ps.net_io_counters(pernic=True, nowrap=True)
                            mine = [o for o in w.opened[n0:] if o[0] == i]
                            calls.append(dict(t=i, kind="call", step0=s0, step1=sch.step,
                                              result={k: tuple(v) for k, v in r.items()}, snap=mine[0][2] if mine else None,
                                              served=next(k_ for k_, o_ in enumerate(w.opened) if o_ is mine[0]) if mine else None))
                return f
            # half of the schedules run on threads the `threading` module has not registered (started by _thread, as a C
            # extension or an embedding server would): concurrent callers are concurrent callers, whoever created them
            raw = harness.chash([scn, list(preempt), first])[-1] in "01234567"
            sch.raw_threads = raw
            sch.run([prog(0), prog(1)], raw_threads=raw)
        finally:
            pc._wn.lock = real_lock
            for nm, lk in other_locks.items():
                setattr(ps, nm, lk)
            w.clear_all()
    return sch, calls, seed_snap


def linearizable(calls, seed_snap, kernel_order=True):
    """Some serial order of the calls explains every result.  kernel_order: the snapshots enter the history in the order
    the kernel handed them out - the raw counters only "go backwards" when the kernel's do, never because an older
    snapshot was processed after a newer one."""
    n = len(calls)
    for perm in itertools.permutations(range(n)):
        pos = {c: i for i, c in enumerate(perm)}
        ok = True
        if kernel_order:
            served = [calls[ci].get("served") for ci in perm if calls[ci]["kind"] == "call" and calls[ci].get("served") is not None]
            if served != sorted(served):
                continue
        # per-thread order and real-time order
        for a in range(n):
            for b in range(n):
                if a != b and calls[a]["step1"] < calls[b]["step0"] and pos[a] > pos[b]:
                    ok = False
                if a < b and calls[a]["t"] == calls[b]["t"] and pos[a] > pos[b]:
                    ok = False
        if not ok:
            continue
        m = Model()
        m.call("net", seed_snap, True)
        for ci in perm:
            c = calls[ci]
            if c["kind"] == "clear":
                m.clear("net")
            else:
                if c["snap"] is None or m.call("net", c["snap"], True) != c["result"]:
                    ok = False
                    break
        if ok:
            return True
    return False


def run_sched_case(case, acc, seen):
    sch, calls, seed_snap = run_schedule(case["scn"], tuple(case["preempt"]), case["first"])
    viols = []
    ctx = f"scenario={case['scn']} preempt={case['preempt']} first={case['first']} trace={''.join(map(str, sch.trace))}"
    acc.count("schedules_run")
    if getattr(sch, "raw_threads", False):
        acc.count("schedules_run_on_threads_unknown_to_the_threading_module")
        ctx += " [threads started with _thread.start_new_thread]"
    if sch.error:
        acc.inconclusive = ctx + " watchdog"
    for i, r in enumerate(sch.results):
        if r is None or r[0] == "deadlock":
            viols.append(("scheduler_deadlock", ctx + f" {r}"))
        elif r[0] == "exc":
            viols.append((f"thread_exception:{type(r[1]).__name__}", ctx + f" thread {i}: {r[1]!r}"))
    if not viols:
        acc.count("linearizability_checks")
        if not linearizable(calls, seed_snap):
            mech = "not_linearizable"
            if linearizable(calls, seed_snap, kernel_order=False):
                mech = "older_snapshot_processed_after_newer_one_counts_as_wrap"
            viols.append((mech, ctx + f" calls={calls}"))
    h = (case["scn"], sch.interleaving_hash())
    if h not in seen:
        seen.add(h)
        acc.count("distinct_interleavings")
    acc.case(case, sch.context_switches() >= 2, viols, key=harness.chash(h),
             sample=dict(case, trace="".join(map(str, sch.trace))))


# ---- part 3: free-running threads, many short histories --------------------------------------------------

def run_threads_case(case, acc):
    """2-3 real threads x 2-3 calls (1 us switch interval): every call is served its own raw snapshot (attributed by the
    thread that opened the file), call/return stamped with one monotonic clock outside the call; the short history must be
    linearizable against the sequential accumulator model (same checker as part 2, real time instead of scheduler steps)."""
    import sys
    import threading
    import time
    env = setup()
    ps = env["ps"]
    rng = harness.rng_for(case["seed"], "c10t", case["i"])
    shape = rng.choice([(3, 2), (2, 3), (2, 2), (3, 2)])
    progs = []
    for t in range(shape[0]):
        ops = [("call", True) for _ in range(shape[1])]
        if t == shape[0] - 1 and rng.random() < 0.35:
            ops[rng.randrange(len(ops))] = ("clear",)
        progs.append(ops)
    w = World()
    # raw snapshots: up / wrap mixtures, one or two interfaces, an interface vanishing now and then
    snaps = []
    for _ in range(1 + shape[0] * shape[1]):
        sn = {"eth0": mk_row(rng.randrange(1, 12), 0, 8, "net")}
        if rng.random() < 0.75:
            sn["lo"] = mk_row(rng.randrange(1, 12), 1, 8, "net")
        snaps.append(sn)
    w.queue["net"] = [dict(x) for x in snaps]
    idents = {}
    w.who = lambda: idents.get(threading.get_ident())
    calls = []
    errors = []
    now = time.perf_counter_ns
    barrier = threading.Barrier(shape[0])
    old = sys.getswitchinterval()

    def worker(i):
        idents[threading.get_ident()] = i
        try:
            barrier.wait()
            for op in progs[i]:
                t0 = now()
                n0 = len(w.opened)
                if op[0] == "clear":
                    ps.net_io_counters.cache_clear()
                    calls.append(dict(t=i, kind="clear", step0=t0, step1=now()))
                else:
                    r = ps.net_io_counters(pernic=True, nowrap=True)
                    t1 = now()
                    mine = [o for o in w.opened[n0:] if o[0] == i]
                    calls.append(dict(t=i, kind="call", step0=t0, step1=t1, result={k: tuple(v) for k, v in r.items()},
                                      snap=mine[0][2] if mine else None, served=next(k_ for k_, o_ in enumerate(w.opened) if o_ is mine[0]) if mine else None))
        except BaseException as e:  # noqa: BLE001
            errors.append((i, e))

    with w.vk:
        w.clear_all()
        ps.net_io_counters(pernic=True, nowrap=True)
        seed_snap = w.opened[-1][2]
        sys.setswitchinterval(1e-6)
        try:
            ths = [threading.Thread(target=worker, args=(i,), daemon=True) for i in range(shape[0])]
            for t in ths:
                t.start()
            for t in ths:
                t.join(60)
            hung = any(t.is_alive() for t in ths)
        finally:
            sys.setswitchinterval(old)
            w.clear_all()
    viols = []
    ctx = f"free-running threads seed={case['seed']} i={case['i']} progs={progs}"
    if hung:
        acc.inconclusive = ctx + ": a thread did not finish within 60 s"
        return
    for i, e in errors:
        viols.append((f"thread_exception:{type(e).__name__}", f"{ctx} thread {i}: {e!r}"))
    # the checker needs per-thread program order: calls of one thread were appended in order
    calls.sort(key=lambda c: (c["t"], c["step0"]))
    overlapped = any(a["t"] != b["t"] and a["step0"] <= b["step1"] and b["step0"] <= a["step1"] for a in calls for b in calls)
    if not viols:
        acc.count("linearizability_checks")
        acc.count("free_running_histories_checked")
        if overlapped:
            acc.count("free_running_histories_with_overlapping_calls")
        if not linearizable(calls, seed_snap):
            mech = "not_linearizable"
            if linearizable(calls, seed_snap, kernel_order=False):
                mech = "older_snapshot_processed_after_newer_one_counts_as_wrap"
            viols.append((mech, f"{ctx} calls={calls}"))
    acc.case(dict(kind="threads", **case), overlapped, viols)


def plan(tier, seed):
    shards = []
    length = 3 if tier == "quick" else 4
    parts = 12 if tier == "quick" else 40
    for i in range(parts):
        shards.append(dict(kind="enum", length=length, part=i, parts=parts))
    nrand = 12000 if tier == "quick" else 400000
    for s, c in harness.split_range(nrand, 8 if tier == "quick" else 32):
        shards.append(dict(kind="rand", seed=seed, start=s, count=c))
    for scn in SCEN:
        sp = 4 if tier == "quick" else 12
        bound = 2
        if tier == "quick" and scn != "net_clear":
            bound = 1
        for part in range(sp if bound == 2 else 1):
            shards.append(dict(kind="sched_exh", scn=scn, bound=bound, part=part, parts=sp if bound == 2 else 1))
        shards.append(dict(kind="sched_rand", scn=scn, seed=seed, count=1500 if tier == "quick" else 60000))
    for part in range(4 if tier == "quick" else 16):
        shards.append(dict(kind="threads", seed=seed, part=part, count=400 if tier == "quick" else 8000))
    return shards


def run_fork_case(fn, acc):
    """The program forks after its first samples (a daemon detaching, multiprocessing's fork start method): the child carries
    the history on - for a device that stays present nothing decreases and nothing is forgotten across fork()."""
    import json
    w = World()
    nf = NET_FIELDS if fn == "net" else DISK_FIELDS
    key = "eth0" if fn == "net" else "sda"
    s1, s2, s3 = ({key: mk_row(m, 0, nf, fn)} for m in (9, 2, 5))      # up, wrapped, up again
    viols = []
    with w.vk:
        w.clear_all()
        model = Model()
        for sn in (s1, s2):
            psutil_call(w, fn, sn, True, True)
            model.call(fn, sn, True)
        want = {k_: list(v_) for k_, v_ in model.call(fn, s3, True).items()}
        r, wr = os.pipe()
        pid = os.fork()
        if pid == 0:
            try:
                os.close(r)
                got = psutil_call(w, fn, s3, True, True)
                os.write(wr, json.dumps({k_: list(v_) for k_, v_ in got.items()}).encode())
            except BaseException as e:  # noqa: BLE001
                os.write(wr, json.dumps({"error": repr(e)}).encode())
            finally:
                os._exit(0)
        os.close(wr)
        data = b""
        while True:
            chunk = os.read(r, 65536)
            if not chunk:
                break
            data += chunk
        os.close(r)
        os.waitpid(pid, 0)
        w.clear_all()
    got = json.loads(data or b'{"error": "no answer from the child"}')
    acc.count("fork_cases")
    if got != want:
        viols.append(("history_lost_across_fork", f"{fn}: after up, wrap, fork the child's next call -> {got} want {want}"))
    acc.case(dict(kind="fork", fn=fn), True, viols)


def run_shard(shard):
    acc = harness.Acc(max_samples=2)
    setup()
    k = shard["kind"]
    seen = set()
    if k == "enum":
        if shard["part"] == 0:
            for fn in ("net", "disk"):
                run_fork_case(fn, acc)
        for i, h in enumerate(enum_histories(shard["length"])):
            if i % shard["parts"] == shard["part"]:
                run_history(h, acc)
        acc.exhaustive = True
    elif k == "rand":
        for i in range(shard["start"], shard["start"] + shard["count"]):
            run_history(gen_random(harness.rng_for(shard["seed"], "c10", i)), acc)
    elif k == "threads":
        for i in range(shard["count"]):
            run_threads_case(dict(seed=shard["seed"], i=shard["part"] * 100000 + i), acc)
    elif k == "sched_exh":
        sch, _, _ = run_schedule(shard["scn"], (), 0)
        total_steps = sch.step
        acc.extra.setdefault("yield_points_per_scenario", {})[shard["scn"]] = total_steps
        i = 0
        for first in (0, 1):
            for pre in _env["sched"].schedules_upto(total_steps, shard["bound"]):
                if i % shard["parts"] == shard["part"]:
                    run_sched_case(dict(scn=shard["scn"], preempt=list(pre), first=first), acc, seen)
                i += 1
        acc.exhaustive = True
    elif k == "sched_rand":
        sch, _, _ = run_schedule(shard["scn"], (), 0)
        total_steps = sch.step
        for i in range(shard["count"]):
            rng = harness.rng_for(shard["seed"], "c10s", shard["scn"], i)
            pre = sorted(rng.sample(range(total_steps), rng.choice([3, 4])))
            run_sched_case(dict(scn=shard["scn"], preempt=pre, first=rng.randrange(2)), acc, seen)
    elif k == "cases":
        for case in shard["cases"]:
            if "hist" in case:
                run_history(case["hist"], acc)
            elif case.get("kind") == "threads":
                run_threads_case({k_: v for k_, v in case.items() if k_ != "kind"}, acc)
            else:
                run_sched_case(case, acc, seen)
    return acc.result()
