"""C18 - nice/ionice/cpu_affinity/rlimit: get reads the kernel, set changes exactly that.

Live kernel: sleeping child processes are the targets; after every set the value is read back through
psutil *and* through independent kernel interfaces (os.getpriority, raw ioprio_get syscall,
os.sched_getaffinity, resource.prlimit, /proc/<pid>/limits); two sentinel processes are snapshotted
before/after every set.
"""
import ctypes
import contextlib
import itertools
import os
import resource
import subprocess
import sys

from vlib import harness

ID = "C18"
LEVEL = "exploration"
ENGINE = "live"
FLAVOURS = ["plain", "asan"]
TECHNIQUE = "runtime monitor on the live kernel: set through psutil, read back through psutil and through independent syscalls, sentinel-process invariants; small domains exhaustive"
RULE = ("one case = one set request on a live sleeping child: nice -20..19 (exhaustive), ioclass x level (exhaustive incl. invalid "
        "neighbours), cpu lists (all singletons, all pairs, ranges, random subsets, duplicates, [] fresh and after narrowing, lists of "
        "nonexistent CPUs), every RLIMIT_* x (soft<=hard<=current hard) incl. RLIM_INFINITY, wrong-length limit sequences. "
        "non-trivial = a set whose value differs from the value in force before it; distinct by (kind, value, previous value)")
ASSUMPTIONS = [
    "runs as root without CAP_SYS_RESOURCE: raising a hard limit is refused by the kernel (AccessDenied) and counts as 'not a successful set': nothing may change",
    "'eligible CPUs' are obtained independently: a sibling child given an all-ones mask with os.sched_setaffinity reports what the kernel allows",
    "invalid requests listed by the statement must raise ValueError; other malformed requests (unknown ioclass, mixed valid/invalid CPUs) are only required to leave every process unchanged when they fail",
]
REQUIRED_COUNTERS = ["sets_checked", "kernel_readbacks", "sentinel_snapshots", "invalid_requests_checked"]
SHARD_TIMEOUT = 1200

libc = ctypes.CDLL(None, use_errno=True)
SYS_ioprio_get = 252
SYS_ioprio_set = 251
RLIMS = sorted((getattr(resource, n), n) for n in dir(resource) if n.startswith("RLIMIT_"))

_env = {}


def setup():
    if not _env:
        import psutil
        ov = os.environ.get("VERIF_OVERLAY", "")
        assert psutil.__file__.startswith(ov), psutil.__file__
        _env["ps"] = psutil
    return _env


def spawn():
    env = {k: v for k, v in os.environ.items() if k != "LD_PRELOAD"}
    return subprocess.Popen([sys.executable, "-S", "-c", "import time\nwhile True: time.sleep(1000)"], env=env)


def raw_ioprio(pid):
    r = libc.syscall(SYS_ioprio_get, 1, pid)
    return (r >> 13, r & 0x1FFF)


def proc_limits(pid):
    out = {}
    with open(f"/proc/{pid}/limits") as f:
        next(f)
        for line in f:
            name = line[:26].strip()
            soft, hard = line[26:].split()[:2]
            out[name] = (soft, hard)
    return out


def snapshot(pid):
    return dict(nice=os.getpriority(os.PRIO_PROCESS, pid), ioprio=raw_ioprio(pid), aff=sorted(os.sched_getaffinity(pid)),
                rlim=tuple(resource.prlimit(pid, r) for r, _ in RLIMS))


class Ctx:
    def __init__(self, acc):
        self.acc = acc
        self.ps = setup()["ps"]
        self.target = spawn()
        self.sibling = spawn()
        self.p = self.ps.Process(self.target.pid)
        self.sent = [self.sibling.pid, os.getpid()]

    def close(self):
        for c in (self.target, self.sibling):
            c.kill()
            c.wait()

    @contextlib.contextmanager
    def block(self, on):
        """Optionally run the set + read-back inside a oneshot() block whose caches were filled beforehand (including
        by the get forms themselves): a get answered from a per-block cache would then report the value before the set."""
        if not on:
            yield
            return
        with self.p.oneshot():
            for m in ("cpu_times", "status", "ppid", "name", "uids", "memory_info", "num_threads", "num_ctx_switches",
                      "nice", "ionice", "cpu_affinity", "cpu_num", "create_time"):
                try:
                    getattr(self.p, m)()
                except Exception:  # noqa: BLE001
                    pass
            for res, _ in RLIMS[:3]:
                try:
                    self.p.rlimit(res)
                except Exception:  # noqa: BLE001
                    pass
            self.acc.count("sets_inside_primed_oneshot_block")
            yield

    def guarded(self, fn, case, check_target_unchanged=False):
        """Run fn between sentinel snapshots. Returns ('ok', v) | (excname, exc)."""
        before = [snapshot(s) for s in self.sent]
        tb = snapshot(self.target.pid)
        harness.mark_current(case)
        try:
            r = ("ok", fn())
        except BaseException as e:  # noqa: BLE001
            r = (type(e).__name__, e)
        after = [snapshot(s) for s in self.sent]
        self.acc.count("sentinel_snapshots", 2)
        viols = []
        if before != after:
            viols.append(("other_process_changed", f"{case}: sentinels {before} -> {after}"))
        if r[0] != "ok":
            ta = snapshot(self.target.pid)
            if ta != tb:
                viols.append(("failed_request_changed_target", f"{case}: raised {r[0]} but target changed {tb} -> {ta}"))
        return r, viols, tb


def run_nice(acc, values):
    c = Ctx(acc)
    try:
        for n_, v in enumerate(values):
            case = dict(kind="nice", value=v, oneshot=bool(n_ % 2))
            with c.block(n_ % 2):
                r, viols, tb = c.guarded(lambda: c.p.nice(v), case)
                acc.count("sets_checked")
                if r[0] != "ok":
                    viols.append((f"nice_set_raised:{r[0]}", f"nice({v}) -> {r[1]!r}"))
                else:
                    k = os.getpriority(os.PRIO_PROCESS, c.target.pid)
                    try:
                        got = c.p.nice()
                    except Exception as e:  # noqa: BLE001
                        got = f"raised {e!r}"
                        viols.append((f"nice_get_raised:{type(e).__name__}", f"nice() with kernel niceness {k} -> {e!r}"))
                    acc.count("kernel_readbacks")
                    if (got != v and not isinstance(got, str)) or k != v:
                        viols.append(("nice_readback_wrong", f"nice({v}): psutil get {got} kernel {k}"))
            acc.case(case, tb["nice"] != v, viols, key=harness.chash(["nice", v, tb["nice"], n_ % 2]))
            # somebody else re-nices the process, then the same request is made again through the same object: a set is a
            # request to the kernel, not a comparison with what this object did last time
            other = 3 if v != 3 else 4
            case2 = dict(kind="nice_again_after_external_change", value=v, other=other)
            try:
                os.setpriority(os.PRIO_PROCESS, c.target.pid, other)
            except OSError:
                continue
            r, viols, tb = c.guarded(lambda: c.p.nice(v), case2)
            acc.count("sets_repeated_after_an_external_change")
            if r[0] == "ok":
                k = os.getpriority(os.PRIO_PROCESS, c.target.pid)
                if k != v:
                    viols.append(("nice_readback_wrong:same_request_after_external_change", f"nice({v}) again after renice to {other}: kernel says {k}"))
            elif r[0] != "AccessDenied":
                viols.append((f"nice_set_raised:{r[0]}", f"nice({v}) -> {r[1]!r}"))
            acc.case(case2, True, viols)
        for bad in (20, 21, 100, -21, -100):
            # out-of-range nice values are clamped by the kernel (not listed as invalid by the statement): only sentinels matter
            case = dict(kind="nice_out_of_range", value=bad)
            r, viols, tb = c.guarded(lambda: c.p.nice(bad), case)
            acc.case(case, True, viols)
    finally:
        c.close()


def run_ionice(acc):
    c = Ctx(acc)
    ps = c.ps
    try:
        valid = [(0, None), (0, 0), (3, None), (3, 0)] + [(k, v) for k in (1, 2) for v in list(range(8)) + [None]]
        for rep in range(4):
            for k, v in valid:
                case = dict(kind="ionice", ioclass=k, value=v, oneshot=bool(rep % 2))
                if rep >= 2:
                    # what an earlier raw ioprio_set(2) left in the priority word (Linux >= 6.5: an "I/O hint" in the data
                    # bits above the level; `ionice -c3`: (IDLE, 7)) is no part of the request: a set stores exactly the request
                    word = ((2 << 13) | (((k or 0) + 1) % 7 + 1) << 3 | 5) if rep == 2 else ((3 << 13) | 7)
                    if libc.syscall(SYS_ioprio_set, 1, c.target.pid, word) != 0:
                        acc.count("kernel_refused_planted_ioprio_word")
                        continue
                    case["planted_word"] = word
                    acc.count("sets_over_a_planted_ioprio_word")
                with c.block(rep % 2):
                    r, viols, tb = c.guarded(lambda: c.p.ionice(k, v), case)
                    acc.count("sets_checked")
                    want = (k, v or 0)
                    if r[0] != "ok":
                        viols.append((f"ionice_set_raised:{r[0]}", f"ionice({k},{v}) -> {r[1]!r}"))
                    else:
                        kr = raw_ioprio(c.target.pid)
                        try:
                            g = c.p.ionice()
                            gv = (int(g.ioclass), g.value)
                        except Exception as e:  # noqa: BLE001
                            gv = None
                            viols.append((f"ionice_get_raised:{type(e).__name__}", f"ionice() with kernel value {kr} -> {e!r}"))
                        acc.count("kernel_readbacks")
                        if (gv is not None and gv != want) or kr != want:
                            viols.append(("ionice_readback_wrong", f"ionice({k},{v}): psutil get {gv} kernel {kr}"))
                acc.case(case, tb["ioprio"] != want, viols, key=harness.chash(["ionice", k, v, tb["ioprio"], rep]))
        invalid = [(k, v) for k in (1, 2) for v in (-1, 8, 9, 100, -100, 2**31)] + [(k, v) for k in (0, 3) for v in range(1, 9)]
        for k, v in invalid:
            case = dict(kind="ionice_invalid", ioclass=k, value=v)
            r, viols, tb = c.guarded(lambda: c.p.ionice(k, v), case)
            acc.count("invalid_requests_checked")
            if r[0] != "ValueError":
                viols.append(("ionice_invalid_not_ValueError", f"ionice({k},{v}) -> {r[0]}"))
            acc.case(case, True, viols)
        for v in (0, 3, 7):
            case = dict(kind="ionice_level_without_class", value=v)
            r, viols, tb = c.guarded(lambda: c.p.ionice(value=v), case)
            acc.count("invalid_requests_checked")
            if r[0] != "ValueError":
                viols.append(("ionice_level_without_class_not_ValueError", f"ionice(value={v}) -> {r[0]}"))
            acc.case(case, True, viols)
        for k in (4, 5, 7, 8, -1, 2**18, 2**31):
            case = dict(kind="ionice_unknown_class", ioclass=k)
            r, viols, tb = c.guarded(lambda: c.p.ionice(k, 0), case)
            acc.count("invalid_requests_checked")
            acc.case(case, True, viols)
    finally:
        c.close()


def run_affinity(acc, shard):
    c = Ctx(acc)
    try:
        os.sched_setaffinity(c.sibling.pid, range(1024))
        eligible = sorted(os.sched_getaffinity(c.sibling.pid))
        acc.extra["eligible_cpus"] = eligible
        rng = harness.rng_for(shard["seed"], "c18aff", shard.get("part", 0))
        lists = []
        if shard.get("part", 0) == 0:
            lists += [[x] for x in eligible]
            lists += [list(pr) for pr in itertools.combinations(eligible, 2)]
            lists += [eligible[:k] for k in range(1, len(eligible) + 1)] + [eligible[k:] for k in range(len(eligible))]
            lists += [[eligible[0]] * 3, eligible + eligible, [eligible[-1], eligible[0], eligible[-1]]]
        for _ in range(shard.get("nrand", 300)):
            s = [x for x in eligible if rng.random() < rng.choice([0.2, 0.5, 0.8])] or [rng.choice(eligible)]
            rng.shuffle(s)
            if rng.random() < 0.1:
                s = s + s[:2]
            lists.append(s)
        n = 0
        for cpus in lists:
            case = dict(kind="affinity", cpus=cpus, oneshot=bool(n % 3 == 1))
            with c.block(n % 3 == 1):
                r, viols, tb = c.guarded(lambda: c.p.cpu_affinity(cpus), case)
                acc.count("sets_checked")
                want = sorted(set(cpus))
                if r[0] != "ok":
                    viols.append((f"affinity_set_raised:{r[0]}", f"cpu_affinity({cpus}) -> {r[1]!r}"))
                else:
                    k = sorted(os.sched_getaffinity(c.target.pid))
                    try:
                        g = c.p.cpu_affinity()
                    except Exception as e:  # noqa: BLE001
                        g = None
                        viols.append((f"affinity_get_raised:{type(e).__name__}", f"cpu_affinity() with kernel mask {k} -> {e!r}"))
                    acc.count("kernel_readbacks")
                    if (g is not None and g != want) or k != want:
                        viols.append(("affinity_readback_wrong", f"cpu_affinity({cpus}): psutil get {g} kernel {k}"))
            acc.case(case, tb["aff"] != want, viols, key=harness.chash(["aff", want, tb["aff"]]))
            n += 1
            if n % 7 == 0 or n < 4:
                # [] selects all eligible CPUs - asked right after a (possibly narrow) setting
                prev = sorted(os.sched_getaffinity(c.target.pid))
                case = dict(kind="affinity_empty", after=prev)
                r, viols, tb = c.guarded(lambda: c.p.cpu_affinity([]), case)
                acc.count("sets_checked")
                acc.count("affinity_empty_list_checked")
                if r[0] != "ok":
                    viols.append((f"affinity_empty_raised:{r[0]}", f"cpu_affinity([]) after {prev} -> {r[1]!r}"))
                else:
                    k = sorted(os.sched_getaffinity(c.target.pid))
                    if k != eligible:
                        mech = "affinity_empty_list_not_all_eligible"
                        if prev != eligible:
                            # the code reads the "eligible" CPUs from Cpus_allowed_list - the *current* affinity - but only
                            # understands a list that starts with a range "N-M": that is the recorded finding. A single CPU
                            # or a list starting "N,M" makes it fall back to all CPUs, which is right
                            if len(prev) >= 2 and prev[1] == prev[0] + 1:
                                mech += ":after_narrowing"
                            else:
                                mech += ":after_pinning_to_a_list_without_leading_range"
                        viols.append((mech, f"cpu_affinity([]) after {prev}: kernel {k}, eligible {eligible}"))
                acc.case(case, prev != eligible, viols, key=harness.chash(["aff_empty", prev]))
        hi = max(eligible) + 1
        e0, e1 = eligible[0], eligible[-1]
        alias = [[2**32 + e0], [2**32 + e1], [2**32], [2**33 + e0], [2**62 + e1], [-2**32 + e0], [-2**40 + e1], [2**16 + e0], [2**31 + e0],
                 [2**32 + e0, 2**32 + e1], [2**63 - 1], [-2**63]]
        for bad in [[hi], [hi, hi + 1], [999], [1023], [1024], [4096], [10**6], [-1], [-1, -2], [2**31], [2**70]] + alias:
            case = dict(kind="affinity_invalid", cpus=[str(x) if abs(x) > 2**62 else x for x in bad])
            r, viols, tb = c.guarded(lambda: c.p.cpu_affinity(bad), case)
            acc.count("invalid_requests_checked")
            if r[0] != "ValueError":
                mech = f"affinity_nonexistent_cpus_not_ValueError:{r[0]}"
                viols.append((mech, f"cpu_affinity({bad}) -> {r[0]} {r[1]!r}"))
            acc.case(case, True, viols)
    finally:
        c.close()


def run_rlimit(acc, shard):
    ps = setup()["ps"]
    INF = resource.RLIM_INFINITY
    memish = {getattr(resource, n) for n in ("RLIMIT_AS", "RLIMIT_DATA", "RLIMIT_STACK", "RLIMIT_RSS", "RLIMIT_MEMLOCK") if hasattr(resource, n)}
    for res, name in RLIMS:
        c = Ctx(acc)
        try:
            cur_soft, cur_hard = resource.prlimit(c.target.pid, res)
            g0 = c.p.rlimit(res)
            acc.count("kernel_readbacks")
            v0 = []
            if tuple(g0) != (cur_soft, cur_hard):
                v0.append(("rlimit_get_wrong", f"{name}: psutil {g0} kernel {(cur_soft, cur_hard)}"))
            acc.case(dict(kind="rlimit_get", res=name), False, v0)
            top = cur_hard if cur_hard != INF else 2**62
            if res == resource.RLIMIT_CPU and top > 2**33:
                # the kernel converts the CPU-time limit to nanoseconds: beyond 2**64/1e9 s the product overflows, the limit
                # looks exceeded as soon as the target runs, and the kernel itself raises the soft limit by one per second
                # (seen as read-back 2**61+1 under load, while the child was still starting up)
                top = 2**33
            floor = 1 << 26 if res in memish else 0
            cands = []
            if cur_hard == INF:
                cands += [(INF, INF), (top // 2, INF), (floor + 12345, INF)]
                if res != resource.RLIMIT_CPU:
                    # the largest finite limits (container runtimes write 2**63-1): finite is finite, next to "unlimited" as
                    # it is (hard limits only ever go down here: raising one needs a capability the sandbox does not grant)
                    cands += [(2**63 - 1, 2**63 - 1), (2**63 - 2, 2**63 - 1), (floor + 7, 2**63 - 1), (2**63 - 2, 2**63 - 2)]
            hs = sorted({top, max(floor, top // 2), max(floor, top // 4), floor + 4096}, reverse=True)
            for h in hs:
                if h > top:
                    continue
                for s in sorted({h, max(floor, h // 2), floor + 7, floor}):
                    if s <= h:
                        cands.append((s, h))
            # wrong-length sequences first (nothing may change)
            for bad in ((), (1,), (1, 2, 3), [5], [1, 2, 3, 4]):
                case = dict(kind="rlimit_not_a_pair", res=name, limits=list(bad))
                r, viols, tb = c.guarded(lambda: c.p.rlimit(res, bad), case)
                acc.count("invalid_requests_checked")
                if r[0] != "ValueError":
                    viols.append(("rlimit_not_a_pair_not_ValueError", f"rlimit({name},{bad}) -> {r[0]}"))
                acc.case(case, True, viols)
            for n_, (s, h) in enumerate(cands):
                case = dict(kind="rlimit", res=name, soft=s, hard=h, oneshot=bool(n_ % 2))
                with c.block(n_ % 2):
                    r, viols, tb = c.guarded(lambda: c.p.rlimit(res, (s, h)), case)
                    acc.count("sets_checked")
                    prev = tb["rlim"][[x for x, _ in RLIMS].index(res)]
                    if r[0] == "AccessDenied":
                        acc.count("rlimit_refused_by_kernel")
                    elif r[0] != "ok":
                        viols.append((f"rlimit_set_raised:{r[0]}", f"rlimit({name},({s},{h})) -> {r[1]!r}"))
                    else:
                        g = tuple(c.p.rlimit(res))
                        k = resource.prlimit(c.target.pid, res)
                        acc.count("kernel_readbacks")
                        if g != (s, h) or k != (s, h):
                            viols.append(("rlimit_readback_wrong", f"rlimit({name},({s},{h})): psutil {g} kernel {k}"))
                        # every other resource of the target is untouched
                        ta = snapshot(c.target.pid)
                        for i, (r2, n2) in enumerate(RLIMS):
                            if r2 != res and ta["rlim"][i] != tb["rlim"][i]:
                                viols.append(("rlimit_changed_other_resource", f"set {name} changed {n2}: {tb['rlim'][i]} -> {ta['rlim'][i]}"))
                        if (ta["nice"], ta["ioprio"], ta["aff"]) != (tb["nice"], tb["ioprio"], tb["aff"]):
                            viols.append(("rlimit_changed_other_attribute", f"set {name}"))
                acc.case(case, prev != (s, h), viols, key=harness.chash(["rlimit", name, s, h, prev]))
        finally:
            c.close()


# the kernel's own table: resource number and the label of its row in /proc/<pid>/limits (include/uapi/asm-generic/resource.h,
# fs/proc/base.c) - independent of every constant psutil or Python exports
KERNEL_RLIMITS = {
    "RLIMIT_CPU": (0, "Max cpu time"), "RLIMIT_FSIZE": (1, "Max file size"), "RLIMIT_DATA": (2, "Max data size"),
    "RLIMIT_STACK": (3, "Max stack size"), "RLIMIT_CORE": (4, "Max core file size"), "RLIMIT_RSS": (5, "Max resident set"),
    "RLIMIT_NPROC": (6, "Max processes"), "RLIMIT_NOFILE": (7, "Max open files"), "RLIMIT_MEMLOCK": (8, "Max locked memory"),
    "RLIMIT_AS": (9, "Max address space"), "RLIMIT_LOCKS": (10, "Max file locks"), "RLIMIT_SIGPENDING": (11, "Max pending signals"),
    "RLIMIT_MSGQUEUE": (12, "Max msgqueue size"), "RLIMIT_NICE": (13, "Max nice priority"), "RLIMIT_RTPRIO": (14, "Max realtime priority"),
    "RLIMIT_RTTIME": (15, "Max realtime timeout"),
}


def run_rlimit_names(acc):
    """Every RLIMIT_* name psutil exports: its number is the kernel's, get reads the row of that label in /proc/<pid>/limits,
    and lowering its soft limit moves that row and no other."""
    c = Ctx(acc)
    ps = c.ps
    try:
        def rows():
            return {k: tuple(-1 if x == "unlimited" else int(x) for x in v) for k, v in proc_limits(c.target.pid).items()}
        names = sorted(n for n in dir(ps) if n.startswith("RLIMIT_"))
        acc.extra["rlimit_names_exported"] = names
        for name in names:
            viols = []
            case = dict(kind="rlimit_name", res=name)
            if name not in KERNEL_RLIMITS:
                acc.case(case, False, [("rlimit_name_unknown_to_the_kernel_table", name)])
                continue
            num, label = KERNEL_RLIMITS[name]
            val = getattr(ps, name)
            acc.count("rlimit_names_checked")
            if int(val) != num:
                viols.append(("rlimit_constant_wrong", f"psutil.{name} == {int(val)}, the kernel's number is {num}"))
            before = rows()
            got = tuple(c.p.rlimit(val))
            acc.count("kernel_readbacks")
            inf = resource.RLIM_INFINITY
            norm = tuple(-1 if x in (inf, -1) else x for x in got)
            if norm != before[label]:
                viols.append(("rlimit_get_wrong", f"{name}: psutil {got} but /proc/<pid>/limits '{label}' says {before[label]}"))
            soft, hard = before[label]
            new_soft = (hard if hard != -1 else 1 << 40) // 2 + 12345 if (soft == -1 or soft > 1 << 20) else max(soft - 1, 0)
            if name in ("RLIMIT_AS", "RLIMIT_DATA", "RLIMIT_STACK", "RLIMIT_NOFILE", "RLIMIT_NPROC"):
                new_soft = max(new_soft, 1 << 20 if name != "RLIMIT_NOFILE" else 64)
                if hard != -1:
                    new_soft = min(new_soft, hard)
            r, v2, tb = c.guarded(lambda: c.p.rlimit(val, (new_soft, inf if hard == -1 else hard)), case)
            viols += v2
            acc.count("sets_checked")
            if r[0] == "ok":
                after = rows()
                moved = [k for k in after if after[k] != before.get(k)]
                if after[label][0] != new_soft:
                    viols.append(("rlimit_set_wrong_resource", f"{name}: soft limit set to {new_soft}; row '{label}' says {after[label]}; rows that moved: {moved}"))
                if [k for k in moved if k != label]:
                    viols.append(("rlimit_changed_other_resource", f"set {name} moved {[(k, before.get(k), after[k]) for k in moved if k != label]}"))
            elif r[0] != "AccessDenied":
                viols.append((f"rlimit_set_raised:{r[0]}", f"{name}: {r[1]!r}"))
            acc.case(case, True, viols)
    finally:
        c.close()


def run_sinks(acc):
    """Against the simulated kernel: what reaches the syscall wrappers. Every valid request produces exactly one sink
    event carrying exactly the requested pid and value; every invalid request produces none."""
    from vlib import histories, psu
    ps = psu.load()
    reqs = []
    for v in range(-20, 20):
        reqs.append(("nice", v, ["setpriority", v], None))
    for k, v in [(0, None), (0, 0), (3, None), (3, 0)] + [(k, v) for k in (1, 2) for v in list(range(8)) + [None]]:
        reqs.append(("ionice", [k, v], ["ioprio_set", [k, v or 0]], None))
    for k, v in [(k, v) for k in (1, 2) for v in (-1, 8, 100)] + [(k, v) for k in (0, 3) for v in (1, 7)]:
        reqs.append(("ionice", [k, v], None, "ValueError"))
    for mask in range(1, 16):
        cpus = [i for i in range(4) if mask >> i & 1]
        reqs.append(("affinity", cpus, ["affinity_set", cpus], None))
        reqs.append(("affinity", cpus + cpus[:1], ["affinity_set", cpus], None))
    for res in range(16):
        for lim in ([0, 0], [5, 10], [2**63 - 1, 2**63 - 1], [-1, -1]):
            reqs.append(("rlimit", [res, lim], ["prlimit_set", [res, lim]], None))
        for bad in ([], [1], [1, 2, 3]):
            reqs.append(("rlimit", [res, bad], None, "ValueError"))
    for kind, value, want_ev, want_exc in reqs:
        w = histories.World(ps)
        viols = []
        with w:
            w.apply(("spawn", 7, False))
            w.apply(("spawn", 8, False))
            w.apply(("new", 7))
            p = w.handles[0].obj
            ev0 = len(w.vk.events)
            try:
                if kind == "nice":
                    p.nice(value)
                elif kind == "ionice":
                    p.ionice(value[0], value[1])
                elif kind == "affinity":
                    p.cpu_affinity(list(value))
                else:
                    p.rlimit(value[0], tuple(value[1]))
                exc = None
            except Exception as e:  # noqa: BLE001
                exc = type(e).__name__
            evs = [list(e) for e in w.vk.events[ev0:] if not (e[0] == "kill" and e[2] == 0)]
            norm = []
            for e in evs:
                a = e[2]
                if isinstance(a, tuple):
                    a = [list(x) if isinstance(x, tuple) else x for x in a]
                if e[0] == "affinity_set":
                    a = sorted(set(a))
                norm.append([e[0], e[1], a])
            acc.count("sink_requests_checked")
            case = dict(kind="sink_" + kind, value=value)
            if want_exc:
                acc.count("invalid_requests_checked")
                if exc != want_exc:
                    viols.append((f"sink_invalid_request_not_{want_exc}:{kind}", f"{kind}({value}) -> {exc}"))
                if norm:
                    viols.append((f"sink_invalid_request_reached_kernel:{kind}", f"{kind}({value}) -> events {norm}"))
            else:
                want = [want_ev[0], 7, want_ev[1]]
                if exc is not None:
                    viols.append((f"sink_valid_request_raised:{kind}", f"{kind}({value}) -> {exc}"))
                elif norm != [want]:
                    viols.append((f"sink_wrong_syscall_arguments:{kind}", f"{kind}({value}) -> events {norm} want {[want]}"))
        acc.case(case, True, viols, key=harness.chash([kind, value]))


def run_stale_sinks(acc):
    """"every other process is unchanged": the process of the object has ended and its pid belongs to somebody else - no
    setting form (incl. the cpu_affinity([]) alias in its three spellings) may reach that other process."""
    from vlib import histories, psu
    ps = psu.load()
    forms = [("nice", lambda p: p.nice(5)), ("ionice", lambda p: p.ionice(2, 3)), ("rlimit", lambda p: p.rlimit(7, (5, 9))),
             ("affinity", lambda p: p.cpu_affinity([0, 1])), ("affinity_dup", lambda p: p.cpu_affinity([1, 1])),
             ("affinity_all_list", lambda p: p.cpu_affinity([])), ("affinity_all_tuple", lambda p: p.cpu_affinity(())),
             ("affinity_all_set", lambda p: p.cpu_affinity(set()))]
    for name, fn in forms:
        for seen_gone in (False, True):
            for zombie in (False, True):
                w = histories.World(ps)
                viols = []
                with w:
                    w.apply(("spawn", 7, False))
                    w.apply(("spawn", 8, False))
                    w.apply(("new", 7))
                    p = w.handles[0].obj
                    w.apply(("vanish", 7))
                    if seen_gone:
                        w.apply(("isrun", 0))
                    w.apply(("spawn", 7, zombie))
                    ev0 = len(w.vk.events)
                    try:
                        fn(p)
                        exc = None
                    except Exception as e:  # noqa: BLE001
                        exc = type(e).__name__
                    evs = [list(e) for e in w.vk.events[ev0:] if not (e[0] == "kill" and e[2] == 0)]
                    acc.count("stale_object_setters_checked")
                    if evs:
                        viols.append((f"sink_other_process_changed:{name.split('_')[0]}:pid_recycled",
                                      f"{name} through an object whose process ended (pid now owned by another process) -> {evs}"))
                    if exc != "NoSuchProcess":
                        viols.append((f"sink_stale_object_setter_not_NoSuchProcess:{name.split('_')[0]}", f"{name} -> {exc}"))
                acc.case(dict(kind="sink_stale", form=name, seen_gone=seen_gone, zombie=zombie), True, viols)


def run_get_foreign_states(acc):
    """"the get form returns what the kernel reports": states psutil's own setters never produce but other tools do
    (`ionice -c3` stores (IDLE, 7); a raw ioprio_set(); nice values and masks set by somebody else)."""
    from vlib import histories, psu
    ps = psu.load()
    for cls, lvl in [(3, 7), (3, 4), (3, 0), (0, 4), (0, 0), (1, 0), (1, 7), (2, 0), (2, 7), (2, 4)]:
        for nice in (-20, -1, 0, 19):
            w = histories.World(ps)
            viols = []
            with w:
                w.apply(("spawn", 7, False))
                pr_ = w.t.procs[7]
                pr_.ioprio, pr_.nice, pr_.affinity = (cls, lvl), nice, [1, 3]
                w.apply(("new", 7))
                p = w.handles[0].obj
                try:
                    got = (tuple(p.ionice()), p.nice(), p.cpu_affinity())
                except Exception as e:  # noqa: BLE001
                    viols.append((f"get_exception:{type(e).__name__}:state_set_by_another_tool", repr(e)))
                else:
                    acc.count("foreign_states_read_back")
                    if got[0] != (cls, lvl):
                        viols.append(("ionice_get_wrong:state_set_by_another_tool", f"kernel says class {cls} level {lvl}, ionice() -> {got[0]}"))
                    if got[1] != nice or got[2] != [1, 3]:
                        viols.append(("get_wrong:state_set_by_another_tool", f"nice/affinity -> {got[1:]} want {(nice, [1, 3])}"))
            acc.case(dict(kind="sink_foreign_state", cls=cls, lvl=lvl, nice=nice), True, viols)


def run_refusals(acc):
    """The kernel may refuse a request psutil finds nothing wrong with (a cpuset, a per-CPU kernel thread, a limit above the
    hard limit): the refusal must come out as an exception - a call that returns normally claims the value was set."""
    from vlib import histories, psu
    ps = psu.load()
    for cal in ("3", "0,2", "1-2", "0-3", "15"):
        for cpus in ([0], [1, 2], [3], [0, 1, 2, 3]):
            w = histories.World(ps)
            viols = []
            with w:
                w.apply(("spawn", 7, False))
                w.apply(("new", 7))
                proc = w.t.procs[7]
                proc.cpus_allowed_list = cal
                proc.affinity_refused = True
                before = list(proc.affinity or [])
                p = w.handles[0].obj
                acc.count("kernel_refusals_checked")
                try:
                    p.cpu_affinity(list(cpus))
                    viols.append(("refused_request_reported_as_success:affinity",
                                  f"the kernel answered EINVAL to cpu_affinity({cpus}) (Cpus_allowed_list {cal!r}); psutil returned normally"))
                except (OSError, ValueError, ps.Error):
                    pass
                if list(proc.affinity or []) != before:
                    viols.append(("failed_request_changed_target", f"affinity {before} -> {proc.affinity}"))
            acc.case(dict(kind="sink_refused_affinity", cal=cal, cpus=cpus), True, viols)
    # live: kernel threads that may not be moved (PF_NO_SETAFFINITY)
    ps2 = setup()["ps"]
    tried = 0
    for name in sorted(os.listdir("/proc"), key=lambda x: (len(x), x)):
        if not name.isdigit() or tried >= 4:
            continue
        try:
            with open(f"/proc/{name}/stat", "rb") as f:
                fields = f.read().rsplit(b")", 1)[1].split()
        except OSError:
            continue
        if int(fields[1]) != 2 or not int(fields[6]) & 0x04000000:
            continue
        pid = int(name)
        try:
            before = sorted(os.sched_getaffinity(pid))
        except OSError:
            continue
        target = [c for c in range(os.cpu_count()) if c not in before][:1] or [before[0]]
        tried += 1
        viols = []
        acc.count("kernel_refusals_checked")
        acc.count("live_kernel_threads_tried")
        try:
            ps2.Process(pid).cpu_affinity(target)
            now = sorted(os.sched_getaffinity(pid))
            if now != target:
                viols.append(("refused_request_reported_as_success:affinity",
                              f"live kernel thread {pid}: cpu_affinity({target}) returned normally, the kernel still says {now}"))
            else:
                os.sched_setaffinity(pid, before)
        except (OSError, ps2.Error, ValueError):
            pass
        acc.case(dict(kind="live_refused_affinity", cpus=target), True, viols)


def plan(tier, seed):
    shards = [dict(kind="nice"), dict(kind="ionice"), dict(kind="rlimit"), dict(kind="sinks")]
    nparts = 4 if tier == "quick" else 12
    for i in range(nparts):
        shards.append(dict(kind="affinity", seed=seed, part=i, nrand=400 if tier == "quick" else 6000))
    # the same workload once on the sanitized build of the extension
    shards.append(dict(kind="nice", flavour="asan"))
    shards.append(dict(kind="ionice", flavour="asan"))
    shards.append(dict(kind="affinity", seed=seed, part=0, nrand=100, flavour="asan"))
    if tier == "thorough":
        shards.append(dict(kind="rlimit", flavour="asan"))
    for n in ((65, 1024) if tier == "quick" else (65, 128, 256, 1024, 4096, 65536)):
        shards.append(dict(kind="bigcpu", bigcpu=n, flavour="asan" if n in (1024, 256) else None))
    return shards


def shard_env(shard):
    """bigcpu shards run with an interposer that makes sched_getaffinity() refuse short buffers like a many-CPU kernel."""
    if shard.get("kind") == "cases" and shard.get("cases") and shard["cases"][0].get("kind") == "affinity_bigcpu":
        shard = dict(shard, bigcpu=shard["cases"][0]["possible"])
    if not shard.get("bigcpu"):
        return {}
    from vlib import livereuse, overlay
    so = livereuse.ensure_shared("bigcpu")
    if so is None:
        return {"BIGCPU_UNAVAILABLE": "1"}
    pre = so
    if (shard.get("flavour") or "").startswith("asan"):
        pre = overlay.ASAN_RT + ":" + so
    return {"LD_PRELOAD": pre, "BIGCPU_POSSIBLE": str(shard["bigcpu"])}


def run_bigcpu(acc, shard):
    """The getter's grow-and-retry loop is never taken on a 16-CPU machine: here the C library refuses buffers shorter than
    BIGCPU_POSSIBLE bits, as a kernel with that many possible CPUs does."""
    if os.environ.get("BIGCPU_UNAVAILABLE"):
        acc.count("bigcpu_skipped")
        return
    c = Ctx(acc)
    try:
        eligible = sorted(os.sched_getaffinity(c.sibling.pid))
        sets = [eligible, eligible[:1], eligible[-1:], eligible[::2], eligible[1:4]]
        for cpus in sets:
            case = dict(kind="affinity_bigcpu", possible=shard["bigcpu"], cpus=cpus)
            harness.mark_current(case)
            viols = []
            try:
                c.p.cpu_affinity(cpus)
                got = c.p.cpu_affinity()
                own = c.ps.Process().cpu_affinity()
            except Exception as e:  # noqa: BLE001
                viols.append((f"affinity_get_raised:{type(e).__name__}:many_possible_cpus",
                              f"kernel with {shard['bigcpu']} possible CPUs: cpu_affinity({cpus}) then get -> {e!r}"))
            else:
                k = sorted(os.sched_getaffinity(c.target.pid))
                acc.count("kernel_readbacks")
                acc.count("bigcpu_gets_checked")
                if got != sorted(set(cpus)) or k != sorted(set(cpus)) or own != sorted(os.sched_getaffinity(0)):
                    viols.append(("affinity_readback_wrong:many_possible_cpus", f"possible={shard['bigcpu']}: set {cpus} psutil {got} kernel {k}"))
            acc.case(case, True, viols)
    finally:
        c.close()


def on_worker_death(r):
    log = r["log"]
    if "AddressSanitizer" in log or "runtime error:" in log:
        key = next((ln for ln in log.splitlines() if "runtime error:" in ln or "ERROR: AddressSanitizer" in ln), "")
        return [("sanitizer_report_during_live_workload", f"input={r.get('cur')} :: {key[:300]}", r.get("cur"))]
    return None


def run_shard(shard):
    acc = harness.Acc(max_samples=3)
    setup()
    k = shard["kind"]
    if k == "nice":
        run_nice(acc, list(range(-20, 20)) + list(range(19, -21, -1)) + [0, 19, -20, 5, 5])
        acc.exhaustive = True
    elif k == "ionice":
        run_ionice(acc)
        acc.exhaustive = True
    elif k == "affinity":
        run_affinity(acc, shard)
    elif k == "rlimit":
        run_rlimit(acc, shard)
        run_rlimit_names(acc)
    elif k == "sinks":
        run_sinks(acc)
        run_stale_sinks(acc)
        run_get_foreign_states(acc)
        run_refusals(acc)
        acc.exhaustive = True
    elif k == "bigcpu":
        run_bigcpu(acc, shard)
    elif k == "cases":
        for case in shard["cases"]:
            kind = case.get("kind", "")
            if kind in ("sink_refused_affinity", "live_refused_affinity"):
                run_refusals(acc)
            elif kind == "sink_stale":
                run_stale_sinks(acc)
            elif kind == "sink_foreign_state":
                run_get_foreign_states(acc)
            elif kind.startswith("sink_"):
                run_sinks(acc)
            elif kind.startswith("nice"):
                run_nice(acc, [case["value"]])
            elif kind.startswith("ionice"):
                run_ionice(acc)
            elif kind == "affinity_bigcpu":
                run_bigcpu(acc, dict(bigcpu=case["possible"]))
            elif kind.startswith("affinity"):
                run_affinity(acc, dict(seed=0, part=0, nrand=20))
            elif kind == "rlimit_name":
                run_rlimit_names(acc)
            elif kind.startswith("rlimit"):
                run_rlimit(acc, {})
            elif kind.startswith("sink_"):
                run_sinks(acc)
    harness.mark_current(None)
    return acc.result()
