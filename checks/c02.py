"""C02 - Process ==, hash() and is_running() follow the process, not the PID.

Histories of spawn/exit/reap/reuse, kernel clock steps (published boot time changes) and interleaved
psutil calls; all pairs of objects are compared at quiescent points against incarnation ids.
"""
from vlib import harness

ID = "C02"
LEVEL = "exploration"
TECHNIQUE = "runtime monitor: incarnation-id reference model vs ==/hash()/is_running() over generated histories with clock steps; live kernel: real children, zombie, a really recycled pid"
RULE = ("live part: objects of every origin for real children (equal/hash/is_running while running and as a zombie, unequal across processes, False ever after the reap, unequal to the newcomer once vlib.livereuse made the kernel recycle the pid). one case = one history (spawn/exit/reap/reuse, clock_step(+-d) rewriting btime in /proc/stat, boot_time(), "
        "process_iter(), create_time(), is_running(), sys(<any other public system-wide psutil call: cpu_stats, cpu_times, "
        "virtual_memory, net_io_counters, disk_io_counters, users, sensors_*, cpu_count, cpu_freq ...>)) with Process objects created at arbitrary points; every pair of "
        "objects is compared (==, !=, hash) and is_running() of every object is checked at the end and wherever the "
        "history asks. all valid histories to depth D over a 14-op alphabet are enumerated, plus random histories over "
        "4 pids, plus - for every one of the system-wide calls - all histories to depth 4 over the 8-op alphabet {new, step+, "
        "step-, boot, sys(call), isrun, iter, clear} that hold both a clock step and the call. non-trivial = a clock step or a pid re-use lies between the creation of two compared objects, or "
        "is_running() is asked of an object whose process has exited; distinct by history hash")
ASSUMPTIONS = [
    "identity is (pid, process start); start ticks of two incarnations of one pid always differ (no same-tick reuse)",
    "a clock step is modelled as the kernel changing 'btime' in /proc/stat (what settimeofday/NTP steps do)",
    "clock steps are chosen so that no two different incarnations of a pid ever get the same epoch start time",
]
REQUIRED_COUNTERS = ["pairs_compared", "is_running_checked", "fresh_interpreter_histories", "system_wide_calls_interleaved"]
PID = 7

# "... not on boot_time() or any other psutil call made in between": the public system-wide calls a monitoring program makes
# next to its Process objects. Each is an op ("sys", name) of a history; none of them may move an identity answer.
SYS_CALLS = {
    "cpu_stats": lambda ps: ps.cpu_stats(),
    "cpu_times": lambda ps: ps.cpu_times(),
    "cpu_times_percpu": lambda ps: ps.cpu_times(percpu=True),
    "cpu_percent": lambda ps: ps.cpu_percent(interval=None),
    "cpu_percent_percpu": lambda ps: ps.cpu_percent(interval=None, percpu=True),
    "cpu_times_percent": lambda ps: ps.cpu_times_percent(interval=None),
    "cpu_count": lambda ps: ps.cpu_count(),
    "cpu_count_cores": lambda ps: ps.cpu_count(logical=False),
    "cpu_freq": lambda ps: ps.cpu_freq(percpu=True),
    "getloadavg": lambda ps: ps.getloadavg(),
    "virtual_memory": lambda ps: ps.virtual_memory(),
    "swap_memory": lambda ps: ps.swap_memory(),
    "disk_io_counters": lambda ps: ps.disk_io_counters(perdisk=True),
    "disk_usage": lambda ps: ps.disk_usage("/"),
    "net_io_counters": lambda ps: ps.net_io_counters(pernic=True),
    "net_if_stats": lambda ps: ps.net_if_stats(),
    "net_if_addrs": lambda ps: ps.net_if_addrs(),
    "net_connections": lambda ps: ps.net_connections(kind="inet"),
    "users": lambda ps: ps.users(),
    "sensors_temperatures": lambda ps: ps.sensors_temperatures(),
    "sensors_fans": lambda ps: ps.sensors_fans(),
    "sensors_battery": lambda ps: ps.sensors_battery(),
    "pids": lambda ps: ps.pids(),
    "pid_exists": lambda ps: ps.pid_exists(1),
    "wait_procs": lambda ps: ps.wait_procs([], timeout=0),
}
# (process_iter() is not in the table: it hands out objects, which the model has to see - that is the "iter" op)
SYS_NAMES = sorted(SYS_CALLS)
# what the simulated machine's /proc shows to those calls (next to stat, meminfo, net/* of vlib.histories.World)
SYS_ROOTFILES = {
    "net/dev": (b"Inter-|   Receive                                                |  Transmit\n"
                b" face |bytes    packets errs drop fifo frame compressed multicast|bytes    packets errs drop fifo colls carrier compressed\n"
                b"    lo: 1000 10 0 0 0 0 0 0 1000 10 0 0 0 0 0 0\n"
                b"  eth0: 5000 50 0 0 0 0 0 0 7000 70 0 0 0 0 0 0\n"),
    "cpuinfo": b"".join(b"processor\t: %d\ncpu MHz\t\t: 2400.000\nphysical id\t: 0\ncore id\t\t: %d\ncpu cores\t: 4\n\n" % (i, i)
                        for i in range(4)),
    "vmstat": b"nr_free_pages 2000000\npgpgin 1000\npgpgout 2000\npswpin 3\npswpout 4\n",
    "diskstats": (b" 254       0 vda 1000 10 80000 500 2000 20 160000 900 0 700 1400 0 0 0 0 0 0\n"
                  b" 254       1 vda1 900 9 70000 400 1900 19 150000 800 0 600 1200 0 0 0 0 0 0\n"),
    "uptime": b"12345.67 40000.00\n",
    "loadavg": b"0.10 0.20 0.30 1/100 4242\n",
}


def sys_op(w, op):
    """("sys", name): one of SYS_CALLS made by the program between its other steps (same book-keeping as World.apply)."""
    w.tick += 1
    ev0 = len(w.vk.events)
    br0 = len(w.vk.breaches)
    rec = dict(op=list(op), tick=w.tick)
    fn = SYS_CALLS[op[1]]
    rec["res"] = w._call(lambda: fn(w.ps))
    rec["events"] = [list(e) for e in w.vk.events[ev0:]]
    rec["breaches"] = [list(b) for b in w.vk.breaches[br0:]]
    w.records.append(rec)
    return rec


def sys_alphabet(name):
    return [("new", PID), ("step", 300), ("step", -300), ("boot",), ("sys", name), ("isrun", 0), ("iter", "keep"), ("clear",)]


def enum_sys_histories(depth):
    """For every system-wide call: all histories to `depth` over sys_alphabet(call) in which both a clock step and the call
    occur (the rest is part of enum_histories already), behind one live process and one object made for it."""
    prefix = [("spawn", PID, False), ("new", PID)]
    out = []
    for name in SYS_NAMES:
        alpha = sys_alphabet(name)

        def rec(hist, st, d):
            if any(o[0] == "step" for o in hist) and any(o[0] == "sys" for o in hist):
                out.append(prefix + hist + [("cmp",)])
            if d == 0:
                return
            for op in alpha:
                if valid(op, st):
                    rec(hist + [op], step(op, st), d - 1)
        rec([], dict(state="live", nh=1, steps=0), depth)
    return out


def alphabet():
    return [("exit", PID), ("reap", PID), ("vanish", PID), ("spawn", PID, False), ("spawn", PID, True),
            ("new", PID), ("isrun", 0), ("isrun", -1), ("boot",), ("step", 300), ("step", -300), ("iter",), ("iter", "keep"),
            ("q", 0, "create_time"), ("q", -1, "name"), ("clear",)]


def valid(op, st):
    k = op[0]
    s = st["state"]
    if k in ("exit", "vanish"):
        return s == "live"
    if k == "reap":
        return s == "zombie"
    if k == "spawn":
        return s == "free"
    if k == "new":
        return st["nh"] < 4
    if k == "step":
        return st["steps"] < 2
    return True


def step(op, st):
    st = dict(st)
    k = op[0]
    if k == "exit":
        st["state"] = "zombie"
    elif k in ("reap", "vanish"):
        st["state"] = "free"
    elif k == "spawn":
        st["state"] = "zombie" if op[2] else "live"
    elif k == "new":
        st["nh"] += 1
    elif k == "step":
        st["steps"] += 1
    return st


def enum_histories(depth):
    prefix = [("spawn", PID, False), ("new", PID)]
    st0 = dict(state="live", nh=1, steps=0)
    alpha = alphabet()
    out = []

    def rec(hist, st, d):
        if hist:
            out.append(prefix + hist + [("cmp",)])
        if d == 0:
            return
        for op in alpha:
            if valid(op, st):
                rec(hist + [op], step(op, st), d - 1)
    rec([], st0, depth)
    return out


def gen_random(rng):
    pids = [7, 8, 9, 10]
    state = {p: "free" for p in pids}
    hist = []
    nh = 0
    for _ in range(rng.randrange(5, 36)):
        r = rng.random()
        p = rng.choice(pids)
        if r < 0.18:
            if state[p] == "free":
                z = rng.random() < 0.2
                hist.append(("spawn", p, z))
                state[p] = "zombie" if z else "live"
        elif r < 0.27:
            if state[p] == "live":
                hist.append(("exit", p))
                state[p] = "zombie"
        elif r < 0.40:
            if state[p] == "zombie":
                hist.append(("reap", p))
                state[p] = "free"
            elif state[p] == "live":
                hist.append(("vanish", p))
                state[p] = "free"
        elif r < 0.55:
            hist.append(("new", p))
            if state[p] != "free":
                nh += 1
        elif r < 0.58:
            hist.append(("newp", p))      # psutil.Popen object for that pid (created even if the pid is already gone)
            nh += 1
        elif r < 0.66:
            hist.append(("step", rng.choice([1, -1, 7, -7, 300, -300, 86400, -86400, 3600 * 24 * 365])))
        elif r < 0.70:
            hist.append(("boot",))
        elif r < 0.72:
            # any other psutil call in between: cache maintenance and table queries
            hist.append(rng.choice([("clear",), ("clear",), ("pids",), ("pidex", p),
                                    ("visit", "boot"), ("visit", "proc"), ("visit", "pidex")]))
        elif r < 0.74:
            hist.append(("fault", rng.choice(["EMFILE", "ENFILE", "EIO", "ENOMEM"])))
        elif r < 0.75 and nh:
            # a signal request the kernel rejects (EINVAL) or a mere probe (signal 0): the process is untouched either way
            hist.append(("sig", rng.randrange(nh), "send_signal", rng.choice([65, 64 + 36, 1000, 0, 0])))
        elif r < 0.77:
            hist.append(("iter", "keep") if rng.random() < 0.6 else ("iter",))
            nh += sum(1 for q in pids if state[q] != "free")
        elif r >= 0.97:
            # any other psutil call in between: the system-wide numbers a monitor samples next to its processes
            hist.append(("sys", rng.choice(SYS_NAMES)))
        elif nh == 0:
            continue
        elif r < 0.88:
            hist.append(("isrun", rng.randrange(nh)))
        elif r < 0.92:
            hist.append(("q", rng.randrange(nh), rng.choice(["create_time", "name", "ppid", "status", "cpu_times"])))
        elif r < 0.94:
            # a oneshot() block opened on the object (and left open while the table moves on), or closed again: is_running()
            # asked inside the block is about the process, not about what the block remembers
            hist.append((rng.choice(["osenter", "osenter", "osexit"]), rng.randrange(nh)))
        else:
            hist.append(("cmp",))
    hist.append(("cmp",))
    return hist


_env = {}


def setup():
    if not _env:
        from vlib import histories, psu
        _env.update(ps=psu.load(), H=histories)
    return _env


FOREIGN_OPS = {"spawn", "exit", "reap", "vanish", "new", "isrun", "q", "iter", "step", "boot", "clear", "wait", "cmp", "visit", "pids", "sys", "osenter", "osexit"}


def foreign_variant(hist, rng):
    """The same history seen through the procfs of another system (PROCFS_PATH=/host/proc): only queries make sense there,
    and wait() - which asks our own kernel - answers at once without knowing anything about the process."""
    out = []
    nh = 0
    for op in hist:
        if op[0] not in FOREIGN_OPS or (op[0] == "q" and op[2] in ("nice",)):
            continue
        out.append(op)
        if op[0] == "new":
            nh += 1
        if nh and rng.random() < 0.25:
            out.append(("wait", rng.randrange(nh)))
    return out


def run_history(hist, acc, prime=True, foreign=False, blame=True):
    env = setup()
    H = env["H"]
    viols = []
    nontrivial = False
    w = H.World(env["ps"], prime=prime)
    w.t.rootfiles.update(SYS_ROOTFILES)
    w.tB.rootfiles.update(SYS_ROOTFILES)
    sys_names = sorted({o[1] for o in hist if o[0] == "sys"})
    if sys_names and any(o[0] == "step" for o in hist):
        acc.count("histories_with_a_clock_step_and_a_system_wide_call")
    if foreign:
        w.t.foreign = True
        acc.count("histories_on_a_foreign_procfs")
    step_ticks = []
    reuse_ticks = {}
    # for a share of the histories every call made after the first clock step comes from a thread of its own (a pool worker,
    # a watchdog started later): which thread asks is no part of the answer
    other_threads = harness.chash([list(o) for o in hist])[-1] in "012" and any(o[0] == "step" for o in hist)
    stepped_yet = [False]

    def do(op_):
        if op_[0] != "sys":
            return w.apply(op_)
        rec_ = sys_op(w, op_)
        acc.count("system_wide_calls_interleaved")
        if rec_["res"][0] != "ok":
            # whether that call works is not C02's business (and no reason to stop): noted, the history goes on
            acc.count("system_wide_calls_that_raised")
            acc.extra.setdefault("system_wide_calls_that_raised", {}).setdefault(op_[1], str(rec_["res"])[:200])
        return rec_

    def apply(op_):
        if op_[0] == "step":
            stepped_yet[0] = True
        if not (other_threads and stepped_yet[0]) or op_[0] in ("step", "spawn", "exit", "reap", "vanish", "epoch0", "thread", "fault", "osenter", "osexit"):
            # (a oneshot() block belongs to the thread that opened it - the per-object lock is held for the block: blocks are
            # opened and closed by the main thread, questions inside them may come from any thread)
            return do(op_)
        import threading
        box = {}

        def run():
            try:
                box["rec"] = do(op_)
            except BaseException as e:  # noqa: BLE001
                box["exc"] = e
        th = threading.Thread(target=run)
        th.start()
        th.join()
        if "exc" in box:
            raise box["exc"]
        acc.count("calls_made_from_a_fresh_thread_after_a_clock_step")
        return box["rec"]
    with w:
        for op in hist:
            op = tuple(op)
            if op[0] in ("isrun", "q", "sig", "wait", "osenter", "osexit"):
                hi = op[1]
                if hi == -1:
                    hi = len(w.handles) - 1
                if hi < 0 or hi >= len(w.handles):
                    continue
                op = (op[0], hi) + op[2:]
            if op[0] == "spawn" and op[1] in w.t.procs:
                continue
            if op[0] == "exit" and (op[1] not in w.t.procs or w.t.procs[op[1]].zombie):
                continue
            if op[0] == "reap" and (op[1] not in w.t.procs or not w.t.procs[op[1]].zombie):
                continue
            if op[0] == "vanish" and op[1] not in w.t.procs:
                continue
            if w.fault_armed and w.fault_armed[0] and op[0] not in ("new", "newp", "isrun", "q", "fault"):
                w.fault_armed[0] = False        # the transient failure only strikes constructions and queries of an object
            rec = apply(op)
            ctx = f"history={[list(o) for o in hist]} at op={list(op)}" + (" [calls after the step come from fresh threads]" if other_threads else "")
            faulted = w.fault_fired_tick == rec["tick"]
            if faulted:
                acc.count("transient_oserror_injected")
                # a transient failure of the caller itself (EMFILE, EIO...) may surface as the OSError it is; it must never
                # turn into an answer, nor leave anything behind
                if op[0] in ("new", "newp") and rec["res"][0] == "ok":
                    viols.append(("construction_swallowed_transient_oserror", ctx))
                if op[0] == "isrun" and rec["res"][0] == "ok" and rec["res"][1] != rec["model"]:
                    viols.append(("is_running_answered_wrong_under_transient_oserror", ctx + f" res={rec['res']}"))
                if op[0] in ("isrun", "q") and rec["res"][0].startswith("exc:OSError"):
                    continue
            if op[0] == "step":
                step_ticks.append(w.tick)
            if op[0] == "spawn":
                reuse_ticks.setdefault(op[1], []).append(w.tick)
            if op[0] == "osenter":
                acc.count("oneshot_blocks_opened_in_histories")
            if op[0] == "isrun" and op[1] in w.open_cms:
                acc.count("is_running_checked_inside_an_open_oneshot_block")
            if op[0] == "isrun":
                acc.count("is_running_checked")
                h = w.handles[op[1]]
                if not rec["model"]:
                    nontrivial = True
                if rec["res"] != ("ok", rec["model"]):
                    stepped = bool(step_ticks)
                    mech = f"is_running_{rec['res'][1] if rec['res'][0] == 'ok' else rec['res'][0]}_want_{rec['model']}"
                    if stepped:
                        mech += ":after_clock_step"
                    viols.append((mech, ctx + f" res={rec['res']} model={rec['model']}"))
            if op[0] == "q" and rec["res"][0].startswith("exc:"):
                viols.append((f"getter_exception:{rec['res'][0]}", ctx + f" res={rec['res']}"))
            if op[0] == "cmp":
                for (i, j, eq, ne, heq, *rest) in rec["pairs"]:
                    acc.count("pairs_compared")
                    if isinstance(eq, str):
                        viols.append(("compare_exception", ctx + f" pair=({i},{j}) {eq}"))
                        continue
                    want = rest[0]
                    a, b = w.handles[i], w.handles[j]
                    lo, hi = sorted((a.created_at, b.created_at))
                    stepped = any(lo < t < hi for t in step_ticks)
                    reused = a.pid == b.pid and a.inc != b.inc
                    if stepped or reused:
                        nontrivial = True
                    if eq != want or ne == eq:
                        mech = f"eq_{eq}_want_{want}"
                        if step_ticks:
                            mech += ":after_clock_step"
                        viols.append((mech, ctx + f" pair=({i},{j}) pids=({a.pid},{b.pid}) incs=({a.inc},{b.inc})"))
                    elif want and not heq:
                        viols.append(("equal_objects_hash_differently", ctx + f" pair=({i},{j})"))
                    elif not want and heq and reused:
                        # "hash alike exactly when": two starts under one PID that compare unequal yet share their hash
                        # value (both hashes come from (pid, start) tuples - a chance collision is not on the cards)
                        viols.append(("different_process_starts_hash_alike", ctx + f" pair=({i},{j}) pid={a.pid} incs=({a.inc},{b.inc})"))
        # final sweep: is_running of every object (any transient failure is over by now)
        if w.fault_armed:
            w.fault_armed[0] = False
        for i, h in enumerate(w.handles):
            rec = apply(("isrun", i))
            acc.count("is_running_checked")
            if not rec["model"]:
                nontrivial = True
            if rec["res"] != ("ok", rec["model"]):
                stepped = bool(step_ticks)
                mech = f"is_running_{rec['res'][1] if rec['res'][0] == 'ok' else rec['res'][0]}_want_{rec['model']}"
                if stepped:
                    mech += ":after_clock_step"
                viols.append((mech, f"history={[list(o) for o in hist]} final is_running(h{i}) res={rec['res']} model={rec['model']}"))
    case = dict(hist=[list(o) for o in hist])
    if viols and sys_names:
        # which of the interleaved system-wide calls does the wrong answer hang on? the same history is played again without
        # them (objects keep their numbers: a sys op makes none): silent without => the call in between moved the answer
        tag = ":history_with_system_wide_calls"
        if blame and prime:
            def silent_without(names):
                scratch = harness.Acc(max_samples=0)
                run_history([o for o in hist if not (o[0] == "sys" and o[1] in names)], scratch, foreign=foreign, blame=False)
                return not scratch.violations
            if silent_without(sys_names):
                alone = [n for n in sys_names if silent_without([n])]
                tag = f":only_with_{alone[0]}()_in_between" if len(alone) == 1 else ":only_with_system_wide_calls_in_between"
        viols = [(m + tag, d) for m, d in viols]
    if any(o[0] == "epoch0" for o in hist):
        viols = [(m + ":boot_time_zero", d) for m, d in viols]
    if foreign:
        case["foreign"] = True
        viols = [(m + ":foreign_procfs", d) for m, d in viols]
    acc.case(case, nontrivial, viols, sample=dict(case, records=[H.summarize(r) for r in w.records][:25]))


def fresh_histories():
    """Histories whose verdict may depend on what a *fresh* interpreter has (not) cached yet: no boot_time() call and no
    Process object before the first clock step, etc. Each one runs as the first thing in its own interpreter."""
    out = []
    pre = [("spawn", PID, False)]
    for mid in ([("new", PID), ("step", 3600), ("new", PID)],
                [("step", 3600), ("new", PID), ("boot",), ("new", PID)],
                [("new", PID), ("step", -300), ("boot",), ("new", PID), ("isrun", 0)],
                [("new", PID), ("step", 300), ("new", PID), ("step", 300), ("new", PID), ("boot",), ("new", PID)],
                [("iter", "keep"), ("step", 7), ("new", PID), ("iter", "keep")],
                [("new", PID), ("step", 86400), ("iter", "keep"), ("isrun", 0)],
                [("new", PID), ("q", 0, "create_time"), ("step", 1), ("new", PID), ("q", 1, "create_time")],
                [("new", PID), ("step", 3600), ("clear",), ("isrun", 0), ("new", PID)],
                [("new", PID), ("sig", 0, "send_signal", 65), ("isrun", 0), ("new", PID)],
                [("new", PID), ("fault", "EMFILE"), ("isrun", 0), ("isrun", 0), ("new", PID)],
                [("fault", "EMFILE"), ("new", PID), ("new", PID), ("isrun", 0)],
                [("new", PID), ("fault", "EIO"), ("new", PID), ("new", PID), ("isrun", -1)],
                [("iter", "keep"), ("fault", "ENFILE"), ("isrun", 0), ("iter", "keep"), ("isrun", 0)],
                [("new", PID), ("sig", 0, "send_signal", 1000), ("isrun", 0), ("sig", 0, "send_signal", 0), ("isrun", 0), ("new", PID)],
                [("iter", "keep"), ("sig", 0, "send_signal", 65), ("iter", "keep"), ("isrun", 0)],
                [("iter", "keep"), ("step", -86400), ("clear",), ("iter", "keep"), ("isrun", 0)],
                [("new", PID), ("step", 300), ("visit", "boot"), ("isrun", 0), ("new", PID)],
                [("new", PID), ("step", -3600), ("visit", "proc"), ("new", PID), ("isrun", 0)],
                [("visit", "boot"), ("new", PID), ("step", 86400), ("visit", "pidex"), ("visit", "boot"), ("new", PID), ("isrun", 0)],
                [("iter", "keep"), ("step", 7), ("visit", "proc"), ("iter", "keep"), ("isrun", 0)],
                [("step", 5), ("step", -5), ("new", PID), ("boot",), ("step", 9), ("boot",), ("new", PID)],
                # an open oneshot() block remembers the records it read; is_running() inside it is about the process
                [("new", PID), ("osenter", 0), ("isrun", 0), ("vanish", PID), ("isrun", 0), ("osexit", 0), ("isrun", 0)],
                [("new", PID), ("osenter", 0), ("q", 0, "cpu_times"), ("exit", PID), ("isrun", 0), ("reap", PID), ("isrun", 0)],
                [("new", PID), ("osenter", 0), ("q", 0, "name"), ("vanish", PID), ("spawn", PID, False), ("isrun", 0), ("new", PID), ("cmp",)]):
        out.append(pre + mid + [("cmp",)])
    # a machine whose clock starts at the epoch (no RTC) and is set later (NTP): the boot time first seen is 0
    for mid in ([("new", PID), ("step", 1_700_000_000), ("new", PID), ("isrun", 0)],
                [("new", PID), ("boot",), ("step", 1_700_000_000), ("boot",), ("new", PID), ("isrun", 0), ("isrun", 1)],
                [("iter", "keep"), ("step", 86400), ("iter", "keep"), ("new", PID), ("isrun", 0)]):
        out.append([("epoch0",)] + pre + mid + [("cmp",)])
    return out


def run_fresh(shard, acc):
    import json
    import os
    import subprocess
    import sys
    import tempfile
    hs = fresh_histories()
    rng = harness.rng_for(shard["seed"], "c02fresh")
    # a system-wide call as the very first psutil call of the program (nothing cached, no boot time seen yet), or as the
    # first one after the clock step; which calls: drawn per seed
    for n in rng.sample(SYS_NAMES, shard.get("nsys", 3)):
        hs.append([("sys", n), ("spawn", PID, False), ("new", PID), ("step", rng.choice([-3600, 300, 86400])), ("sys", n), ("new", PID), ("isrun", 0), ("cmp",)])
        hs.append([("spawn", PID, False), ("iter", "keep"), ("step", rng.choice([-300, 7, 3600])), ("sys", n), ("iter", "keep"), ("new", PID), ("isrun", 0), ("cmp",)])
    for _ in range(shard.get("nrand", 8)):
        hs.append(gen_random(rng))
    for h in hs:
        out = tempfile.mktemp(prefix="c02fresh_")
        sh = dict(kind="cases", cases=[dict(hist=[list(o) for o in h])], fresh=True)
        p = subprocess.run([sys.executable, "-B", "-m", "vlib.worker", "checks.c02", json.dumps(sh), out],
                           stdout=subprocess.PIPE, stderr=subprocess.STDOUT, text=True, timeout=120)
        acc.count("fresh_interpreter_histories")
        if not os.path.exists(out):
            acc.inconclusive = f"fresh-interpreter run died: {p.stdout[-400:]}"
            continue
        with open(out) as f:
            res = json.load(f)
        os.unlink(out)
        for k, v in res.get("counters", {}).items():
            acc.count(k, v)
        viols = [(v["mech"] + ":fresh_interpreter", v["detail"]) for v in res.get("violations", [])]
        acc.case(dict(hist=[list(o) for o in h], fresh=True), bool(res.get("nontrivial")), viols)


# ---- live kernel: real processes, a really recycled pid ----------------------------------------------------

def run_live(shard, acc):
    """Objects of every origin (Process(pid), psutil.Popen, process_iter entry) for real children: same process =>
    equal + same hash + is_running() True (also as a zombie); different processes => unequal; after death and after the
    kernel really handed the pid to a new process (vlib.livereuse): unequal to the newcomer, is_running() False on every
    later call, whatever is asked in between."""
    import os
    import subprocess
    import sys
    import time
    from vlib import livereuse
    ps = setup()["ps"]
    ps.PROCFS_PATH = "/proc"
    env = {k: v for k, v in os.environ.items() if k != "LD_PRELOAD"}
    argv = [sys.executable, "-S", "-c", "import time\nwhile True: time.sleep(1000)"]
    viols = []

    def pairs(tag, objs, same):
        for i, a in enumerate(objs):
            for b in objs[i + 1:]:
                acc.count("pairs_compared")
                acc.count("live_pairs_compared")
                eq, ne = (a == b), (a != b)
                if eq != same or ne == same:
                    viols.append((f"live:eq_{eq}_want_{same}", f"{tag}: {a!r} vs {b!r}"))
                if same and hash(a) != hash(b):
                    viols.append(("live:hash_differs_for_equal_objects", f"{tag}: {a!r} vs {b!r}"))
                if not same and not eq and hash(a) == hash(b):
                    viols.append(("live:different_processes_hash_alike", f"{tag}: {a!r} vs {b!r}"))

    for round_ in range(shard.get("rounds", 1)):
        # pids come round every few seconds on a busy machine: an entry cached for an earlier owner of the pid would be
        # handed out as it is (that is C04's statement) - start every round with an empty cache
        ps.process_iter.cache_clear()
        kid = ps.Popen(argv, env=env)
        other = subprocess.Popen(argv, env=env)
        try:
            a = [ps.Process(kid.pid), ps.Process(kid.pid), kid, [p for p in ps.process_iter() if p.pid == kid.pid][0]]
            b = [ps.Process(other.pid), [p for p in ps.process_iter() if p.pid == other.pid][0]]
            pairs("same live child", a, True)
            pairs("same live child", b, True)
            for x in a:
                for y in b:
                    acc.count("pairs_compared")
                    if x == y or not (x != y):
                        viols.append(("live:eq_True_want_False", f"different processes: {x!r} vs {y!r}"))
            for x in a + b:
                acc.count("is_running_checked")
                if x.is_running() is not True:
                    viols.append(("live:is_running_False_want_True", f"live child: {x!r}"))
            # zombie: still the same process
            os.kill(kid.pid, 9)
            time.sleep(0.2)
            z = ps.Process(kid.pid)
            if z.status() == ps.STATUS_ZOMBIE:
                acc.count("live_zombie_states_checked")
                pairs("zombie vs objects made while it ran", a + [z], True)
                for x in a + [z]:
                    acc.count("is_running_checked")
                    if x.is_running() is not True:
                        viols.append(("live:is_running_False_want_True:zombie", f"{x!r}"))
            kid.wait()
            for n in range(3):
                for x in a:
                    acc.count("is_running_checked")
                    if x.is_running() is not False:
                        viols.append(("live:is_running_True_want_False", f"reaped child, call #{n}: {x!r}"))
            pid = kid.pid
            with livereuse.Recycled(pid) as rec:
                if not rec.ok:
                    acc.count("live_reuse_skipped")
                    acc.extra.setdefault("live_reuse_skipped", []).append(rec.why)
                else:
                    acc.count("live_pid_recyclings")
                    # (the process_iter() entry of that pid is still the old owner's object until is_running() finds it
                    # recycled - that is C04's business; here the newcomer is represented by objects made now)
                    fresh = [ps.Process(pid), ps.Process(pid)]
                    pairs("newcomer", fresh, True)
                    for n in range(3):
                        for x in a:
                            for y in fresh:
                                acc.count("pairs_compared")
                                if x == y or not (x != y):
                                    viols.append(("live:eq_True_want_False", f"old owner's object vs the newcomer of pid {pid}: {x!r} vs {y!r}"))
                            acc.count("is_running_checked")
                            if x.is_running() is not False:
                                viols.append(("live:is_running_True_want_False", f"pid {pid} recycled, call #{n}: {x!r}"))
                        for y in fresh:
                            acc.count("is_running_checked")
                            if y.is_running() is not True:
                                viols.append(("live:is_running_False_want_True", f"newcomer of pid {pid}, call #{n}: {y!r}"))
                        # "whatever is asked in between"
                        ps.boot_time(), ps.pids(), list(ps.process_iter()), ps.pid_exists(pid)
                        if n == 1:
                            ps.process_iter.cache_clear()
                    later = [p for p in ps.process_iter() if p.pid == pid]
                    if later:
                        pairs("newcomer vs its process_iter entry after the reuse was noticed", fresh + later, True)
        finally:
            for c in (kid, other):
                try:
                    c.kill()
                except Exception:  # noqa: BLE001
                    pass
                c.wait()
    acc.case(dict(kind="live"), True, viols)


def plan(tier, seed):
    depth = 5 if tier == "quick" else 6
    nrand = 36000 if tier == "quick" else 500000
    nparts = 16 if tier == "quick" else 48
    shards = [dict(kind="fresh", seed=seed, nrand=8 if tier == "quick" else 200, nsys=3 if tier == "quick" else len(SYS_NAMES)),
              dict(kind="live", rounds=1 if tier == "quick" else 4, timeout=1500)]
    for i in range(nparts):
        shards.append(dict(kind="enum", depth=depth, part=i, parts=nparts))
    for s, c in harness.split_range(nrand, nparts):
        shards.append(dict(kind="rand", seed=seed, start=s, count=c))
    nsys = 8 if tier == "quick" else 24
    for i in range(nsys):
        shards.append(dict(kind="sysenum", depth=4 if tier == "quick" else 5, part=i, parts=nsys))
    return shards


def run_shard(shard):
    acc = harness.Acc(max_samples=2)
    setup()
    k = shard["kind"]
    if k == "live":
        run_live(shard, acc)
    elif k == "enum":
        if shard["part"] == 0:
            # longer hand-written patterns: a fresh object for the new owner of a pid is cached by process_iter(), a stale
            # handle of the old owner reports the reuse, the iterator refreshes its entry - the fresh object must stay valid
            for z in (False, True):
                for tail in ([("iter",)], [("iter", "keep")], [("iter",), ("iter",)], [("boot",), ("iter",)]):
                    run_history([("spawn", PID, False), ("new", PID), ("vanish", PID), ("spawn", PID, z), ("iter", "keep"),
                                 ("isrun", 0)] + tail + [("isrun", 1), ("cmp",)], acc)
                    run_history([("spawn", PID, False), ("iter", "keep"), ("exit", PID), ("reap", PID), ("spawn", PID, z),
                                 ("iter", "keep"), ("isrun", 0)] + tail + [("isrun", 1), ("new", PID), ("cmp",)], acc)
        hs = enum_histories(shard["depth"])
        acc.extra["enumerated_histories_depth"] = shard["depth"]
        acc.extra["enumerated_histories_total"] = len(hs)
        for i, h in enumerate(hs):
            if i % shard["parts"] == shard["part"]:
                run_history(h, acc)
        acc.exhaustive = True
    elif k == "sysenum":
        hs = enum_sys_histories(shard["depth"])
        acc.extra["system_wide_calls"] = SYS_NAMES
        acc.extra["enumerated_system_wide_call_histories_depth"] = shard["depth"]
        acc.extra["enumerated_system_wide_call_histories_total"] = len(hs)
        for i, h in enumerate(hs):
            if i % shard["parts"] == shard["part"]:
                run_history(h, acc)
    elif k == "rand":
        for i in range(shard["start"], shard["start"] + shard["count"]):
            h_ = gen_random(harness.rng_for(shard["seed"], "c02", i))
            run_history(h_, acc)
            if i % 8 == 0:
                run_history(foreign_variant(h_, harness.rng_for(shard["seed"], "c02f", i)), acc, foreign=True)
    elif k == "fresh":
        run_fresh(shard, acc)
    elif k == "cases":
        first = True
        for case in shard["cases"]:
            fresh = bool(shard.get("fresh") or case.get("fresh")) and first
            run_history([tuple(o) for o in case["hist"]], acc, prime=not fresh, foreign=bool(case.get("foreign")))
            first = False
    return acc.result()
