"""C17 - the C extension is memory-safe and decodes OS records faithfully.

Everything here runs on the ASan+UBSan build of the extension (overlay flavour "asan", sanitizer
runtime LD_PRELOADed, reports abort the worker).  Workloads: argument fuzz of every native entry point
and of the public wrappers reaching them; crafted utmp files through utmpname(); crafted mounts files;
interface tables in a private network namespace compared with `ip -j addr`; (thorough) the fast part
of the upstream test-suite.  Differential decoders written from the ABI catch what red zones cannot
(intra-object over-reads).  One more shard runs a reduced version of the same workloads on the *uninstrumented*
build under valgrind memcheck (inside a private netns holding a veth pair and a tun link): reads of
uninitialised memory - conditional jumps, syscall parameters - are invisible to ASan.
"""
import ctypes
import json
import os
import re
import shutil
import socket
import struct
import subprocess
import sys
import tempfile

from vlib import harness

ID = "C17"
LEVEL = "exploration"
FLAVOUR = "asan"
FLAVOURS = ["asan", "plain"]
ENGINE = "sanbuild"
TECHNIQUE = ("AddressSanitizer+UBSan build of the C extension under hostile inputs (abort on report) + differential decoders of "
             "utmp/mntent/interface records + valgrind memcheck of the plain build (uninitialised reads)")
RULE = ("cases: (a) every native entry point of _psutil_linux/_psutil_posix and the public wrappers x argument tuples from a "
        "hostile pool (ints 0,+-1,2^15,2^31+-1,2^32,2^63+-1,2^64,10^30; str/bytes of length 0..10^5 incl. NUL and non-UTF-8; wrong "
        "types; sequences of arbitrary ints; huge sequences); (b) generated utmp files (every ut_type, every string field "
        "empty/short/full-width-unterminated, high-bit bytes, :0/:0.0 hosts, 0-200 records, truncated tail) decoded by users() vs "
        "a struct-level decoder; (c) generated mounts files (escapes, long lines, 0-2000 entries, missing fields, non-UTF-8) through "
        "cext.disk_partitions and disk_partitions(all) vs a getmntent(3) reference; (d) veth interface tables in a private netns "
        "vs `ip -j addr` (spelled-out link-locals on 15-char names, tun point-to-point links), every question repeated with psutil's debug messages on and descriptor 2 closed / on /dev/full (same answers required); (e) a reduced (a)-(c) under valgrind "
        "memcheck, error blocks with a frame in the extension attributed to the input announced last. non-trivial = input with a full-width unterminated field, an escape, a >=15-byte interface name, an "
        "out-of-int-range integer, a wrong-typed argument; distinct by case hash. A sanitizer report or signal death is a violation.")
ASSUMPTIONS = [
    "CPython itself is not instrumented; ASan's allocator interposition still covers heap objects handed to the extension and the extension's own stack/global accesses",
    "a clean sanitizer run is not memory safety: intra-object over-reads are covered only by the differential decoders",
    "struct utmp layout of x86-64 glibc (384 bytes: type,pid,line[32],id[4],user[32],host[256],exit,session,tv,addr_v6,unused)",
    "mount lines longer than 4000 bytes: only memory safety is asserted (libc buffer policy is version specific)",
    "non-UTF-8 bytes in mount type/options may raise UnicodeDecodeError (a Python exception is an allowed outcome)",
    "interface sub-workload needs `unshare -n` + veth; when unavailable it is recorded as skipped and only live interfaces are compared",
    "memcheck: only error blocks with a frame inside the psutil extension count (CPython runs with PYTHONMALLOC=malloc; blocks "
    "elsewhere are counted as memcheck_error_blocks_outside_extension, 0 on this image); valgrind absent => recorded as skipped",
]
REQUIRED_COUNTERS = ["native_calls", "utmp_records_compared", "mount_entries_compared"]
SHARD_TIMEOUT = 1500

UT_SIZE = 384
USER_PROCESS = 7

INTS = [0, 1, -1, 2, 7, 2**15, 2**18, 2**31 - 1, 2**31, -2**31, -2**31 - 1, 2**32, 2**32 + 5, 2**63 - 1, 2**63, -2**63 - 1, 2**64, 10**30]
STRS = ["", "lo", "eth0", "a" * 15, "a" * 16, "a" * 17, "x" * 255, "x" * 4096, "y" * 100000, "lo\0x", "\udcff\udcfe", "\xe9" * 20,
        "/proc/self/mounts", "/nonexistent/file", "/", "%s%s%n"]
BYTES = [b"", b"lo", b"\xff" * 20, b"a" * 100000]
OTHERS = [None, 1.5, float("nan"), True, [], [0], [0, 1, 2], [2**70], [-1], [2**31], ["a"], [None], (), (0, 1), {}, {0}, object, 3 + 4j]


def _b(s):
    return s.encode("latin-1")


def _s(b):
    return b.decode("latin-1")


_env = {}


def setup():
    if not _env:
        import psutil
        from psutil import _psutil_linux as cext
        from psutil import _psutil_posix as cposix
        ov = os.environ.get("VERIF_OVERLAY", "")
        assert psutil.__file__.startswith(ov), psutil.__file__
        assert ("asan" in cext.__file__) == ("asan" in ov), (cext.__file__, ov)
        _env.update(ps=psutil, cext=cext, cposix=cposix, libc=ctypes.CDLL(None, use_errno=True))
        child = subprocess.Popen([sys.executable, "-c", "import time; time.sleep(3000)"],
                                 env={k: v for k, v in os.environ.items() if k != "LD_PRELOAD"})
        _env["child"] = child
        import atexit
        atexit.register(lambda: (child.kill(), child.wait()))
    return _env


# ---------------------------------------------------------------------------------------------
# (a) argument fuzz
# ---------------------------------------------------------------------------------------------

NATIVE = {
    "linux": ["proc_ioprio_get", "proc_ioprio_set", "proc_cpu_affinity_get", "proc_cpu_affinity_set", "disk_partitions", "users",
              "net_if_duplex_speed", "linux_sysinfo", "check_pid_range", "set_debug"],
    "posix": ["getpagesize", "getpriority", "net_if_addrs", "net_if_flags", "net_if_is_running", "net_if_mtu", "setpriority"],
}
SETTERS = {"proc_ioprio_set", "proc_cpu_affinity_set", "setpriority"}
WRAPPERS = ["Process", "pid_exists", "ionice", "cpu_affinity", "nice", "rlimit", "disk_usage", "net_connections", "Process_getters"]


def arg_pool(rng, setter, child):
    pool = []
    for i in INTS:
        if setter and i in (0, 1):
            i = child
        pool.append(i)
    pool.append(child)
    pool.append(os.getpid() if not setter else child)
    pool += STRS + BYTES + OTHERS
    pool.append(list(range(100000)))
    pool.append([0] * 100000)
    pool.append([2**31] * 10)
    pool.append([child] * 3)
    pool.append(list(range(1025)))
    pool.append([1023, 1024, 4095, 65535, 10**6])
    return pool


def jsonable_arg(a):
    if isinstance(a, (int, float, str, bool)) or a is None:
        if isinstance(a, float) and a != a:
            return {"__": "nan"}
        return a
    if isinstance(a, bytes):
        return {"__": "bytes", "v": _s(a[:200]), "n": len(a)}
    if isinstance(a, (list, tuple, set)):
        if len(a) > 20:
            return {"__": type(a).__name__, "n": len(a), "head": [jsonable_arg(x) for x in list(a)[:3]]}
        return {"__": type(a).__name__, "v": [jsonable_arg(x) for x in a]}
    return {"__": "repr", "v": repr(a)[:60]}


def fd_table():
    """{fd: what it is open on} of this process (the descriptor of the listing itself left out)."""
    out = {}
    for n in os.listdir("/proc/self/fd"):
        try:
            out[int(n)] = os.readlink("/proc/self/fd/" + n)
        except OSError:
            pass            # the listing's own descriptor
    return out


def run_native_fuzz(shard, acc):
    env = setup()
    mod = env["cext"] if shard["mod"] == "linux" else env["cposix"]
    fname = shard["fn"]
    if fname == "*rest*":
        # any entry point this build exposes beyond the listed ones (keeps the fuzz complete if one is added)
        rest = [n for n in dir(mod) if callable(getattr(mod, n)) and not n.startswith("_") and n not in NATIVE[shard["mod"]]]
        acc.extra.setdefault("unlisted_entry_points", {})[shard["mod"]] = rest
        for n in rest:
            run_native_fuzz(dict(shard, fn=n), acc)
        acc.count("native_calls", 0)
        return
    fn = getattr(mod, fname)
    child = env["child"].pid
    rng = harness.rng_for(shard["seed"], "c17a", shard["mod"], fname)
    pool = arg_pool(rng, fname in SETTERS, child)
    combos = [()]
    combos += [(a,) for a in pool]
    n2 = shard.get("n2", 600)
    for _ in range(n2):
        combos.append((rng.choice(pool), rng.choice(pool)))
    for _ in range(shard.get("n3", 600)):
        combos.append((rng.choice(pool), rng.choice(pool), rng.choice(pool)))
    # well-typed-but-hostile shapes per function
    ints = [x for x in pool if isinstance(x, int) and not isinstance(x, bool)]
    if fname in ("proc_ioprio_set", "setpriority"):
        for a in ints:
            for b in ints:
                combos.append((child, a, b) if fname == "proc_ioprio_set" else (child, a))
    if fname == "proc_cpu_affinity_set":
        for seq in [x for x in pool if isinstance(x, (list, tuple))]:
            combos.append((child, seq))
        for a in ints:
            combos.append((child, [a]))
            combos.append((child, [0, a]))
        for k in (2**8, 2**16, 2**31, 2**32, 2**33, 2**48, 2**62, -2**32, -2**40):
            for c_ in (0, 1, 15):
                combos.append((child, [k + c_]))
    if fname in ("net_if_flags", "net_if_mtu", "net_if_is_running", "net_if_duplex_speed", "disk_partitions"):
        for s in STRS + BYTES:
            combos.append((s,))
        if fname != "disk_partitions":
            for _i, ifname in socket.if_nameindex():
                combos.insert(1, (ifname,))
    if fname == "set_debug":
        combos = [c for c in combos if not (len(c) >= 1 and c[0])] + [(0,)]
    if shard.get("light") and len(combos) > 260:
        # under valgrind: a sample of the hostile shapes
        head = combos[:1 + len(pool)]
        rest = combos[1 + len(pool):]
        combos = head + rng.sample(rest, 150)
    fds = fd_table()
    for args in combos:
        case = dict(kind="native", mod=shard["mod"], fn=fname, args=[jsonable_arg(a) for a in args])
        harness.mark_current(case)
        acc.count("native_calls")
        try:
            fn(*args)
            out = "value"
        except BaseException as e:  # noqa: BLE001
            out = type(e).__name__
            if isinstance(e, (SystemExit, KeyboardInterrupt, MemoryError)):
                acc.viol(f"native_{out}:{fname}", f"{fname}{case['args']!r} raised {e!r}", case)
        # descriptor accounting: whatever the outcome, the call neither keeps a descriptor nor closes one it does not own
        fds1 = fd_table()
        acc.count("descriptor_tables_compared")
        if fds1 != fds:
            lost = {k: v for k, v in fds.items() if fds1.get(k) != v}
            new = {k: v for k, v in fds1.items() if fds.get(k) != v}
            acc.viol(f"descriptor_table_changed:{fname}:{'closed_foreign' if lost else 'left_open'}",
                     f"{fname}{case['args']!r} -> {out}; descriptors that were open before and are not (the same) any more: "
                     f"{lost}; new ones: {new}", case)
            fds = fds1
        if out == "value" and fname == "proc_cpu_affinity_set" and len(args) == 2 and args[0] == child:
            # integer truncation monitor: a value that is not a CPU number must never select a CPU
            try:
                asked = {x for x in args[1] if isinstance(x, int) and not isinstance(x, bool) and 0 <= x < 4096}
                got = set(os.sched_getaffinity(child))
                acc.count("affinity_truncation_checks")
                if not got <= asked:
                    acc.viol("affinity_set_selected_cpu_not_asked_for:integer_truncation",
                             f"proc_cpu_affinity_set(child, {case['args'][1]!r}) succeeded and the kernel mask is {sorted(got)}", case)
                os.sched_setaffinity(child, range(1024))
            except (TypeError, OSError):
                pass
        acc.count("outcome_" + out)
        nontriv = any((isinstance(a, int) and abs(a) >= 2**31) or not isinstance(a, (int, str)) for a in args)
        acc.case(case, nontriv, ())
    harness.mark_current(None)


def run_wrapper_fuzz(shard, acc):
    env = setup()
    ps = env["ps"]
    child = env["child"].pid
    rng = harness.rng_for(shard["seed"], "c17w", shard["fn"])
    pool = arg_pool(rng, True, child)
    name = shard["fn"]
    p = ps.Process(child)
    calls = []
    if name == "Process":
        calls = [(lambda a=a: ps.Process(a), [a]) for a in arg_pool(rng, False, child)]
    elif name == "pid_exists":
        calls = [(lambda a=a: ps.pid_exists(a), [a]) for a in arg_pool(rng, False, child)]
    elif name == "ionice":
        for a in pool:
            for b in (0, 1, 7, 8, -1, 2**31, None, "x", rng.choice(pool)):
                calls.append((lambda a=a, b=b: p.ionice(a, b), [a, b]))
    elif name == "cpu_affinity":
        calls = [(lambda a=a: p.cpu_affinity(a), [a]) for a in pool]
        calls += [(lambda a=a: p.cpu_affinity([a]), [[a]]) for a in pool if not isinstance(a, (list, dict, set))]
    elif name == "nice":
        calls = [(lambda a=a: p.nice(a), [a]) for a in pool]
    elif name == "rlimit":
        for a in pool[:40]:
            for b in (None, (1, 2), (2**64, 2**64), (-1, -1), (1,), "ab", 5, (2**63, 2**70), rng.choice(pool)):
                calls.append((lambda a=a, b=b: p.rlimit(a, b), [a, b]))
    elif name == "disk_usage":
        calls = [(lambda a=a: ps.disk_usage(a), [a]) for a in STRS + BYTES + OTHERS[:6]]
    elif name == "net_connections":
        calls = [(lambda a=a: ps.net_connections(a), [a]) for a in STRS[:8] + OTHERS[:8] + ["inet", "all", "unix"]]
    elif name == "Process_getters":
        q = ps.Process()
        for m in ("cpu_affinity", "ionice", "nice", "num_fds", "threads", "open_files", "net_connections", "memory_maps", "environ"):
            calls.append((getattr(q, m), [m]))
        for f in (ps.users, ps.disk_partitions, lambda: ps.disk_partitions(all=True), ps.net_if_addrs, ps.net_if_stats, ps.swap_memory):
            calls.append((f, [getattr(f, "__name__", "lambda")]))
    fds = fd_table()
    for fn, args in calls:
        case = dict(kind="wrapper", fn=name, args=[jsonable_arg(a) for a in args])
        harness.mark_current(case)
        acc.count("native_calls")
        try:
            v = fn()
            if hasattr(v, "__next__"):
                list(v)
            del v
            out = "value"
        except BaseException as e:  # noqa: BLE001
            out = type(e).__name__
            if isinstance(e, (SystemExit, KeyboardInterrupt, MemoryError)):
                acc.viol(f"wrapper_{out}:{name}", f"{name}{case['args']!r} raised {e!r}", case)
            del e
        fds1 = fd_table()
        acc.count("descriptor_tables_compared")
        if fds1 != fds:
            lost = {k: v for k, v in fds.items() if fds1.get(k) != v}
            new = {k: v for k, v in fds1.items() if fds.get(k) != v}
            acc.viol(f"descriptor_table_changed:{name}:{'closed_foreign' if lost else 'left_open'}",
                     f"{name}{case['args']!r} -> {out}; descriptors that were open before and are not (the same) any more: "
                     f"{lost}; new ones: {new}", case)
            fds = fds1
        acc.count("outcome_" + out)
        acc.case(case, True, ())
    harness.mark_current(None)


# ---------------------------------------------------------------------------------------------
# (b) utmp
# ---------------------------------------------------------------------------------------------

def pack_utmp(rec):
    def field(b, n):
        b = b[:n]
        return b + b"\0" * (n - len(b))
    return struct.pack("<hxxi32s4s32s256shhiii4i20s", rec["type"], rec["pid"], field(_b(rec["line"]), 32), field(_b(rec["id"]), 4),
                       field(_b(rec["user"]), 32), field(_b(rec["host"]), 256), 0, 0, rec["session"], rec["sec"], rec["usec"],
                       0, 0, 0, 0, b"\0" * 20)


def cstr(b, n):
    b = b[:n]
    i = b.find(b"\0")
    return b if i < 0 else b[:i]


def gen_field(rng, width):
    r = rng.random()
    if r < 0.15:
        return b""
    if r < 0.45:
        n = rng.randrange(1, min(width, 12))
    elif r < 0.75:
        n = width           # full width, no terminator
    else:
        n = rng.randrange(1, width + 1)
    alpha = b"abcxyz019/:.-_ " + bytes([0xff, 0xc3, 0xa9, 0x80])
    return bytes(rng.choice(alpha) for _ in range(n))


def gen_utmp_case(rng):
    recs = []
    for _ in range(rng.choice([0, 1, 1, 2, 5, 20, 200])):
        host = rng.choice([b":0", b":0.0", b":0.1", b":00", b"", None, None, None])
        if host is None:
            host = gen_field(rng, 256)
        recs.append(dict(type=rng.choice([USER_PROCESS] * 6 + [0, 1, 2, 5, 6, 8, 9, 32767, -1]),
                         pid=rng.choice([0, 1, 4242, 2**31 - 1, -1, -2**31]),
                         line=_s(gen_field(rng, 32)), id=_s(gen_field(rng, 4)), user=_s(gen_field(rng, 32)), host=_s(host),
                         session=rng.choice([0, 1, -1]), sec=rng.choice([0, 1, 1700000000, 2**31 - 1, -1, -2**31]),
                         usec=rng.choice([0, 999999, -1])))
    return dict(kind="utmp", recs=recs, trunc=rng.choice([0, 0, 0, 1, 100, 383]))


def expected_users(case):
    out = []
    for r in case["recs"]:
        if r["type"] != USER_PROCESS:
            continue
        user = os.fsdecode(cstr(_b(r["user"]), 32))
        line = os.fsdecode(cstr(_b(r["line"]), 32))
        hostb = cstr(_b(r["host"]), 256)
        host = "localhost" if hostb in (b":0", b":0.0") else os.fsdecode(hostb)
        out.append((user, line or None, host, float(r["sec"]), r["pid"]))
    return out


def run_utmp_case(case, acc, tmpdir):
    env = setup()
    ps, libc = env["ps"], env["libc"]
    path = os.path.join(tmpdir, "utmp")
    data = b"".join(pack_utmp(r) for r in case["recs"])
    if case["trunc"]:
        data += b"\x07" * case["trunc"]       # a truncated trailing record
    # the login-records file is *replaced* between cases the way logrotate / an atomic writer does it (new inode under the
    # same name, or removed and re-created); the path is announced to the C library only once per process - utmpname()
    # itself closes the stream, which would hide a stream kept open across calls
    tmpf = path + ".new"
    with open(tmpf, "wb") as f:
        f.write(data)
    style = len(case["recs"]) % 3
    if style == 0 and os.path.exists(path):
        os.unlink(path)
    if style == 2 and os.path.exists(path):
        with open(path, "wb") as f:             # rewritten in place
            f.write(data)
        os.unlink(tmpf)
    else:
        os.replace(tmpf, path)
    harness.mark_current(case)
    if env.get("utmp_installed") != path:
        libc.utmpname(path.encode())
        env["utmp_installed"] = path
    viols = []
    fds0 = len(os.listdir("/proc/self/fd"))
    try:
        got = [tuple(u) for u in ps.users()]
    except BaseException as e:  # noqa: BLE001
        got = None
        viols.append((f"users_exception:{type(e).__name__}", f"{e!r} case={str(case)[:300]}"))
    want = expected_users(case)
    if got is not None:
        acc.count("utmp_records_compared", len(want))
        if len(got) != len(want):
            viols.append(("users_wrong_count", f"got {len(got)} want {len(want)}"))
        else:
            for g, w_, r in zip(got, want, [r for r in case["recs"] if r["type"] == USER_PROCESS]):
                if g != w_:
                    full = [k for k, n in (("user", 32), ("line", 32), ("host", 256)) if len(cstr(_b(r[k]), n)) == n]
                    which = [n for n, a, b in zip(("user", "terminal", "host", "started", "pid"), g, w_) if a != b]
                    mech = "users_field_wrong:" + "+".join(which)
                    if full:
                        mech += ":full_width_unterminated_field"
                    viols.append((mech, f"got {g!r} want {w_!r}"))
                    break
    nontriv = any(len(cstr(_b(r[k]), n)) == n for r in case["recs"] for k, n in (("user", 32), ("line", 32), ("host", 256)))
    fds1 = len(os.listdir("/proc/self/fd"))
    acc.count("descriptor_counts_compared")
    if fds1 > fds0:
        viols.append(("descriptor_left_open:users", f"{fds1 - fds0} more open descriptor(s) after users() than before"))
    acc.case(case, nontriv, viols)
    harness.mark_current(None)


# ---------------------------------------------------------------------------------------------
# (c) mounts
# ---------------------------------------------------------------------------------------------

ESC = {b" ": b"\\040", b"\t": b"\\011", b"\n": b"\\012", b"\\": b"\\134"}


def enc_mnt(b):
    return b"".join(ESC.get(bytes([c]), bytes([c])) for c in b)


def gen_mnt_name(rng, kind):
    r = rng.random()
    if kind == "dev":
        base = rng.choice([b"/dev/sda1", b"none", b"/dev/root", b"rootfs", b"tmpfs", b"/dev/mapper/vg-lv", b"//host/share name", b"server:/export",
                           b"/dev/disk/by-label/My\\Disk", b"", b"/dev/\xff\xfe",
                           # names holding what *looks* like an escape once the real escapes are decoded
                           b"\\\\nas\\043data", b"/dev/x\\040y", b"label\\134z", b"//nas/share#1"])
    elif kind == "dir":
        base = rng.choice([b"/", b"/mnt/usb stick", b"/mnt/tab\there", b"/mnt/new\nline", b"/mnt/back\\slash", b"/mnt/\xc3\xa9", b"/mnt/\xff", b"/a" * 50])
    elif kind == "type":
        base = rng.choice([b"ext4", b"tmpfs", b"proc", b"zfs", b"fuse.sshfs", b"vfat", b"weird fs", b"nfs4", b"\xff\xfe"])
    else:
        base = rng.choice([b"rw", b"rw,relatime", b"rw,nosuid,nodev,noexec,relatime,size=65536k,mode=755", b"ro,x=a b", b"rw,\xff"])
    if r < 0.1:
        base = base + bytes(rng.choice(b"ab /\\") for _ in range(rng.randrange(1, 30)))
    return base


def gen_mounts_case(rng):
    entries = []
    n = rng.choice([0, 1, 3, 10, 40, 2000 if rng.random() < 0.05 else 5])
    for _ in range(n):
        style = rng.random()
        e = dict(dev=_s(gen_mnt_name(rng, "dev")), dir=_s(gen_mnt_name(rng, "dir")), type=_s(gen_mnt_name(rng, "type")),
                 opts=_s(gen_mnt_name(rng, "opts")), nfields=6, sep=rng.choice([" ", " ", "\t", "  "]), comment=False, long=0)
        if e["dev"] == "":
            e["dev"] = "none"
        if style < 0.05:
            e["nfields"] = rng.choice([1, 2, 3, 4])
        elif style < 0.08:
            e["comment"] = True
        elif style < 0.11:
            e["long"] = rng.choice([900, 1020, 1100, 2000, 3000, 3800, 4090, 4096, 5000, 70000])
        entries.append(e)
    fs = ["ext4", "vfat", "xfs", "btrfs", "fuse.sshfs", "nfs4"]
    rng.shuffle(fs)
    return dict(kind="mounts", entries=entries, fstypes=fs[:rng.randrange(0, 6)], zfs_nodev=rng.random() < 0.3, all=rng.random() < 0.5)


def render_mounts(case):
    lines = []
    for e in case["entries"]:
        if e["comment"]:
            lines.append(b"# " + _b(e["dev"]) + b" comment line\n")
            continue
        f = [enc_mnt(_b(e["dev"])), enc_mnt(_b(e["dir"])), enc_mnt(_b(e["type"])), enc_mnt(_b(e["opts"])), b"0", b"0"][:e["nfields"]]
        if e["long"]:
            f[1] = f[1] + b"/" + b"L" * e["long"]
        lines.append(_b(e["sep"]).join(f) + b"\n")
    return b"".join(lines)


def expected_mounts(case):
    """-> (raw tuples, uncertain) following getmntent(3)."""
    out = []
    uncertain = False
    for e in case["entries"]:
        if e["comment"]:
            continue
        if len(render_mounts(dict(entries=[e]))) > 4000:
            uncertain = True        # beyond getmntent(3)'s own line buffer
            continue
        f = [_b(e["dev"]), _b(e["dir"]) + (b"/" + b"L" * e["long"] if e["long"] else b""), _b(e["type"]), _b(e["opts"])][:e["nfields"]]
        f += [b""] * (4 - len(f))
        out.append(tuple(f))
    return out, uncertain


def run_mounts_case(case, acc, tmpdir):
    env = setup()
    ps, cext = env["ps"], env["cext"]
    root = os.path.join(tmpdir, "procfs")
    shutil.rmtree(root, ignore_errors=True)
    os.makedirs(os.path.join(root, "self"))
    mpath = os.path.join(root, "self", "mounts")
    with open(mpath, "wb") as f:
        f.write(render_mounts(case))
    with open(os.path.join(root, "filesystems"), "w") as f:
        f.write("nodev\tsysfs\nnodev\ttmpfs\nnodev\tproc\n")
        if case["zfs_nodev"]:
            f.write("nodev\tzfs\n")
        for t in case["fstypes"]:
            f.write("\t" + t + "\n")
    harness.mark_current(case)
    viols = []
    fds0 = len(os.listdir("/proc/self/fd"))
    want, uncertain = expected_mounts(case)
    nonutf = any(_has_nonutf8(t) or _has_nonutf8(o) for _, _, t, o in want)
    try:
        raw = cext.disk_partitions(mpath)
        res = ("ok", raw)
    except UnicodeDecodeError as e:
        res = ("UnicodeDecodeError", e)
    except BaseException as e:  # noqa: BLE001
        res = ("exc", e)
    if res[0] == "exc":
        viols.append((f"cext_disk_partitions_exception:{type(res[1]).__name__}", f"{res[1]!r}"))
    elif res[0] == "UnicodeDecodeError":
        # "returns each mount entry's device, mount point, type and options": options embed paths (overlay lowerdir=...), so
        # bytes that are not UTF-8 are as legitimate there as in the mount point, and must not cost the whole table
        if not uncertain:
            viols.append(("cext_disk_partitions_unicode_error" + (":non_utf8_type_or_options" if nonutf else "_on_utf8_input"), f"{res[1]!r}"))
    elif not uncertain:
        got = [(os.fsencode(a), os.fsencode(b), os.fsencode(c), os.fsencode(d)) for a, b, c, d in raw]
        acc.count("mount_entries_compared", len(want))
        if got != want:
            i = next((k for k, (g, w_) in enumerate(zip(got, want)) if g != w_), min(len(got), len(want)))
            viols.append(("mount_entries_wrong", f"first difference at #{i}: got {got[i:i + 1]!r} want {want[i:i + 1]!r} (n got {len(got)} want {len(want)})"))
    # python-side filter
    old = ps.PROCFS_PATH
    ps.PROCFS_PATH = root
    try:
        try:
            parts = ps.disk_partitions(all=case["all"])
            pres = ("ok", parts)
        except UnicodeDecodeError as e:
            pres = ("UnicodeDecodeError", e)
        except BaseException as e:  # noqa: BLE001
            pres = ("exc", e)
    finally:
        ps.PROCFS_PATH = old
    if pres[0] == "exc":
        viols.append((f"disk_partitions_exception:{type(pres[1]).__name__}", f"{pres[1]!r}"))
    elif pres[0] == "UnicodeDecodeError" and not uncertain and res[0] != "UnicodeDecodeError":
        viols.append(("disk_partitions_exception:UnicodeDecodeError", f"{pres[1]!r}"))
    elif pres[0] == "ok" and not uncertain:
        fst = set(case["fstypes"]) | ({"zfs"} if case["zfs_nodev"] else set())
        exp = []
        for dev, d, t, o in want:
            dev_s, d_s, t_s, o_s = os.fsdecode(dev), os.fsdecode(d), os.fsdecode(t), os.fsdecode(o)
            if dev_s == "none":
                dev_s = ""
            if dev_s in ("/dev/root", "rootfs"):
                dev_s = None      # resolved through the live root device finder: not compared
            if not case["all"] and (dev_s == "" or t_s not in fst):
                continue
            exp.append((dev_s, d_s, t_s, o_s))
        gotp = [tuple(p) for p in pres[1]]
        acc.count("partition_rows_compared", len(exp))
        ok = len(gotp) == len(exp) and all((e[0] is None or g[0] == e[0]) and g[1:] == e[1:] for g, e in zip(gotp, exp))
        if not ok:
            viols.append(("disk_partitions_filter_wrong", f"all={case['all']} fstypes={sorted(fst)} got {gotp[:4]!r} want {exp[:4]!r} (n {len(gotp)}/{len(exp)})"))
    nontriv = any(any(c in _b(e[k]) for c in b" \t\n\\") for e in case["entries"] for k in ("dev", "dir", "type", "opts")) or uncertain
    fds1 = len(os.listdir("/proc/self/fd"))
    acc.count("descriptor_counts_compared")
    if fds1 > fds0:
        # every failing call would leave one more stream open: sooner or later *any* call fails with EMFILE
        viols.append(("descriptor_left_open:disk_partitions", f"{fds1 - fds0} more open descriptor(s) after disk_partitions() than before "
                                                              f"(outcome {res[0]})"))
    acc.case(case, nontriv, viols)
    harness.mark_current(None)


def _has_nonutf8(b):
    try:
        b.decode("utf-8")
        return False
    except UnicodeDecodeError:
        return True


# ---------------------------------------------------------------------------------------------
# (d) interfaces in a private network namespace
# ---------------------------------------------------------------------------------------------

def sh(*cmd):
    # (interface names are bytes to the kernel: whatever is not UTF-8 travels as surrogate escapes, like os.fsdecode() does)
    return subprocess.run(cmd, stdout=subprocess.PIPE, stderr=subprocess.PIPE, text=True, errors="surrogateescape",
                          env={k: v for k, v in os.environ.items() if k != "LD_PRELOAD"})


def gen_if_config(rng, idx):
    ifs = []
    for i in range(rng.randrange(1, 4)):
        name = rng.choice(["v%d" % i, "veth-%d-%d" % (idx % 10, i), "x" * 14 + str(i), "a.b:%d" % i, "e%d" % i,
                           # dev_valid_name() refuses '/', ':' and white space only: any other byte may be part of a name
                           "caf\udce9%d" % i, "\udcff\udcfe-%d" % i, "n\u00e9t%d" % i])[:15]
        peer = ("p%s" % name)[:15]
        addrs = []
        for _ in range(rng.randrange(0, 4)):
            r = rng.random()
            if r < 0.25:
                # link-local, all eight groups spelled out: rendered as addr%ifname, up to 39 + 1 + 15 characters
                addrs.append("fe80:" + ":".join("%x" % rng.randrange(0x1000, 0x10000) for _ in range(7)) + "/64")
            elif r < 0.6:
                addrs.append("10.%d.%d.%d/%d" % (rng.randrange(256), rng.randrange(256), rng.randrange(1, 255), rng.choice([8, 16, 24, 30, 31, 32, 19])))
            else:
                addrs.append("fd%02x::%x/%d" % (rng.randrange(256), rng.randrange(1, 65535), rng.choice([64, 48, 128, 127, 10])))
        typ = "tun" if rng.random() < 0.25 else "veth"
        if typ == "tun":
            # point-to-point link without a hardware address: local + peer address pairs
            addrs = []
            for _ in range(rng.randrange(0, 3)):
                if rng.random() < 0.5:
                    addrs.append("10.%d.%d.%d peer 10.%d.%d.%d/%d" % (*(rng.randrange(1, 255) for _ in range(6)), rng.choice([24, 30, 32, 16])))
                else:
                    addrs.append("fd%02x::%x peer fd%02x::%x/%d" % (rng.randrange(256), rng.randrange(1, 65535), rng.randrange(256),
                                                                  rng.randrange(1, 65535), rng.choice([64, 128, 127])))
        ifs.append(dict(name=name, peer=peer, type=typ, mtu=rng.choice([68, 576, 1280, 1400, 1500, 9000, 65535]), up=rng.random() < 0.7, addrs=addrs,
                        mac="02:%02x:%02x:%02x:%02x:%02x" % tuple(rng.randrange(256) for _ in range(5))))
    return dict(kind="netns", ifs=ifs)


def mask_from_prefix(plen, v6):
    if v6:
        m = (1 << 128) - (1 << (128 - plen)) if plen else 0
        return socket.inet_ntop(socket.AF_INET6, m.to_bytes(16, "big"))
    m = (1 << 32) - (1 << (32 - plen)) if plen else 0
    return socket.inet_ntop(socket.AF_INET, m.to_bytes(4, "big"))


def run_netns_case(case, acc):
    env = setup()
    ps = env["ps"]
    viols = []
    made = []
    try:
        for it in case["ifs"]:
            if it.get("type") == "tun":
                r = sh("ip", "tuntap", "add", "dev", it["name"], "mode", "tun")
            else:
                r = sh("ip", "link", "add", it["name"], "address", it["mac"], "type", "veth", "peer", "name", it["peer"])
            if r.returncode != 0:
                continue
            made.append(it)
            if it["mtu"] < 1280:
                sh("sysctl", "-qw", f"net.ipv6.conf.{it['name'].replace('.', '/')}.disable_ipv6=0")
            sh("ip", "link", "set", it["name"], "mtu", str(it["mtu"]))
            for a in it["addrs"]:
                sh("ip", "addr", "add", *a.split(), "dev", it["name"], *(["nodad"] if ":" in a else []))
            if it["up"]:
                sh("ip", "link", "set", it["name"], "up")
                if it.get("type") != "tun":
                    sh("ip", "link", "set", it["peer"], "up")
        harness.mark_current(case)

        def ref_table():
            r_ = json.loads(sh("ip", "-j", "addr", "show").stdout or "[]")
            for x in r_:
                for ai in x.get("addr_info", []):
                    ai.pop("valid_life_time", None)
                    ai.pop("preferred_life_time", None)
            return r_
        # links that were just brought up settle asynchronously (carrier, duplicate address detection): the reference is read
        # before and after psutil's answers, and only a table that did not move in between is a reference
        import time as _time
        ref = ref_table()
        for _attempt in range(40):
            try:
                addrs = ps.net_if_addrs()
                stats = ps.net_if_stats()
            except Exception:  # noqa: BLE001
                break                          # reported by the questions below
            ref_after = ref_table()
            if ref_after == ref:
                break
            acc.count("netns_reference_moved_while_asking_retried")
            ref = ref_after
            _time.sleep(0.05)
        else:
            acc.count("netns_cases_not_judged_interface_table_kept_moving")
            acc.case(case, False, [])
            harness.mark_current(None)
            return
        try:
            addrs = ps.net_if_addrs()
            stats = ps.net_if_stats()
            if ref_table() != ref:
                # moved again between the stable reading and this one: not judged
                acc.count("netns_cases_not_judged_interface_table_kept_moving")
                acc.case(case, False, [])
                harness.mark_current(None)
                return
        except Exception as e:  # noqa: BLE001
            mech = f"net_if_exception:{type(e).__name__}" + (":non_ascii_interface_name" if any(not i["name"].isascii() for i in made) else "")
            acc.case(case, True, [(mech, f"{e!r} with interfaces {[r.get('ifname') for r in ref]}")])
            harness.mark_current(None)
            return
        refd = {r["ifname"]: r for r in ref}
        acc.count("netns_interfaces_compared", len(refd))
        if set(addrs) - set(refd):
            viols.append(("net_if_addrs_unknown_interface", f"{sorted(set(addrs) - set(refd))}"))
        for name, r in refd.items():
            if name not in stats:
                viols.append(("net_if_stats_missing_interface", name))
                continue
            st = stats[name]
            if st.mtu != r["mtu"]:
                viols.append(("net_if_stats_mtu_wrong", f"{name}: got {st.mtu} want {r['mtu']}"))
            if st.isup != ("LOWER_UP" in r["flags"] or (name == "lo" and "UP" in r["flags"])):
                viols.append(("net_if_stats_isup_wrong", f"{name}: got {st.isup} flags={r['flags']} psflags={st.flags}"))
            if ("up" in st.flags.split(",")) != ("UP" in r["flags"]):
                viols.append(("net_if_stats_flags_wrong", f"{name}: got {st.flags} want {r['flags']}"))
            got = addrs.get(name, [])
            want_ip = set()
            for ai in r.get("addr_info", []):
                v6 = ai["family"] == "inet6"
                loc = ai["local"]
                if v6 and ai.get("scope") == "link":
                    loc = loc + "%" + name
                want_ip.add((ai["family"], loc, mask_from_prefix(ai["prefixlen"], v6)))
            got_ip = {("inet" if a.family == socket.AF_INET else "inet6", a.address, a.netmask) for a in got
                      if a.family in (socket.AF_INET, socket.AF_INET6)}
            acc.count("netns_addresses_compared", len(want_ip))
            if got_ip != want_ip:
                viols.append(("net_if_addrs_ip_set_wrong", f"{name}: got {sorted(got_ip)} want {sorted(want_ip)}"))
            macs = [a.address for a in got if a.family == ps.AF_LINK]
            if r.get("address") and macs != [r["address"]]:
                viols.append(("net_if_addrs_mac_wrong", f"{name}: got {macs} want {r['address']}"))
            if r.get("link_type") == "none" and macs:
                viols.append(("net_if_addrs_mac_wrong", f"{name}: link without hardware address, got {macs}"))
            # point-to-point peers
            want_ptp = {(ai["local"], ai["address"]) for ai in r.get("addr_info", []) if "address" in ai and "local" in ai
                        and ai["address"] != ai["local"]}
            got_ptp = {(a.address, a.ptp) for a in got if a.family in (socket.AF_INET, socket.AF_INET6) and a.ptp is not None}
            if want_ptp or got_ptp:
                acc.count("netns_ptp_pairs_compared", len(want_ptp))
                if want_ptp != got_ptp:
                    viols.append(("net_if_addrs_ptp_wrong", f"{name}: got {sorted(got_ptp)} want {sorted(want_ptp)}"))
            for a in got:
                if a.family == socket.AF_INET and a.broadcast is not None:
                    wantb = [ai.get("broadcast") for ai in r.get("addr_info", []) if ai["family"] == "inet" and ai["local"] == a.address]
                    if wantb and wantb[0] is not None and a.broadcast != wantb[0]:
                        viols.append(("net_if_addrs_broadcast_wrong", f"{name}: got {a.broadcast} want {wantb[0]}"))
        # the same questions from a daemon-like process: debug messages switched on and a standard error nobody can write to
        # (descriptor 2 closed, or pointing at a full device; sys.stderr replaced, as daemons do). What the extension tells
        # about the interfaces must not depend on whether its own diagnostics could be written
        for mode in ("closed", "full"):
            acc.count("netns_questions_repeated_with_unwritable_stderr")
            with _hostile_stderr(ps, mode):
                try:
                    stats2, addrs2 = ps.net_if_stats(), ps.net_if_addrs()
                except Exception as e:  # noqa: BLE001
                    viols.append((f"net_if_exception:{type(e).__name__}:debug_on_stderr_{mode}",
                                  f"{e!r} - the same calls answered normally a moment before"))
                    continue
                per_nic = {}
                for name in list(refd) + ["nosuchnic0"]:
                    for fn in ("net_if_duplex_speed",):
                        try:
                            per_nic[(name, fn)] = getattr(env["cext"], fn)(name)
                        except OSError as e:
                            per_nic[(name, fn)] = ("OSError", e.errno)
            if (stats2 != stats or addrs2 != addrs) and (ref_table() != ref or ps.net_if_stats() != stats or ps.net_if_addrs() != addrs):
                acc.count("netns_unwritable_stderr_not_judged_interface_table_moved")
                continue
            if stats2 != stats or addrs2 != addrs:
                viols.append((f"net_if_answers_differ:debug_on_stderr_{mode}", f"plain: {stats} / {addrs}  now: {stats2} / {addrs2}"))
            for (name, fn), v in per_nic.items():
                try:
                    plain = getattr(env["cext"], fn)(name)
                except OSError as e:
                    plain = ("OSError", e.errno)
                if plain != v:
                    viols.append((f"{fn}_differs:debug_on_stderr_{mode}", f"{name}: plain {plain!r}, with unwritable stderr {v!r}"))
        # hot-unplug: one interface is deleted right before the k-th native question about it (mtu, flags, duplex/speed)
        if len(made) >= 2:
            h = int(harness.chash(case)[-3:], 16)
            victim, k = made[h % len(made)]["name"], (h // 7) % 3
            viols.extend(unplug_during_net_if_stats(ps, victim, k, acc))
    finally:
        for it in made:
            sh("ip", "link", "del", it["name"])
    if any(not i["name"].isascii() for i in made):
        acc.count("netns_cases_with_non_ascii_interface_names")
        viols = [(m + ":non_ascii_interface_name" if m.startswith("net_if") else m, d) for m, d in viols]
    acc.case(case, any(len(i["name"]) >= 14 or i["addrs"] for i in case["ifs"]), viols)
    harness.mark_current(None)


import contextlib


@contextlib.contextmanager
def _hostile_stderr(ps, mode):
    """psutil's debug messages on, descriptor 2 closed ("closed") or open on /dev/full ("full"), sys.stderr replaced."""
    import io
    saved_fd = os.dup(2)
    saved_err = sys.stderr
    try:
        sys.stderr.flush()
    except Exception:  # noqa: BLE001
        pass
    sys.stderr = io.StringIO()
    try:
        if mode == "closed":
            os.close(2)
        else:
            fd = os.open("/dev/full", os.O_WRONLY)
            os.dup2(fd, 2)
            os.close(fd)
        ps._set_debug(True)
        try:
            yield
        finally:
            ps._set_debug(False)
    finally:
        os.dup2(saved_fd, 2)
        os.close(saved_fd)
        sys.stderr = saved_err


class _NativeWatch:
    """Stands in for a native module of psutil._pslinux: calls `before(name_of_function, args)` ahead of every call."""

    def __init__(self, real, before):
        self.__dict__["_real"] = real
        self.__dict__["_before"] = before

    def __getattr__(self, n):
        v = getattr(self._real, n)
        if not callable(v) or not n.startswith("net_if_"):
            return v

        def call(*a, **kw):
            self._before(n, a)
            return v(*a, **kw)
        return call


def unplug_during_net_if_stats(ps, victim, k, acc):
    pl = ps._pslinux
    seen = []
    done = []

    def before(fn, args):
        if args and args[0] == victim:
            if len(seen) == k and not done:
                sh("ip", "link", "del", victim)
                done.append(fn)
            seen.append(fn)
    real = (pl.cext, pl.cext_posix)
    pl.cext, pl.cext_posix = _NativeWatch(real[0], before), _NativeWatch(real[1], before)
    viols = []
    try:
        try:
            stats = ps.net_if_stats()
        except Exception as e:  # noqa: BLE001
            return [(f"net_if_stats_exception:{type(e).__name__}:interface_unplugged_during_call",
                     f"{victim} deleted right before native call #{k} ({done}) about it: {e!r}")]
    finally:
        pl.cext, pl.cext_posix = real
    if not done:
        return []
    acc.count("netns_unplug_during_call_checked")
    if victim in stats:
        viols.append(("net_if_stats_reports_unplugged_interface",
                      f"{victim} was deleted right before {done[0]}() asked about it, yet net_if_stats() reports {stats[victim]!r}"))
    after = {r["ifname"]: r for r in json.loads(sh("ip", "-j", "addr", "show").stdout or "[]")}
    for name, r in after.items():
        if name not in stats:
            viols.append(("net_if_stats_missing_interface:after_unplug_of_another", f"{name} (unplugged: {victim})"))
        elif stats[name].mtu != r["mtu"]:
            viols.append(("net_if_stats_mtu_wrong:after_unplug_of_another", f"{name}: got {stats[name].mtu} want {r['mtu']}"))
    return viols


# ---------------------------------------------------------------------------------------------
# (e) upstream tests on the asan overlay (thorough)
# ---------------------------------------------------------------------------------------------

def run_suite(shard, acc):
    ov = os.environ["VERIF_OVERLAY"]
    logdir = tempfile.mkdtemp(prefix="c17suite_")
    env = dict(os.environ)
    env["ASAN_OPTIONS"] = env.get("ASAN_OPTIONS", "") + f":log_path={logdir}/asan"
    cmd = [sys.executable, "-B", "-m", "pytest", "-q", "-x", "--no-header", "-p", "no:cacheprovider", "--timeout=600",
           "-k", "not memleak and not test_fetch_all and not test_long_cmdline"] + [os.path.join(ov, "psutil", "tests", f) for f in shard["files"]]
    harness.mark_current(dict(kind="suite", files=shard["files"]))
    p = subprocess.run(cmd, cwd=ov, env=env, stdout=subprocess.PIPE, stderr=subprocess.STDOUT, text=True)
    out = p.stdout
    m = re.search(r"(\d+) passed", out)
    acc.count("suite_tests_passed_under_asan", int(m.group(1)) if m else 0)
    reports = [f for f in os.listdir(logdir)]
    san = re.findall(r"(ERROR: AddressSanitizer[^\n]*|[^\n]*runtime error:[^\n]*)", out)
    for f in reports:
        with open(os.path.join(logdir, f), errors="replace") as fh:
            san += re.findall(r"(ERROR: AddressSanitizer[^\n]*|[^\n]*runtime error:[^\n]*)", fh.read())
    shutil.rmtree(logdir, ignore_errors=True)
    viols = [(classify_report(s), s[:500]) for s in san]
    acc.case(dict(kind="suite", files=shard["files"]), True, viols)
    harness.mark_current(None)


# ---------------------------------------------------------------------------------------------
# (f) valgrind memcheck on the uninstrumented build: what ASan cannot see (reads of uninitialised memory)
# ---------------------------------------------------------------------------------------------

VG_KINDS = [("Invalid read", "invalid_read"), ("Invalid write", "invalid_write"), ("Conditional jump", "uninitialised_condition"),
            ("Use of uninitialised", "uninitialised_value_use"), ("Syscall param", "uninitialised_syscall_param"),
            ("Invalid free", "invalid_free"), ("Mismatched free", "mismatched_free"), ("Source and destination overlap", "overlap"),
            ("Argument '", "fishy_size"), ("Jump to the invalid address", "invalid_jump"), ("Process terminating", "terminated_by_signal")]


def run_memcheck_child(shard, acc):
    """Runs INSIDE valgrind: a reduced version of the fuzz + record workloads, every case announced on stderr."""
    real_mark = harness.mark_current

    def mark(case):
        if case is not None:
            sys.stderr.write("@@CASE " + json.dumps(case, default=str)[:1500] + "\n")
            sys.stderr.flush()
        real_mark(case)
    harness.mark_current = mark
    tmpdir = tempfile.mkdtemp(prefix="c17vg_")
    try:
        seed = shard["seed"]
        for i in range(shard["nrec"]):
            run_utmp_case(gen_utmp_case(harness.rng_for(seed, "c17u", "vg", i)), acc, tmpdir)
            run_mounts_case(gen_mounts_case(harness.rng_for(seed, "c17m", "vg", i)), acc, tmpdir)
        for mod, fns in NATIVE.items():
            for fn in fns + ["*rest*"]:
                run_native_fuzz(dict(kind="native", mod=mod, fn=fn, seed=seed, n2=shard["n2"], n3=shard["n2"], light=True), acc)
        env = setup()
        ps = env["ps"]
        for fn in (ps.net_if_addrs, ps.net_if_stats, ps.users, lambda: ps.disk_partitions(all=True), ps.virtual_memory, ps.swap_memory):
            mark(dict(kind="public", fn=getattr(fn, "__name__", "lambda")))
            fn()
            acc.count("native_calls")
    finally:
        harness.mark_current = real_mark
        shutil.rmtree(tmpdir, ignore_errors=True)


def parse_memcheck_log(text):
    """-> list of (kind, block text, case json or None) for error blocks with a frame inside the psutil extension."""
    out = []
    cur_case = None
    block = None
    for ln in text.splitlines():
        if ln.startswith("@@CASE "):
            cur_case = ln[7:]
            continue
        m = re.match(r"==\d+== (.*)$", ln)
        if not m:
            continue
        body = m.group(1)
        if block is None:
            for needle, kind in VG_KINDS:
                if body.startswith(needle):
                    block = [kind, [body], cur_case]
                    break
        elif body.strip() == "":
            out.append(block)
            block = None
        else:
            block[1].append(body)
    if block is not None:
        out.append(block)
    return [(k, "\n".join(lines), c) for k, lines, c in out]


def run_memcheck(shard, acc):
    vg = shutil.which("valgrind")
    if not vg:
        acc.count("memcheck_skipped")
        acc.extra["memcheck"] = "skipped: valgrind not installed"
        return
    # private network namespace (see shard_cmd_prefix): links of both kinds the extension decodes
    made = 0
    if sh("ip", "link", "set", "lo", "up").returncode == 0:
        made += sh("ip", "link", "add", "veth-memcheck0", "type", "veth", "peer", "name", "vmc1").returncode == 0
        made += sh("ip", "tuntap", "add", "dev", "tun-mc", "mode", "tun").returncode == 0
        sh("ip", "addr", "add", "10.9.8.7/24", "dev", "veth-memcheck0")
        sh("ip", "addr", "add", "fe80:1111:2222:3333:4444:5555:6666:7777/64", "dev", "veth-memcheck0", "nodad")
        sh("ip", "addr", "add", "10.1.1.1", "peer", "10.1.1.2/32", "dev", "tun-mc")
        sh("ip", "addr", "add", "fd00::1", "peer", "fd00::2/128", "dev", "tun-mc")
        for n in ("veth-memcheck0", "vmc1", "tun-mc"):
            sh("ip", "link", "set", n, "up")
    acc.count("memcheck_links_created", made)
    tmpdir = tempfile.mkdtemp(prefix="c17vgp_")
    out = os.path.join(tmpdir, "child.json")
    env = dict(os.environ, PYTHONMALLOC="malloc")
    env.pop("LD_PRELOAD", None)
    child = dict(shard, kind="memcheck_child")
    cmd = [vg, "--error-exitcode=0", "--leak-check=no", "--num-callers=25", "--error-limit=no", "--log-fd=2",
           sys.executable, "-B", "-m", "vlib.worker", "checks.c17", json.dumps(child), out]
    try:
        p = subprocess.run(cmd, env=env, stdout=subprocess.PIPE, stderr=subprocess.PIPE, timeout=shard.get("timeout", 800) - 30)
        log = p.stderr.decode("utf-8", "replace")
        rc = p.returncode
    except subprocess.TimeoutExpired as e:
        log = (e.stderr or b"").decode("utf-8", "replace")
        rc = "timeout"
    res = None
    if os.path.exists(out):
        with open(out) as f:
            res = json.load(f)
    shutil.rmtree(tmpdir, ignore_errors=True)
    blocks = parse_memcheck_log(log)
    acc.count("memcheck_error_blocks_seen", len(blocks))
    inside = [(k, b, c) for k, b, c in blocks if "psutil" in b]
    acc.count("memcheck_error_blocks_outside_extension", len(blocks) - len(inside))
    if res is None:
        if rc == "timeout":
            acc.inconclusive = "memcheck child timed out"
        else:
            acc.viol("memcheck:child_died", f"rc={rc} :: {log[-1500:]}", dict(kind="memcheck"))
        return
    acc.count("memcheck_native_calls", res["counters"].get("native_calls", 0))
    acc.count("memcheck_records_decoded", res["counters"].get("utmp_records_compared", 0) + res["counters"].get("mount_entries_compared", 0))
    for v in res["violations"]:
        acc.viol(v["mech"], v["detail"], v.get("case"))
    for k, b, c in inside:
        site = re.search(r"(?:at|by) 0x[0-9A-F]+: (psutil_\w+)", b)
        case = None
        if c:
            try:
                case = json.loads(c)
            except ValueError:
                case = dict(kind="memcheck", raw=c[:300])
        acc.viol(f"memcheck:{k}" + (f":{site.group(1)}" if site else ""), f"input={c and c[:300]} :: {b[:1500]}", case)
    acc.case(dict(kind="memcheck", seed=shard["seed"]), True, [])
    acc.evals += res["evals"] - 1 if res["evals"] else 0
    for h in res["nontrivial"]:
        acc.nontrivial.add(h)


# ---------------------------------------------------------------------------------------------
# (g) concurrent callers of the record decoders (libc iterators such as getutent() are process-wide)
# ---------------------------------------------------------------------------------------------

def run_threads_case(case, acc, tmpdir):
    """4 free-running threads call users() / disk_partitions() / net_if_addrs() at once on fixed inputs (sanitized build):
    every answer must be the one a lone caller gets."""
    import threading
    env = setup()
    ps, libc, cext = env["ps"], env["libc"], env["cext"]
    rng = harness.rng_for(case["seed"], "c17t", case["i"])
    recs = []
    for n in range(case["nrec"]):
        recs.append(dict(type=USER_PROCESS if n % 3 else rng.choice([USER_PROCESS, 8, 6, 2]), pid=1000 + n, line=_s(b"pts/%d" % n),
                         id=_s(b"%d" % (n % 1000)), user=_s(rng.choice([b"alice", b"bob", b"u" * 32, b"carol"])),
                         host=_s(rng.choice([b":0", b"host.example", b"h" * 256, b""])), session=0, sec=1700000000 + n, usec=0))
    ucase = dict(kind="utmp", recs=recs, trunc=0)
    path = os.path.join(tmpdir, "utmp_threads")
    with open(path, "wb") as f:
        f.write(b"".join(pack_utmp(r) for r in recs))
    mpath = os.path.join(tmpdir, "mounts_threads")
    with open(mpath, "wb") as f:
        for n in range(60):
            f.write(b"/dev/sd%c%d /mnt/p%d ext4 rw,relatime 0 0\n" % (97 + n % 26, n, n))
    harness.mark_current(dict(kind="threads", seed=case["seed"], i=case["i"]))
    libc.utmpname(path.encode())
    want_users = expected_users(ucase)
    want_mounts = cext.disk_partitions(mpath)
    want_addrs = ps.net_if_addrs()
    errors, wrong = [], []
    old = sys.getswitchinterval()
    barrier = threading.Barrier(4)

    def worker(i):
        try:
            barrier.wait()
            for n in range(case["calls"]):
                which = (i + n) % 4
                if which in (0, 1):
                    got = [tuple(u) for u in ps.users()]
                    acc.count("concurrent_decoder_calls")
                    if got != want_users:
                        wrong.append(("users", len(got), len(want_users), len(set(got)) != len(got)))
                elif which == 2:
                    got = cext.disk_partitions(mpath)
                    acc.count("concurrent_decoder_calls")
                    if got != want_mounts:
                        wrong.append(("disk_partitions", len(got), len(want_mounts), False))
                else:
                    got = ps.net_if_addrs()
                    acc.count("concurrent_decoder_calls")
                    if got != want_addrs:
                        wrong.append(("net_if_addrs", len(got), len(want_addrs), False))
        except BaseException as e:  # noqa: BLE001
            errors.append((i, e))
    sys.setswitchinterval(1e-6)
    try:
        ths = [threading.Thread(target=worker, args=(i,), daemon=True) for i in range(4)]
        for t in ths:
            t.start()
        for t in ths:
            t.join(300)
    finally:
        sys.setswitchinterval(old)
    viols = []
    for i, e in errors:
        viols.append((f"concurrent_exception:{type(e).__name__}", f"thread {i}: {e!r}"))
    by = {}
    for w in wrong:
        by.setdefault(w[0], []).append(w)
    for fn, ws in by.items():
        viols.append((f"concurrent_result_differs:{fn}", f"{len(ws)} concurrent {fn}() answers differ from the lone caller's; e.g. "
                                                         f"{ws[0][1]} records instead of {ws[0][2]}" + (", with duplicates" if ws[0][3] else "")))
    acc.case(dict(kind="threads", seed=case["seed"], i=case["i"], nrec=case["nrec"], calls=case["calls"]), True, viols)
    harness.mark_current(None)


def classify_report(text):
    m = re.search(r"([\w./-]+\.[ch]):(\d+):\d+: runtime error: ([a-z ]+?)(?: of| by|$| \d| -)", text)
    if m:
        return f"ubsan:{os.path.basename(m.group(1))}:{m.group(3).strip().replace(' ', '_')}"
    m = re.search(r"runtime error: ([a-z ]+)", text)
    if m:
        return "ubsan:" + m.group(1).strip().replace(" ", "_")
    m = re.search(r"AddressSanitizer: ([\w-]+)", text)
    site = re.search(r"#\d+ 0x[0-9a-f]+ in (psutil_\w+)", text)
    if m:
        return f"asan:{m.group(1)}" + (f":{site.group(1)}" if site else "")
    return "sanitizer_or_signal_death"


def on_worker_death(r):
    """Driver hook: a worker that died (sanitizer abort / signal) is a violation with the recorded input."""
    log = r["log"]
    if r["res"] is not None and r["rc"] == 0:
        return None
    if "AddressSanitizer" in log or "runtime error:" in log or (isinstance(r["rc"], int) and r["rc"] < 0):
        case = r.get("cur") or dict(kind="unknown", shard=r["shard"])
        key = next((ln for ln in log.splitlines() if "runtime error:" in ln or "ERROR: AddressSanitizer" in ln), log[-300:])
        full = log[log.find(key):][:3000] if key in log else key
        return [(classify_report(full), f"worker rc={r['rc']} input={json.dumps(case)[:400]} :: {key[:400]}", case)]
    return None


# ---------------------------------------------------------------------------------------------

def plan(tier, seed):
    shards = []
    for mod, fns in NATIVE.items():
        for fn in fns:
            shards.append(dict(kind="native", mod=mod, fn=fn, seed=seed, n2=500 if tier == "quick" else 20000, n3=500 if tier == "quick" else 40000))
    for mod in NATIVE:
        shards.append(dict(kind="native", mod=mod, fn="*rest*", seed=seed, n2=300, n3=300))
    for fn in WRAPPERS:
        shards.append(dict(kind="wrapper", fn=fn, seed=seed))
    nu = 1600 if tier == "quick" else 60000
    for s, c in harness.split_range(nu, 4 if tier == "quick" else 12):
        shards.append(dict(kind="utmp", seed=seed, start=s, count=c))
    nm = 1200 if tier == "quick" else 40000
    for s, c in harness.split_range(nm, 4 if tier == "quick" else 12):
        shards.append(dict(kind="mounts", seed=seed, start=s, count=c))
    for i in range(2 if tier == "quick" else 8):
        shards.append(dict(kind="netns", seed=seed, part=i, count=8 if tier == "quick" else 60))
    for part in range(1 if tier == "quick" else 6):
        shards.append(dict(kind="threads", seed=seed, part=part, count=3 if tier == "quick" else 40))
    shards.append(dict(kind="memcheck", flavour="plain", seed=seed, nrec=25 if tier == "quick" else 400,
                       n2=3 if tier == "quick" else 60, timeout=800 if tier == "quick" else 3000))
    if tier == "thorough":
        shards.append(dict(kind="suite", files=["test_linux.py", "test_misc.py"], timeout=3000))
        shards.append(dict(kind="suite", files=["test_system.py", "test_posix.py"], timeout=3000))
        shards.append(dict(kind="suite", files=["test_process.py"], timeout=3000))
    return shards


def shard_cmd_prefix(shard):
    if shard.get("kind") in ("netns", "memcheck") or shard.get("origin") == "netns":
        return ["unshare", "-n"]
    return []


def run_shard(shard):
    acc = harness.Acc(max_samples=2)
    k = shard["kind"]
    if k == "cases":
        for case in shard["cases"]:
            run_one(case, acc)
        return acc.result()
    if k != "memcheck":
        setup()
    tmpdir = tempfile.mkdtemp(prefix="c17_")
    try:
        if k == "native":
            run_native_fuzz(shard, acc)
        elif k == "wrapper":
            run_wrapper_fuzz(shard, acc)
        elif k == "utmp":
            for i in range(shard["start"], shard["start"] + shard["count"]):
                run_utmp_case(gen_utmp_case(harness.rng_for(shard["seed"], "c17u", i)), acc, tmpdir)
        elif k == "mounts":
            for i in range(shard["start"], shard["start"] + shard["count"]):
                run_mounts_case(gen_mounts_case(harness.rng_for(shard["seed"], "c17m", i)), acc, tmpdir)
        elif k == "netns":
            if sh("ip", "link", "add", "vprobe0", "type", "veth", "peer", "name", "vprobe1").returncode != 0:
                acc.count("netns_skipped")
                acc.extra["netns"] = "skipped: veth creation not permitted"
            else:
                sh("ip", "link", "del", "vprobe0")
                sh("ip", "link", "set", "lo", "up")
                # one directed table per shard ahead of the random ones: the classes earlier rounds asked for must not depend
                # on the draw - the longest renderings (a fully spelled-out link-local on a 15-character name: 39 + 1 + 15
                # characters), a name that is not UTF-8, a point-to-point link without a hardware address
                rng0 = harness.rng_for(shard["seed"], "c17n-directed", shard["part"])
                ll = lambda: "fe80:" + ":".join("%x" % rng0.randrange(0x1000, 0x10000) for _ in range(7)) + "/64"  # noqa: E731
                mac = lambda: "02:%02x:%02x:%02x:%02x:%02x" % tuple(rng0.randrange(256) for _ in range(5))  # noqa: E731
                run_netns_case(dict(kind="netns", ifs=[
                    dict(name="x" * 14 + "0", peer=("p" + "x" * 14), type="veth", mtu=1500, up=True, mac=mac(),
                         addrs=[ll(), "10.%d.%d.7/19" % (rng0.randrange(256), rng0.randrange(256)), "fd%02x::%x/64" % (rng0.randrange(256), rng0.randrange(1, 65535))]),
                    dict(name=rng0.choice(["caf\udce9-1", "\udcff\udcfe-1", "veth-%d-1" % shard["part"]]), peer="pdirected1", type="veth",
                         mtu=rng0.choice([1280, 9000]), up=True, mac=mac(), addrs=[ll(), ll()]),
                    dict(name="t0", peer="pt0", type="tun", mtu=1400, up=True, mac=mac(),
                         addrs=["10.8.%d.2 peer 10.8.%d.1/32" % (rng0.randrange(256), rng0.randrange(256)), "fd00::%x peer fd00::%x/128" % (rng0.randrange(1, 9999), rng0.randrange(1, 9999))]),
                ]), acc)
                acc.count("netns_directed_tables")
                for i in range(shard["count"]):
                    run_netns_case(gen_if_config(harness.rng_for(shard["seed"], "c17n", shard["part"], i), i), acc)
        elif k == "suite":
            run_suite(shard, acc)
        elif k == "threads":
            for i in range(shard["count"]):
                run_threads_case(dict(seed=shard["seed"], i=shard["part"] * 1000 + i, nrec=120, calls=30), acc, tmpdir)
        elif k == "memcheck":
            run_memcheck(shard, acc)
        elif k == "memcheck_child":
            run_memcheck_child(shard, acc)
    finally:
        shutil.rmtree(tmpdir, ignore_errors=True)
        try:
            _env["libc"].utmpname(b"/var/run/utmp")
        except Exception:  # noqa: BLE001
            pass
    return acc.result()


def run_one(case, acc):
    """Replay of a recorded witness."""
    setup()
    tmpdir = tempfile.mkdtemp(prefix="c17_")
    try:
        k = case.get("kind")
        if k == "utmp":
            run_utmp_case(case, acc, tmpdir)
        elif k == "mounts":
            run_mounts_case(case, acc, tmpdir)
        elif k == "netns":
            run_netns_case(case, acc)
        elif k == "threads":
            run_threads_case(dict(seed=case["seed"], i=case["i"], nrec=case.get("nrec", 120), calls=case.get("calls", 30)), acc, tmpdir)
        elif k in ("native", "wrapper"):
            # arguments are recorded in a lossy printable form; re-run the whole function's fuzz shard instead
            if k == "native":
                run_native_fuzz(dict(mod=case["mod"], fn=case["fn"], seed=0), acc)
            else:
                run_wrapper_fuzz(dict(fn=case["fn"], seed=0), acc)
        else:
            acc.inconclusive = f"cannot replay {case}"
    finally:
        shutil.rmtree(tmpdir, ignore_errors=True)
