"""C08 - virtual_memory() and swap_memory() follow the documented formulas.

Workload: generated /proc/meminfo, /proc/vmstat and /proc/zoneinfo texts served by a vkernel MemFS at /vproc; the
real psutil.virtual_memory()/swap_memory() parse them.
Oracle: the formulas of the property statement, evaluated in exact integers on the numbers the files were rendered
from (never a re-parse of the text, never a constant imported from psutil).
"""
import ctypes
import os
import sys
import random
import re
import warnings
from fractions import Fraction

from vlib import harness

ID = "C08"
LEVEL = "exploration"
TECHNIQUE = ("runtime monitor: generated meminfo/vmstat/zoneinfo under the real virtual_memory()/swap_memory(), "
             "independent integer reference of the documented formulas")
RULE = ("one case = one generated (meminfo, zoneinfo|absent, vmstat|absent) triple (zoneinfo of 0-24 zones, i.e. one to four NUMA nodes whose zone names repeat). Exhaustive part: every subset of "
        "the 10 optional meminfo keys x zoneinfo present/absent with one in-range magnitude profile; random part: "
        "random subsets (plus legacy 2.4/2.6 key names, swap keys present/absent) with magnitudes zero / small / "
        "typical / TB / container-distorted (cached+buffers > total, available > total, available = 0, total = 0, "
        "free > total, watermarks larger than memory), 0-6 zones. non-trivial = the ORACLE's own evaluation takes a "
        "clamp branch (used < 0, estimate < 0, estimate > total) or a fallback branch (MemAvailable absent or zero, "
        "legacy key names, sysinfo(2) for swap, sin/sout unavailable); distinct by case hash")
ASSUMPTIONS = [
    "meminfo/zoneinfo/vmstat line formats transcribed from fs/proc/meminfo.c, mm/vmstat.c and compared with the live "
    "6.18 kernel; MemTotal and MemFree are always present (documented as mandatory)",
    "SwapTotal/SwapFree usually appear or disappear pairwise (the kernel prints each pair under one config; 6% of the swap cases list only one, then both figures come from sysinfo(2)) "
    "option); the Linux 2.4 three-line 'total: used: free:' table that preceded the tagged lines is not generated",
    "magnitudes are capped at 2**40 kB so that every documented formula is exactly representable (< 2**53 bytes)",
    "where the statement only fixes a range (estimate outside [0,total] is 'forced into [0,total]') the range and the "
    "consistency of percent with the returned available are asserted, not the in-range value chosen",
    "free > total: the statement promises neither the range of available nor of percent; only exact fields, used, "
    "warnings and percent/available consistency are asserted",
    "fallback estimate when its inputs are missing is 'free + cached': both the raw Cached figure and Cached plus "
    "SReclaimable are accepted",
    "legacy names (MemShared; Inact_dirty+Inact_clean+Inact_laundry) used in place of a missing modern key: either the "
    "legacy figure without warning or 0 with a warning is accepted",
    "total = 0: percent is undefined by the formula, any value in [0,100] is accepted",
    "swapped-in/out bytes = pswpin/pswpout pages x the page size of this machine (4096)",
    "when SwapTotal/SwapFree are absent the documented source is sysinfo(2): the oracle calls it itself through ctypes "
    "before and after the psutil call",
]
REQUIRED_COUNTERS = ["field_comparisons", "clamp_branches", "fallback_branches", "warning_sets_compared",
                     "swap_comparisons"]

OPT10 = ["MemAvailable", "Buffers", "Cached", "SReclaimable", "Shmem", "Active", "Inactive", "Slab",
         "Active(file)", "Inactive(file)"]
LEGACY = ["MemShared", "Inact_dirty", "Inact_clean", "Inact_laundry"]
SWAPKEYS = ["SwapTotal", "SwapFree"]

# kernel print order; keys not in a case's "mem" dict are either omitted (the modelled ones) or printed as filler
ORDER = ["MemTotal", "MemFree", "MemAvailable", "MemShared", "Buffers", "Cached", "SwapCached", "Active", "Inactive",
         "Inact_dirty", "Inact_clean", "Inact_laundry", "Active(anon)", "Inactive(anon)", "Active(file)",
         "Inactive(file)", "Unevictable", "Mlocked", "SwapTotal", "SwapFree", "Dirty", "Writeback", "AnonPages",
         "Mapped", "Shmem", "KReclaimable", "Slab", "SReclaimable", "SUnreclaim", "KernelStack", "PageTables",
         "CommitLimit", "Committed_AS", "VmallocTotal", "VmallocUsed", "VmallocChunk", "Percpu", "HugePages_Total",
         "HugePages_Free", "Hugepagesize", "DirectMap4k", "DirectMap2M"]
MODELLED = set(["MemTotal", "MemFree"] + OPT10 + LEGACY + SWAPKEYS)
FILLER = {"SwapCached": 0, "Active(anon)": 104, "Inactive(anon)": 190676, "Unevictable": 7452, "Mlocked": 7504,
          "Dirty": 276, "Writeback": 0, "AnonPages": 190336, "Mapped": 146380, "KReclaimable": 21868,
          "SUnreclaim": 33836, "KernelStack": 3584, "PageTables": 3024, "CommitLimit": 33011796,
          "Committed_AS": 420292, "VmallocTotal": 34359738367, "VmallocUsed": 6676, "VmallocChunk": 0,
          "Percpu": 4736, "HugePages_Total": 0, "HugePages_Free": 0, "Hugepagesize": 2048, "DirectMap4k": 20480,
          "DirectMap2M": 2076672}
NO_UNIT = {"HugePages_Total", "HugePages_Free"}
ZONE_NAMES = ["DMA", "DMA32", "Normal", "HighMem", "Movable", "Device"]
CAP = 2**40          # kB


# ----------------------------------------------------------------------------------------------
# rendering (case -> file bytes)
# ----------------------------------------------------------------------------------------------

def render_meminfo(case):
    m = case["mem"]
    filler = case.get("filler", True)
    out = []
    for k in ORDER:
        if k in m:
            v = m[k]
        elif k in MODELLED or not filler:
            continue
        else:
            v = FILLER[k]
        if k in NO_UNIT:
            out.append("%-16s%8d\n" % (k + ":", v))
        else:
            out.append("%-16s%8d kB\n" % (k + ":", v))
    order = case.get("line_order")
    if order == "sorted":
        out.sort()                      # a procfs emulation that builds its own file (alphabetical)
    elif order == "reversed":
        out.reverse()
    elif isinstance(order, int):
        random.Random(order).shuffle(out)
    return "".join(out).encode()


def render_zoneinfo(case):
    lows = case["zones"]
    style = case.get("zstyle", 0)
    out = []
    for i, low in enumerate(lows):
        zn = ZONE_NAMES[i % len(ZONE_NAMES)]
        node = i // len(ZONE_NAMES)
        mn = low * 4 // 5
        high = low + (low - mn)
        out.append("Node %d, zone %8s\n" % (node, zn))
        if style == 0 and i == 0:
            out.append("  per-node stats\n      nr_inactive_anon 47420\n      nr_active_anon 26\n"
                       "      nr_inactive_file 86369\n      nr_active_file 39067\n      nr_slab_reclaimable 5469\n"
                       "      nr_kernel_stack 3584\n")
        out.append("  pages free     %d\n" % (low * 3 + 7))
        if style == 0:
            out.append("        boost    0\n")
        out.append("        min      %d\n        low      %d\n        high     %d\n" % (mn, low, high))
        if style == 0:
            out.append("        promo    %d\n" % (high + (low - mn)))
        if style == 1:
            out.append("        scanned  0\n")
        out.append("        spanned  %d\n        present  %d\n        managed  %d\n" % (low * 60 + 4095,
                                                                                         low * 59 + 3998,
                                                                                         low * 58 + 3840))
        if style == 0:
            out.append("        cma      0\n")
        out.append("        protection: (0, 3026, 4306, 4306, 4306)\n")
        if style != 2:
            out.append("      nr_free_pages %d\n      nr_zone_inactive_anon 0\n      nr_zone_active_file 17\n"
                       "      nr_mlock     0\n      numa_hit     12345\n      numa_local   12345\n" % (low * 3 + 7))
            out.append("  pagesets\n")
            for cpu in (0, 1):
                out.append("    cpu: %d\n              count:    %d\n              high:     %d\n"
                           "              batch:    1\n" % (cpu, 3 + cpu, 186 + low % 50))
                if style == 0:
                    out.append("              high_min: 4\n              high_max: 30\n")
                out.append("  vm stats threshold: 10\n")
            if style == 0:
                out.append("  node_unreclaimable:  0\n  start_pfn:           %d\n" % (1 + i * 4096))
            else:
                out.append("  all_unreclaimable: 0\n  start_pfn:         %d\n  inactive_ratio:    1\n" % (1 + i * 4096))
    return "".join(out).encode()


def render_vmstat(case):
    v = case["vmstat"]
    # layout: where the swap counters sit in the file ("full" = mm/vmstat.c; the others = a trimmed table as a
    # container shim / minimal procfs serves it: counters first, last, alone, or in the other order)
    layout = v.get("layout", "full")
    head = ["nr_free_pages 16301757\n", "nr_zone_inactive_anon 47420\n", "nr_dirty 69\n", "pgpgin 1908602\n",
            "pgpgout 44592\n"]
    tail = ["pgalloc_dma 0\n", "pgfree 29383756\n", "pgfault 31266312\n", "swap_ra 0\n", "swap_ra_hit 0\n"]
    mid = []
    if v.get("swp") is not None:
        mid = [("pswpin %d\n" if i == 0 else "pswpout %d\n") % x for i, x in enumerate(v["swp"]) if x is not None]
        if layout.endswith("rev"):
            mid.reverse()
    if layout.startswith("last"):
        tail = []
    elif layout.startswith("first"):
        head = []
    elif layout.startswith("only"):
        head = tail = []
    return "".join(head + mid + tail).encode()


# ----------------------------------------------------------------------------------------------
# generation
# ----------------------------------------------------------------------------------------------

BASE_PROFILE = {"MemTotal": 16777216, "MemFree": 4194304, "MemAvailable": 9437184, "Buffers": 524288,
                "Cached": 5242880, "SReclaimable": 307200, "Shmem": 102400, "Active": 6291456, "Inactive": 3145728,
                "Slab": 614400, "Active(file)": 2621440, "Inactive(file)": 2097152, "SwapTotal": 8388604,
                "SwapFree": 6291452}


def exhaustive_cases():
    out = []
    for mask in range(1 << len(OPT10)):
        mem = {"MemTotal": BASE_PROFILE["MemTotal"], "MemFree": BASE_PROFILE["MemFree"],
               "SwapTotal": BASE_PROFILE["SwapTotal"], "SwapFree": BASE_PROFILE["SwapFree"]}
        for bit, k in enumerate(OPT10):
            if mask >> bit & 1:
                mem[k] = BASE_PROFILE[k]
        for zones in ([72, 14790, 6255], None):
            out.append(dict(mem=mem, zones=zones, zstyle=0, vmstat=dict(swp=[256450, 465508]), filler=True,
                            origin="exh"))
    mem = dict(BASE_PROFILE)
    for swp in ([5, None], [None, 7], [0, None], [None, 0]):
        for layout in ("full", "last", "first", "only", "lastrev", "onlyrev", "fullrev"):
            out.append(dict(mem=mem, zones=None, zstyle=0, vmstat=dict(swp=swp, layout=layout), filler=True, origin="exh"))
    return out


def _mag(rng, total, prof):
    """one kB magnitude for an optional key"""
    if prof == "zero":
        return 0
    if prof == "small":
        return rng.randrange(0, 200)
    if prof == "wild":
        return rng.choice([0, 1, 3, total, total + 1, 2 * total + 5, rng.randrange(0, CAP), total // 2,
                           rng.randrange(0, total + 1)])
    # typical / tb / distorted start from a plausible share of total
    r = rng.random()
    if r < 0.1:
        return 0
    if r < 0.2:
        return rng.randrange(0, 1000)
    return rng.randrange(0, total // rng.choice([2, 3, 4, 8, 50]) + 1)


def gen_case(rng):
    prof = rng.choice(["typical", "typical", "typical", "zero", "small", "tb", "tb", "distorted", "distorted",
                       "distorted", "wild"])
    if prof == "zero":
        total = rng.choice([0, 0, 1, 4096])
    elif prof == "small":
        total = rng.randrange(0, 400)
    elif prof == "tb":
        total = rng.randrange(2**30, CAP)
    else:
        total = rng.choice([65536, 524288, 4194304, 16777216, 66023596, rng.randrange(1, 2**28)])
    free = min(_mag(rng, total, prof), total) if prof != "wild" else _mag(rng, total, prof)
    mem = {"MemTotal": total, "MemFree": free}
    p_present = rng.choice([0.5, 0.8, 0.95, 1.0, 1.0])
    for k in OPT10:
        if rng.random() < p_present:
            mem[k] = _mag(rng, total, prof)
    if "MemAvailable" in mem and prof in ("typical", "tb") and rng.random() < 0.8:
        mem["MemAvailable"] = rng.randrange(0, total + 1)     # a kernel's own estimate is normally in range
    # Active(file)/Inactive(file) arrived together (2.6.28); keep them mostly paired
    if ("Active(file)" in mem) != ("Inactive(file)" in mem) and rng.random() < 0.7:
        for k in ("Active(file)", "Inactive(file)"):
            mem.setdefault(k, _mag(rng, total, prof))
    # legacy kernels: old names instead of (or, rarely, next to) the modern ones
    if rng.random() < 0.15:
        for k in LEGACY:
            if rng.random() < 0.85:
                mem[k] = _mag(rng, total, prof)
        for k in ("Shmem", "Inactive", "MemAvailable", "Active(file)", "Inactive(file)", "SReclaimable"):
            if rng.random() < 0.85:
                mem.pop(k, None)
    if rng.random() < 0.8:
        st = _mag(rng, max(total, 1), prof if prof != "distorted" else "typical")
        sf = rng.randrange(0, st + 1) if rng.random() < 0.93 else st + rng.randrange(1, 1000)
        mem["SwapTotal"], mem["SwapFree"] = st, sf
        if rng.random() < 0.06:
            # a meminfo that lists only one line of the pair (a container runtime filtering what it shows): the two
            # figures must still come from one and the same source
            mem.pop(rng.choice(["SwapTotal", "SwapFree"]))
    zones = None
    if rng.random() < 0.8:
        # a quarter of the machines have several NUMA nodes: the zone names repeat, once per node
        n = rng.randrange(0, 7) if rng.random() < 0.75 else rng.randrange(7, 25)
        zones = [rng.choice([0, 32, rng.randrange(0, 100), rng.randrange(0, 100000)]) for _ in range(n)]
    if prof == "distorted":
        kind = rng.choice(["cb_gt_total", "avail_gt_total", "avail_zero", "total_zero", "free_gt_total",
                           "wmark_huge", "avail_gt_total_free_small", "cb_gt_total"])
        if kind == "cb_gt_total":
            mem["Cached"] = rng.randrange(total // 2, 2 * total + 2)
            mem["Buffers"] = rng.randrange(total // 2 + 1, 2 * total + 2)
        elif kind == "avail_gt_total":
            mem["MemAvailable"] = total + rng.randrange(1, total + 2)
        elif kind == "avail_gt_total_free_small":
            mem["MemAvailable"] = total * rng.choice([2, 10, 1000]) + 1
            mem["MemFree"] = rng.randrange(0, min(total, 100) + 1)
        elif kind == "avail_zero":
            mem["MemAvailable"] = 0
        elif kind == "total_zero":
            mem["MemTotal"] = 0
            if rng.random() < 0.5:
                mem["MemFree"] = 0
        elif kind == "free_gt_total":
            mem["MemFree"] = total + rng.randrange(1, total + 2)
        elif kind == "wmark_huge":
            mem.pop("MemAvailable", None)
            for k in ("Active(file)", "Inactive(file)", "SReclaimable"):
                mem.setdefault(k, _mag(rng, total, "typical"))
            zones = [rng.randrange(total // 8 + 1, total + 2) for _ in range(rng.randrange(1, 5))]
    for k in list(mem):
        mem[k] = min(mem[k], CAP)
    vm = None
    if rng.random() < 0.9:
        swp = None
        if rng.random() < 0.85:
            swp = [rng.choice([0, rng.randrange(0, 10**6), rng.randrange(0, 2**38)]),
                   rng.choice([0, rng.randrange(0, 10**6), rng.randrange(0, 2**38)])]
        if swp is not None and rng.random() < 0.12:
            swp[rng.randrange(2)] = None          # a table that carries only one of the two counters
        vm = dict(swp=swp)
        if rng.random() < 0.3:
            vm["layout"] = rng.choice(["last", "first", "only", "lastrev", "onlyrev", "fullrev"])
    if zones is not None:
        zones = [min(z, 2**38) for z in zones]
    return dict(mem=mem, zones=zones, zstyle=rng.choice([0, 0, 1, 2]), vmstat=vm, filler=rng.random() < 0.8,
                origin=prof, absent_as=rng.choice(["enoent", "enoent", "eacces"]),
                line_order=rng.choice([None] * 8 + ["sorted", "reversed", rng.randrange(10**6)]),
                changing=rng.random() < 0.12)


# ----------------------------------------------------------------------------------------------
# oracle
# ----------------------------------------------------------------------------------------------

class _SysInfo(ctypes.Structure):
    _fields_ = [("uptime", ctypes.c_long), ("loads", ctypes.c_ulong * 3), ("totalram", ctypes.c_ulong),
                ("freeram", ctypes.c_ulong), ("sharedram", ctypes.c_ulong), ("bufferram", ctypes.c_ulong),
                ("totalswap", ctypes.c_ulong), ("freeswap", ctypes.c_ulong), ("procs", ctypes.c_ushort),
                ("pad", ctypes.c_ushort), ("totalhigh", ctypes.c_ulong), ("freehigh", ctypes.c_ulong),
                ("mem_unit", ctypes.c_uint), ("_f", ctypes.c_char * 64)]


_libc = None


def sysinfo_swap():
    """(total_bytes, free_bytes) straight from sysinfo(2)"""
    global _libc
    if _libc is None:
        _libc = ctypes.CDLL(None, use_errno=True)
    si = _SysInfo()
    if _libc.sysinfo(ctypes.byref(si)) != 0:
        raise OSError(ctypes.get_errno(), "sysinfo")
    return si.totalswap * si.mem_unit, si.freeswap * si.mem_unit


def pct_ok(got, num, den):
    """got == num/den*100 rounded to one decimal (either tie direction); den == 0 -> anything in [0,100]"""
    if not isinstance(got, float) or got != got:
        return False
    if den == 0:
        return 0.0 <= got <= 100.0
    want = Fraction(100 * num, den)
    # half a unit of the last decimal, plus what a double cannot represent at this magnitude (percentages of 1e8 and more
    # arise when a container reports free/available far above total)
    if abs(Fraction(got) - want) > Fraction(1, 20) + Fraction(1, 10**9) + abs(want) * Fraction(1, 2**50):
        return False
    return round(got, 1) == got


_WORD = {n: re.compile(r"(?<![A-Za-z_])%s(?![A-Za-z_])" % n)
         for n in ("total", "available", "percent", "used", "free", "active", "inactive", "buffers", "cached",
                   "shared", "slab", "sin", "sout")}


def named(wlist):
    """metric names mentioned by the RuntimeWarnings"""
    text = " | ".join(str(w.message) for w in wlist if issubclass(w.category, RuntimeWarning))
    return {n for n, rx in _WORD.items() if rx.search(text)}, text


def oracle_vm(case, pagesize):
    """-> dict(exact={field: set of acceptable (value, warned)}, ...) computed from the statement only"""
    m = case["mem"]

    def B(k):
        return m[k] * 1024

    total, free = B("MemTotal"), B("MemFree")
    branches = set()
    acc = {}           # field -> list of acceptable (value, warned?) ; warned None = either
    acc["total"] = [(total, False)]
    acc["free"] = [(free, False)]
    acc["buffers"] = [(B("Buffers"), False)] if "Buffers" in m else [(0, True)]
    if "Cached" in m:
        acc["cached"] = [(B("Cached") + (B("SReclaimable") if "SReclaimable" in m else 0), False)]
    else:
        acc["cached"] = [(0, True)]
    if "Shmem" in m:
        acc["shared"] = [(B("Shmem"), False)]
    elif "MemShared" in m:
        acc["shared"] = [(B("MemShared"), False), (0, True)]
        branches.add("fallback:legacy_shared")
    else:
        acc["shared"] = [(0, True)]
    acc["active"] = [(B("Active"), False)] if "Active" in m else [(0, True)]
    if "Inactive" in m:
        acc["inactive"] = [(B("Inactive"), False)]
    else:
        trio = [k for k in ("Inact_dirty", "Inact_clean", "Inact_laundry") if k in m]
        if trio:
            acc["inactive"] = [(sum(B(k) for k in trio), False), (0, True)]
            if len(trio) == 3:
                branches.add("fallback:legacy_inactive")
        else:
            acc["inactive"] = [(0, True)]
    acc["slab"] = [(B("Slab"), None)] if "Slab" in m else [(0, None)]
    missing = {f for f, alts in acc.items() if alts == [(0, True)]}
    if missing or "Slab" not in m:
        branches.add("fallback:missing_field_zero")

    # available: kernel's estimate, or the documented fallback estimate when absent or zero
    ma = m.get("MemAvailable")
    if ma:
        cands, abranch = [ma * 1024], "kernel"
    else:
        abranch = "absent" if ma is None else "zero"
        branches.add("fallback:available_" + abranch)
        if all(k in m for k in ("Active(file)", "Inactive(file)", "SReclaimable")) and case["zones"] is not None:
            wl = sum(case["zones"]) * pagesize
            pc = B("Active(file)") + B("Inactive(file)")
            sr = B("SReclaimable")
            e = free - wl
            e += pc - min(pc // 2, wl)          # pc, sr are multiples of 1024: halves are exact
            e += sr - min(sr // 2, wl)
            cands = [e]
            abranch += ":watermark_estimate"
            branches.add("fallback:watermark_estimate")
        else:
            c = B("Cached") if "Cached" in m else 0
            cands = [free + c]
            if "SReclaimable" in m:
                cands.append(free + c + B("SReclaimable"))
            abranch += ":free_plus_cached"
            branches.add("fallback:free_plus_cached")
    if all(e < 0 for e in cands):
        branches.add("clamp:estimate_negative")
    elif all(e > total for e in cands):
        branches.add("clamp:estimate_gt_total")
    return dict(acc=acc, total=total, free=free, cands=cands, abranch=abranch, branches=branches)


def check_vm(case, got, wlist, pagesize, acc):
    o = oracle_vm(case, pagesize)
    viols = []
    names, text = named(wlist)
    total, free = o["total"], o["free"]
    ctx = f"mem={case['mem']} zones={case['zones']} got={got!r} warnings={text!r}"

    vals = {}
    for f in ("total", "available", "percent", "used", "free", "active", "inactive", "buffers", "cached", "shared",
              "slab"):
        try:
            vals[f] = getattr(got, f)
        except AttributeError:
            viols.append((f"vm_field_missing:{f}", f"result has no field {f!r}: {ctx}"))
            return viols, o["branches"]
        if f != "percent" and (type(vals[f]) is not int):
            viols.append((f"vm_field_type:{f}", f"{f} is {type(vals[f]).__name__}, bytes must be int: {ctx}"))
            return viols, o["branches"]

    # exact kernel figures (and the 0-with-warning convention)
    for f, alts in o["acc"].items():
        acc.count("field_comparisons")
        warned = f in names
        ok = any(vals[f] == v and (w is None or w == warned) for v, w in alts)
        if not ok:
            if any(vals[f] == v for v, w in alts):
                kind = "vm_warning_missing" if not warned else "vm_warning_extra"
                viols.append((f"{kind}:{f}", f"{f}={vals[f]} warned={warned}, acceptable (value, warned)={alts}: {ctx}"))
            else:
                viols.append((f"vm_field_wrong:{f}", f"{f}={vals[f]}, acceptable (value, warned)={alts}: {ctx}"))
    acc.count("warning_sets_compared")
    for f in ("total", "free", "used", "percent"):
        if f in names:
            viols.append((f"vm_warning_extra:{f}", f"warning names {f}: {ctx}"))

    # used = total - free - cached - buffers (total - free when negative), on the (validated) reported figures
    acc.count("field_comparisons")
    cached = vals["cached"] if any(vals["cached"] == v for v, _ in o["acc"]["cached"]) else o["acc"]["cached"][0][0]
    buffers = vals["buffers"] if any(vals["buffers"] == v for v, _ in o["acc"]["buffers"]) else o["acc"]["buffers"][0][0]
    used = total - free - cached - buffers
    if used < 0:
        used = total - free
        o["branches"].add("clamp:used_negative")
    if vals["used"] != used:
        br = "clamp" if "clamp:used_negative" in o["branches"] else "plain"
        viols.append((f"vm_used_wrong:{br}", f"used={vals['used']} want {used}: {ctx}"))

    # available
    acc.count("field_comparisons")
    avail = vals["available"]
    cands = o["cands"]
    in_range = [e for e in cands if 0 <= e <= total]
    if in_range:
        if avail not in in_range:
            viols.append((f"vm_available_wrong:{o['abranch']}",
                          f"available={avail}, estimate(s) {cands} lie in [0,total={total}] and must be reported "
                          f"as they are: {ctx}"))
    elif free <= total:
        acc.count("available_range_assertions")
        if not 0 <= avail <= total:
            viols.append((f"vm_available_out_of_range:{o['abranch']}",
                          f"available={avail} not in [0,total={total}] (estimate(s) {cands}): {ctx}"))
    else:
        acc.count("available_unconstrained_free_gt_total")
    if "available" in names and case["mem"].get("MemAvailable") and in_range:
        viols.append(("vm_warning_extra:available", f"kernel estimate in range but warning names available: {ctx}"))

    # percent = (total - available) / total * 100, one decimal, consistent with the *returned* available
    acc.count("field_comparisons")
    if not pct_ok(vals["percent"], total - avail, total):
        viols.append(("vm_percent_inconsistent",
                      f"percent={vals['percent']!r} but (total-available)/total*100 = "
                      f"{(float(Fraction(100 * (total - avail), total)) if total else 'undefined')}: {ctx}"))
    elif free <= total and not 0.0 <= vals["percent"] <= 100.0:
        viols.append(("vm_percent_out_of_range", f"percent={vals['percent']!r} with free <= total: {ctx}"))

    for b in o["branches"]:
        acc.count("branch:" + b)
        acc.count("clamp_branches" if b.startswith("clamp") else "fallback_branches")
    return viols, o["branches"]


def check_swap(case, got, wlist, pagesize, sys_before, sys_after, acc):
    m = case["mem"]
    viols = []
    branches = set()
    names, text = named(wlist)
    nrw = sum(1 for w in wlist if issubclass(w.category, RuntimeWarning))
    ctx = (f"SwapTotal={m.get('SwapTotal')} SwapFree={m.get('SwapFree')} vmstat={case['vmstat']} got={got!r} "
           f"warnings={text!r}")
    vals = {}
    for f in ("total", "used", "free", "percent", "sin", "sout"):
        try:
            vals[f] = getattr(got, f)
        except AttributeError:
            return [(f"swap_field_missing:{f}", f"result has no field {f!r}: {ctx}")], branches
        if f != "percent" and type(vals[f]) is not int:
            return [(f"swap_field_type:{f}", f"{f} is {type(vals[f]).__name__}: {ctx}")], branches
    if "SwapTotal" in m and "SwapFree" in m:
        total, free = m["SwapTotal"] * 1024, m["SwapFree"] * 1024
        acc.count("swap_comparisons", 2)
        if vals["total"] != total:
            viols.append(("swap_field_wrong:total", f"total want {total}: {ctx}"))
        if vals["free"] != free:
            viols.append(("swap_field_wrong:free", f"free want {free}: {ctx}"))
    else:
        branches.add("fallback:swap_sysinfo")
        acc.count("swap_sysinfo_comparisons")
        total = sys_before[0]
        lo, hi = sorted((sys_before[1], sys_after[1]))
        if vals["total"] not in (sys_before[0], sys_after[0]):
            viols.append(("swap_field_wrong:total_sysinfo", f"total want sysinfo {sys_before[0]}: {ctx}"))
        if not lo <= vals["free"] <= hi:
            viols.append(("swap_field_wrong:free_sysinfo", f"free want sysinfo [{lo},{hi}]: {ctx}"))
        total, free = vals["total"], vals["free"]
    acc.count("swap_comparisons", 2)
    if vals["used"] != total - free:
        viols.append(("swap_used_wrong", f"used={vals['used']} want total-free={total - free}: {ctx}"))
    if not pct_ok(vals["percent"], total - free, total):
        viols.append(("swap_percent_wrong", f"percent={vals['percent']!r} want (total-free)/total*100: {ctx}"))
    elif free <= total and not 0.0 <= vals["percent"] <= 100.0:
        viols.append(("swap_percent_out_of_range", f"percent={vals['percent']!r} with free <= total: {ctx}"))
    vm = case["vmstat"]
    acc.count("swap_comparisons", 2)
    acc.count("warning_sets_compared")
    if vm is not None and vm.get("swp") is not None and None in vm["swp"] and vm["swp"] != [None, None]:
        # one counter of the two: the metric whose counter is absent is 0 and a RuntimeWarning names it; the other one is
        # either its counter, or - the documented joint fallback - 0 with the warning naming it as well
        branches.add("fallback:one_swap_counter_unavailable")
        for f, x in zip(("sin", "sout"), vm["swp"]):
            if x is None:
                if vals[f] != 0:
                    viols.append(("swap_sin_sout_wrong:lone_counter", f"{f} unavailable, want 0: {ctx}"))
                if f not in names:
                    viols.append(("swap_warning_missing:lone_counter", f"{f} unavailable but no RuntimeWarning names it: {ctx}"))
            elif not (vals[f] == x * pagesize or (vals[f] == 0 and f in names)):
                viols.append(("swap_sin_sout_wrong:lone_counter", f"{f} want {x * pagesize} (or 0 with a warning naming it): {ctx}"))
    elif vm is not None and vm.get("swp") is not None and vm["swp"] != [None, None]:
        want = (vm["swp"][0] * pagesize, vm["swp"][1] * pagesize)
        if (vals["sin"], vals["sout"]) != want:
            viols.append(("swap_sin_sout_wrong", f"sin/sout want {want}: {ctx}"))
        if nrw:
            viols.append(("swap_warning_extra", f"nothing is missing but a RuntimeWarning was issued: {ctx}"))
    else:
        branches.add("fallback:sin_sout_unavailable")
        if (vals["sin"], vals["sout"]) != (0, 0):
            viols.append(("swap_sin_sout_wrong:unavailable", f"sin/sout want (0, 0): {ctx}"))
        if not {"sin", "sout"} <= names:
            viols.append(("swap_warning_missing", f"sin/sout unavailable but no RuntimeWarning names them: {ctx}"))
    for b in branches:
        acc.count("branch:" + b)
        acc.count("fallback_branches")
    return viols, branches


# ----------------------------------------------------------------------------------------------
# execution
# ----------------------------------------------------------------------------------------------

_env = {}


def setup():
    if _env:
        return _env
    from vlib import psu, vkernel
    ps = psu.load()
    ps.PROCFS_PATH = "/vproc"
    _env.update(ps=ps, vkernel=vkernel, pagesize=os.sysconf("SC_PAGE_SIZE"))
    return _env


def run_case(case, acc):
    env = setup()
    ps, vkernel, pagesize = env["ps"], env["vkernel"], env["pagesize"]
    fs = vkernel.MemFS()
    first = render_meminfo(case)
    if case.get("changing"):
        # the kernel's figures move on between two reads: one result must describe one snapshot - every read after the
        # first within a call sees a machine whose memory was meanwhile eaten up
        later = first
        for key in (b"MemFree:", b"MemAvailable:", b"Cached:", b"SwapFree:", b"Active(file):", b"Inactive(file):", b"SReclaimable:"):
            later = re.sub(rb"(?m)^(" + re.escape(key) + rb"\s+)\d+", lambda m_: m_.group(1) + b"7", later)
        reads = [0]

        def serve():
            reads[0] += 1
            return first if reads[0] == 1 else later
        fs.put("meminfo", vkernel.F(serve))
        acc.count("cases_with_meminfo_changing_between_reads")
    else:
        reads = None
        fs.put("meminfo", first)
    if case["zones"] is not None:
        fs.put("zoneinfo", render_zoneinfo(case))
    if case["vmstat"] is not None:
        fs.put("vmstat", render_vmstat(case))
    vk = vkernel.VK()
    vk.mount("/vproc", fs)
    if case.get("absent_as") == "eacces":
        # an absent table served as "present but not for you" (restricted container) instead of ENOENT
        denied = {"/vproc/" + n for n, v in (("zoneinfo", case["zones"]), ("vmstat", case["vmstat"])) if v is None}
        if denied:
            acc.count("absent_tables_served_as_eacces", len(denied))
            vk.rules.append(lambda kind, path: PermissionError(13, "Permission denied", path)
                            if kind == "open" and path in denied else None)
    viols = []
    branches = set()
    with vk:
        with warnings.catch_warnings(record=True) as wl:
            _record_all()
            # a kernel with 16 KiB / 64 KiB pages (arm64, ppc64): the zone watermarks are counted in *its* pages
            vm_pagesize = {"0": 16384, "1": 65536}.get(harness.chash(case)[-6], pagesize)
            import psutil._pslinux as _pl
            _old_ps = _pl.PAGESIZE
            _pl.PAGESIZE = vm_pagesize
            if vm_pagesize != pagesize:
                acc.count("cases_on_a_kernel_with_large_pages")
            try:
                got = ps.virtual_memory()
            except Exception as e:  # noqa: BLE001
                got = None
                viols.append((f"vm_exception:{type(e).__name__}", f"virtual_memory() raised {e!r}: mem={case['mem']} "
                              f"zones={case['zones']}"))
            finally:
                _pl.PAGESIZE = _old_ps
        if got is not None:
            v, b = check_vm(case, got, wl, vm_pagesize, acc)
            if vm_pagesize != pagesize:
                v = [(m + ":large_pages", d + f" [page size {vm_pagesize}]") for m, d in v]
            viols += v
            branches |= b
        if reads is not None:
            reads[0] = 0                 # swap_memory() is a call of its own: its first read is the current snapshot again
        sys_before = sysinfo_swap()
        with warnings.catch_warnings(record=True) as wl:
            _record_all()
            try:
                got = ps.swap_memory()
            except Exception as e:  # noqa: BLE001
                got = None
                viols.append((f"swap_exception:{type(e).__name__}", f"swap_memory() raised {e!r}: mem={case['mem']} "
                              f"vmstat={case['vmstat']}"))
        sys_after = sysinfo_swap()
        if got is not None:
            v, b = check_swap(case, got, wl, pagesize, sys_before, sys_after, acc)
            viols += v
            branches |= b
    if not any(k == "read" and p == "/vproc/meminfo" for k, p in vk.log):
        acc.inconclusive = "virtual_memory() did not read the generated /vproc/meminfo"
    nontrivial = any(b.startswith("clamp") or b.startswith("fallback:available") or b.startswith("fallback:legacy")
                     or b in ("fallback:swap_sysinfo", "fallback:sin_sout_unavailable") for b in branches)
    acc.case(case, nontrivial, viols)


def _record_all():
    """record every warning - except what the interpreter's own options turned into errors (-bb), which stays an error"""
    warnings.simplefilter("always")
    if sys.flags.bytes_warning >= 2:
        warnings.simplefilter("error", BytesWarning)


def run_threads_case(case, acc):
    """virtual_memory() and swap_memory() from four threads at once over static files: each answer = the lone caller's."""
    from vlib import concur
    env = setup()
    ps, vkernel = env["ps"], env["vkernel"]
    fs = vkernel.MemFS()
    fs.put("meminfo", render_meminfo(case))
    if case["zones"] is not None:
        fs.put("zoneinfo", render_zoneinfo(case))
    if case["vmstat"] is not None:
        fs.put("vmstat", render_vmstat(case))
    vk = vkernel.VK()
    vk.mount("/vproc", fs)
    with vk, warnings.catch_warnings():
        warnings.simplefilter("ignore")
        jobs = {"virtual_memory": ps.virtual_memory, "swap_memory": ps.swap_memory}
        _base, errors, wrong = concur.concurrent_vs_sequential(jobs, case.get("tseed", 0), calls=60)
    acc.count("concurrent_calls_compared", 4 * 60)
    acc.case(dict(case, threads=True), True, concur.violations(errors, wrong))


def plan(tier, seed):
    n = 96000 if tier == "quick" else 3_200_000
    shards = [dict(kind="exh")]
    for s, c in harness.split_range(n, 15 if tier == "quick" else 48):
        shards.append(dict(kind="gen", seed=seed, start=s, count=c))
    shards.append(dict(kind="threads", seed=seed, count=40 if tier == "quick" else 1500))
    # the same calls in an interpreter started with -bb (str() of a bytes object is an error there): "the calls still succeed"
    shards.append(dict(kind="exh", pyflags=["-bb"]))
    for s, c in harness.split_range(6000 if tier == "quick" else 200_000, 2 if tier == "quick" else 6):
        shards.append(dict(kind="gen", seed=seed, start=n + s, count=c, pyflags=["-bb"]))
    return shards


def run_shard(shard):
    acc = harness.Acc()
    setup()
    if shard.get("pyflags"):
        if sys.flags.bytes_warning < 2:
            raise RuntimeError("the -bb shard runs without the flag: the interpreter option did not take effect")
        acc.count("shards_run_under_python_bb")
    if shard["kind"] == "threads":
        for i in range(shard["count"]):
            case = gen_case(harness.rng_for(shard["seed"], "c08t", i))
            case["tseed"] = shard["seed"] * 7919 + i
            run_threads_case(case, acc)
    elif shard["kind"] == "exh":
        for case in exhaustive_cases():
            run_case(case, acc)
        acc.count("exhaustive_subset_cases", acc.evals)
        acc.exhaustive = True
        acc.extra["exhaustive_part"] = ("all 2**10 subsets of the optional meminfo keys x zoneinfo present/absent, one "
                                        "in-range magnitude profile; the other shards are random")
    elif shard["kind"] == "gen":
        for i in range(shard["start"], shard["start"] + shard["count"]):
            rng = harness.rng_for(shard["seed"], "c08", i)
            run_case(gen_case(rng), acc)
    elif shard["kind"] == "cases":
        for case in shard["cases"]:
            if case.get("threads"):
                run_threads_case(case, acc)
            else:
                run_case(case, acc)
    return acc.result()
