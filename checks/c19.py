"""C19 - sensors, battery, CPU frequency/count, boot time mirror the kernel's tables.

Workload: generated /sys trees (real temp directories behind the vkernel prefix redirect) and generated
/proc/cpuinfo + /proc/stat (MemFS at /vproc) under the real psutil functions.
Oracle: the statement's arithmetic on the generator's numbers (exact rationals, compared with a relative
tolerance of 1e-12) - never a re-parse of the rendered files.

Mechanism keys that fire on the pinned tree (each reproduced un-shimmed with unshare -m + mount --bind):
  thermal_trip_point_rescaled            thermal-zone thresholds divided by 1000 once per trip point iterated
  fans_device_nested_chip_dropped_when_another_chip_is_flat
                                         hwmonN/device/fanM_* is only globbed when no chip has hwmonN/fanM_*
  zero_threshold_treated_as_missing      tempN_max/crit == 0 is overwritten by the other threshold (Celsius only;
                                         the Fahrenheit call of the same layout keeps it: 32.0)
  battery_exception:FileNotFoundError:no_power_supply_class_dir
                                         no /sys/class/power_supply at all -> exception instead of None
  cpu_freq_current_off_by_1khz:cpuinfo_mhz_float_truncation
                                         int(float("1034.091") * 1000) == 1034090 -> 1034.09 MHz for 1034091 kHz
Everything else (temp_current_wrong, temp_threshold_wrong, battery_*_wrong, cpu_freq_mean_wrong, ...) is silent.
"""
import errno
import json
import os
import shutil
import subprocess
import sys
import tempfile
from fractions import Fraction

from vlib import harness

ID = "C19"
LEVEL = "exploration"
TECHNIQUE = ("runtime monitor: generated hwmon/thermal/power_supply/cpu sysfs trees + cpuinfo/stat under the real "
             "psutil functions, ground-truth oracle; three import-time cpu_freq variants x hash seeds; "
             "un-shimmed mount-namespace replay of a sample")
RULE = ("one case = one generated layout of one domain: sens (0-5 hwmon chips, either nesting, 0-8 temp/fan sensors, "
        "any subset of _label/_max/_crit, non-numeric/unreadable thresholds, missing/unreadable _input, coretemp "
        "duplicates), therm (hwmon without temperatures; thermal zones with 0-6 trip points in any order), bat "
        "(power_supply with every alternative file name, AC0/AC/other/absent adapter, status strings, zero rate), "
        "freq (cpufreq/policy* | cpu*/cpufreq | cpuinfo only - per interpreter variant; offline CPUs; "
        "scaling_cur_freq missing), cpu (cpuinfo styles x topology files x offline CPUs x sysconf failing; "
        "btime/ctxt/intr/softirq). non-trivial = >=2 sensors with a missing/odd optional file or unreadable input, "
        "or a zone with >=2 trip points, or an alternative battery/adapter file name, or >=2 CPUs with an offline "
        "CPU / missing scaling_cur_freq / fallback path; distinct by case hash")
ASSUMPTIONS = [
    "hwmon/thermal/power_supply/cpufreq/topology attribute names and units transcribed from Documentation/hwmon/"
    "sysfs-interface, ABI/testing/sysfs-class-thermal, sysfs-class-power, admin-guide/pm/cpufreq, cputopology",
    "every hwmon chip with fans has a 'name' attribute next to its sensor files; temperature-only chips may lack a readable "
    "one (old drivers): the statement is silent about the key such a chip's sensors are reported under, so only the "
    "entries of the named chips are decided (exactly their own sensors, nothing leaked from the nameless chip) and the "
    "call must not fail",
    "a reading file is 'unreadable' when open()/read() fails with an OSError (EACCES at open, EIO/ENODATA at read, "
    "or the path is a directory); non-numeric *_input content is not generated (the kernel never prints it)",
    "non-numeric or unreadable threshold files count as missing thresholds",
    "order of sensors inside one chip name is not asserted (statement is silent)",
    "with several batteries a result matching any one of them is accepted; an adapter named other than AC0/AC or a "
    "status other than Discharging/Charging/Full makes power_plugged ambiguous and both readings are accepted",
    "time_to_empty_now only: value, value*60 and UNKNOWN are all accepted (unit not stated); secsleft may be "
    "rounded either way (+-1 s)",
    "one cpufreq policy per CPU; an offline CPU whose policy directory remains (reads fail EBUSY) may be reported "
    "as zeros or omitted; cpuinfo 'cpu MHz' == scaling_cur_freq whenever both exist (precedence undocumented)",
    "the logical-count fallbacks are reached by making os.sysconf('SC_NPROCESSORS_ONLN') raise ValueError",
    "coretemp chips that exist only under /sys/devices/platform (not in /sys/class/hwmon), and thermal zones next "
    "to hwmon temperatures, may be reported or not (statement is silent); duplicates must not appear twice",
    "min/max of cpu_freq in the cpuinfo-only variant are not asserted",
    "a threshold file containing 0 is a present threshold (0 degrees C), not a missing one; chips may use different "
    "nestings on one machine (legacy hwmon_device_register drivers next to *_with_groups drivers); a kernel "
    "without the power_supply class has no /sys/class/power_supply directory (layout 'psdir absent')",
    "arbitrary kHz values are generated (not only exactly representable ones): the 1e-12 tolerance decides",
]
REQUIRED_COUNTERS = [
    "temp_sensors_compared", "fan_sensors_compared", "thermal_zones_compared", "battery_results_compared",
    "cpufreq_entries_compared", "cpu_count_comparisons", "stat_comparisons", "unreadable_inputs_skipped",
    "fahrenheit_values_compared", "freq_cases:cpuinfo", "freq_cases:policy", "freq_cases:percpu",
]

VARIANTS = ["cpuinfo", "policy", "percpu"]
TOL = Fraction(1, 10**12)
SYS = dict(hwmon="/sys/class/hwmon", thermal="/sys/class/thermal", power_supply="/sys/class/power_supply",
           cpu="/sys/devices/system/cpu", platform="/sys/devices/platform")
CHIP_NAMES = ["coretemp", "nvme", "k10temp", "acpitz", "amdgpu", "nct6775", "dell_smm", "thinkpad", "applesmc",
              "iwlwifi_1", "pch_cannonlake", "BAT0"]
TEMP_LABELS = ["Core 0", "Core 1", "Package id 0", "Tctl", "Tdie", "Composite", "Sensor 1", "edge", "junction",
               "SYSTIN", "CPUTIN", "TC0P"]
FAN_LABELS = ["cpu_fan", "Processor Fan", "fan1", "Left side", "Exhaust"]
ZONE_TYPES = ["acpitz", "x86_pkg_temp", "INT3400 Thermal", "iwlwifi_1", "pch_skylake", "cpu-thermal", "B0D4"]
TRIP_TYPES = ["critical", "high", "passive", "active", "hot"]
NONNUM = ["N/A\n", "\n", "", "unknown\n", "0x1f\n", "85C\n"]
BAD_INPUT = ["missing", "eacces", "eio", "enodata", "isdir", "empty", "garbage"]     # the last two: readable, but no reading in it
STATUSES = ["Discharging", "Charging", "Full", "Not charging", "Unknown"]


# ----------------------------------------------------------------------------------------------------
# generators (every random choice from rng; cases are plain JSON)
# ----------------------------------------------------------------------------------------------------

def g_mdeg(rng):
    r = rng.random()
    if r < 0.1:
        return rng.choice([1, 999, 1000, 100000, 125000, -1, -40000, 20500, 33300])
    return rng.randrange(-20000, 120000)


def g_thresh(rng):
    st = rng.choices(["ok", "absent", "text", "eacces"], [55, 30, 10, 5])[0]
    d = dict(st=st)
    if st == "ok":
        d["v"] = 0 if rng.random() < 0.03 else rng.choice([rng.randrange(40, 120) * 1000, rng.randrange(30000, 130000)])
    elif st == "text":
        d["text"] = rng.choice(NONNUM)
    else:
        d["v"] = 77000     # content of the unreadable file (never seen)
    return d


def g_input(rng, gen, pbad=0.15):
    if rng.random() < pbad:
        return dict(st=rng.choice(BAD_INPUT), v=gen(rng))
    return dict(st="ok", v=gen(rng))


def g_chip(rng, n, allow_link=True):
    chip = dict(n=n, name=rng.choice(CHIP_NAMES), nest=rng.choice(["direct", "direct", "device"]), link=None,
                temps=[], fans=[], noise=rng.random() < 0.5)
    if allow_link and rng.random() < 0.2:
        chip.update(name="coretemp", nest="direct", link=rng.randrange(0, 2))
    ntemp = rng.choice([0, 1, 2, 2, 3, 4, 8])
    nfan = rng.choice([0, 0, 0, 1, 2, 3, 8]) if chip["link"] is None else 0
    idxs = rng.sample(range(1, 13), min(ntemp, 12))
    for i in sorted(idxs):
        chip["temps"].append(dict(i=i, input=g_input(rng, g_mdeg),
                                  label=rng.choice(TEMP_LABELS) if rng.random() < 0.6 else None,
                                  max=g_thresh(rng), crit=g_thresh(rng), noise=rng.random() < 0.4))
    if chip["link"] is None and ntemp and rng.random() < 0.1:
        # a chip whose 'name' attribute is missing or unreadable (temperature-only: see ASSUMPTIONS)
        chip["name_st"] = rng.choice(["missing", "missing", "eacces", "eio"])
        nfan = 0
    for i in sorted(rng.sample(range(1, 12), nfan)):
        chip["fans"].append(dict(i=i, input=g_input(rng, lambda r: r.choice([0, r.randrange(0, 12000)])),
                                 label=rng.choice(FAN_LABELS) if rng.random() < 0.5 else None,
                                 noise=rng.random() < 0.4))
    return chip


def g_zone(rng, n):
    ntrip = rng.choice([0, 1, 2, 2, 3, 4, 5, 6, 11, 12, 14])        # (ACPI zones may carry a dozen trip points: two-digit indexes)
    types = []
    pool = list(TRIP_TYPES)
    for _ in range(ntrip):
        t = rng.choice(pool)
        if t in ("critical", "high"):
            pool.remove(t)              # at most one of each (which one wins would be unspecified)
        types.append(t)
    trips = []
    for k, t in enumerate(types):
        st = rng.choices(["ok", "text", "missing"], [88, 7, 5])[0]
        tp = dict(k=k, type=t, st=st, hyst=rng.random() < 0.5)
        if st == "text":
            tp["text"] = rng.choice(NONNUM)
        else:
            tp["v"] = 0 if rng.random() < 0.02 else rng.choice([rng.randrange(40, 120) * 1000, rng.randrange(30000, 130000)])
        trips.append(tp)
    return dict(n=n, type=rng.choice(ZONE_TYPES), temp=g_input(rng, g_mdeg, 0.12), trips=trips)


def gen_sens(rng):
    nchips = rng.choice([0, 1, 1, 2, 2, 3, 4, 5])
    ns = rng.sample(range(0, 12), nchips)
    case = dict(dom="sens", hwmon="present", chips=[g_chip(rng, n) for n in ns], platform_only=[], zones=[])
    if nchips == 0 and rng.random() < 0.5:
        case["hwmon"] = "absent"
    has_temp_files = any(c["temps"] for c in case["chips"])
    if has_temp_files and rng.random() < 0.12:
        c = g_chip(rng, rng.choice([n for n in range(12, 16)]), allow_link=False)
        c.update(name="coretemp", nest="direct", link=3, fans=[])
        case["platform_only"].append(c)
    if has_temp_files and rng.random() < 0.2:
        case["zones"] = [g_zone(rng, n) for n in range(rng.choice([1, 2]))]
    return case


def gen_therm(rng):
    nz = rng.choice([0, 1, 1, 2, 3, 4])
    case = dict(dom="therm", hwmon=rng.choice(["absent", "absent", "empty", "fanonly"]),
                zones=[g_zone(rng, n) for n in sorted(rng.sample(range(0, 10), nz))],
                cooling=rng.random() < 0.5)
    return case


def gen_bat(rng):
    case = dict(dom="bat", psdir="present", bats=[], ac=None, others=[])
    r = rng.random()
    if r < 0.04:
        case["psdir"] = "absent"
        return case
    nb = rng.choices([0, 1, 2], [15, 75, 10])[0]
    names = rng.sample(["BAT0", "BAT1", "BATT", "battery", "axp20x-battery", "BATC"], nb)
    discharging = rng.random() < 0.5
    acr = rng.random()
    if acr < 0.3:
        case["ac"] = dict(name="AC0", online=0 if discharging else 1)
    elif acr < 0.5:
        case["ac"] = dict(name="AC", online=0 if discharging else 1)
    elif acr < 0.65:
        case["ac"] = dict(name=rng.choice(["ADP1", "ACAD", "ADP0"]), online=0 if discharging else 1)
    if rng.random() < 0.2:
        case["others"].append("ucsi-source-psy-USBC000:001")
    for name in names:
        fam = rng.choices(["energy", "charge", "both", "capacity"], [35, 35, 10, 20])[0]
        b = dict(name=name, fam=fam)
        full = rng.choice([rng.randrange(1, 100) * 1_000_000, rng.randrange(1_000_000, 100_000_000)])
        now = rng.choice([full, 0, rng.randrange(0, full + 1), rng.randrange(0, full + 1)])
        b["full"], b["now"] = full, now
        b["full_design"] = full + rng.randrange(0, 5_000_000)
        b["capacity"] = None
        if fam == "capacity" or rng.random() < 0.6:
            b["capacity"] = (100 * now) // full if fam != "capacity" else rng.randrange(0, 101)
        b["status"] = None
        if rng.random() < 0.9:
            b["status"] = "Discharging" if discharging else rng.choice(["Charging", "Full", "Not charging", "Unknown"])
            if case["ac"] is None and rng.random() < 0.15:
                b["status"] = rng.choice(["Not charging", "Unknown"])
            elif case["ac"] is not None and rng.random() < 0.2:
                # the two sources out of step: the cable was pulled a moment ago and the battery still says "Full", or a weak
                # charger is plugged in while the battery drains - the adapter is what "on mains" means
                b["status"] = rng.choice(["Discharging", "Charging", "Full"])
                b["status_out_of_step"] = True
        rr = rng.random()
        b["rate_file"], b["rate"], b["tte"] = None, None, None
        if fam != "capacity":
            if rr < 0.7:
                b["rate_file"] = {"energy": "power_now", "charge": "current_now", "both": "both"}[fam]
                b["rate"] = 0 if rng.random() < 0.15 else rng.choice([rng.randrange(1, 60) * 500_000,
                                                                      rng.randrange(1, 60_000_000)])
            elif rr < 0.85:
                b["tte"] = rng.choice([0, rng.randrange(0, 900)])
        elif rr < 0.3:
            b["tte"] = rng.randrange(0, 900)
        b["bad"] = {}
        if rng.random() < 0.25:
            # files that exist but cannot be read (battery being removed: ENODEV; firmware hiccup: EIO/ENODATA; policy: EACCES)
            if fam == "both":
                present = [["energy_now", "energy_full", "power_now"]]       # one whole family (units are not mixed)
            else:
                f0 = {"energy": "energy", "charge": "charge"}.get(fam)
                present = ([[f0 + "_now"], [f0 + "_full"]] if f0 else []) + \
                          ([[b["rate_file"]]] if b["rate_file"] not in (None, "both") else []) + \
                          ([["time_to_empty_now"]] if b["tte"] is not None else []) + \
                          ([["capacity"]] if b["capacity"] is not None else []) + \
                          ([["status"]] if b["status"] is not None else [])
            for grp in rng.sample(present, min(len(present), rng.choice([1, 1, 2, 3]))):
                st = rng.choice(["eacces", "eio", "enodata", "enodev"])
                for f in grp:
                    b["bad"][f] = st
        case["bats"].append(b)
    if case["ac"] and case["ac"]["name"] in ("AC0", "AC") and rng.random() < 0.15:
        case["ac"]["bad"] = rng.choice(["eacces", "eio", "enodev"])
    return case


def g_khz(rng):
    r = rng.random()
    if r < 0.3:
        return rng.randrange(4, 50) * 100_000
    if r < 0.5:
        return rng.randrange(400, 5000) * 1000 + rng.choice([0, 125, 250, 500, 750])
    return rng.randrange(400_000, 5_200_000)


def gen_freq(rng, variant):
    n = rng.choice([1, 1, 2, 2, 4, 4, 8, 16])
    case = dict(dom="freq", variant=variant, n=n, offline=[], offline_style=rng.choice(["ebusy", "removed"]),
                mhz=rng.random() < 0.6, cpus=[])
    if n > 1 and rng.random() < 0.35:
        case["offline"] = sorted(rng.sample(range(1, n), rng.choice([1, 1, 2]) if n > 2 else 1))
    same = rng.random() < 0.3
    base = None
    for c in range(n):
        lo = rng.randrange(4, 16) * 100_000
        hi = lo + rng.randrange(1, 40) * 100_000
        cur = g_khz(rng)
        d = dict(cur=cur, min=lo, max=hi, curfile=rng.choices(["scaling", "both", "cpuinfo_cur"], [50, 30, 20])[0])
        if same and base:
            d.update(cur=base["cur"], min=base["min"], max=base["max"])
        base = base or d
        case["cpus"].append(d)
    if variant == "cpuinfo" and rng.random() < 0.2:
        case["mhz"] = False          # ARM-like: nothing exposed at all
    elif variant == "cpuinfo" and rng.random() < 0.15:
        case["s390"] = True          # s390x prints "cpu MHz dynamic" (current) and "cpu MHz static" (nominal) per CPU
    if variant == "policy" and n >= 4 and not case["offline"] and rng.random() < 0.35:
        # CPUs share a frequency policy (one per cluster / package): fewer policy directories than "cpu MHz" lines, and the
        # clusters run at different speeds
        case["shared"] = rng.choice([2, 4]) if n >= 8 else 2
    return case


def cpulist(cpus):
    """kernel cpulist format: 0-3,8,10-11"""
    cpus = sorted(cpus)
    out = []
    i = 0
    while i < len(cpus):
        j = i
        while j + 1 < len(cpus) and cpus[j + 1] == cpus[j] + 1:
            j += 1
        out.append(str(cpus[i]) if i == j else f"{cpus[i]}-{cpus[j]}")
        i = j + 1
    return ",".join(out)


def g_big(rng):
    r = rng.random()
    if r < 0.3:
        return rng.choice([0, 1, 2**31 - 1, 2**31, 2**32 - 1, 2**32 + 1, 2**53 + 1, 2**63 - 1, 2**64 - 1])
    if r < 0.7:
        return rng.randrange(0, 10**7)
    return rng.randrange(0, 2**64)


def gen_cpu(rng):
    sockets = rng.choice([1, 1, 1, 2, 4])
    cores = rng.choice([1, 2, 4, 6, 8])
    threads = rng.choice([1, 2, 2, 4])
    n = sockets * cores * threads
    case = dict(dom="cpu", sockets=sockets, cores=cores, threads=threads,
                sib_style=rng.choice(["adjacent", "split"]), offline=[],
                topo=rng.choices(["core_cpus", "thread_siblings", "both", "none"], [30, 25, 20, 25])[0],
                cpuinfo=rng.choices(["x86", "arm", "sparc", "arm_old"], [55, 20, 15, 10])[0],
                sysconf_fails=rng.random() < 0.7,
                btime=rng.choice([0, 1, 1_700_000_000, 2**31 - 1, 2**31, 2**32 + 5, rng.randrange(0, 2**33)]),
                ctxt=g_big(rng), intr=g_big(rng), softirq=g_big(rng),
                stat_order=rng.random() < 0.15)
    if n > 1 and rng.random() < 0.4:
        k = rng.choice([1, 1, 2, max(1, n // 2)])
        case["offline"] = sorted(rng.sample(range(1, n), min(k, n - 1)))
    return case


DOMS = ["sens", "therm", "bat", "freq", "cpu"]
DOM_W = [30, 25, 20, 13, 12]


def gen_case(rng, variant):
    dom = rng.choices(DOMS, DOM_W)[0]
    if dom == "sens":
        return gen_sens(rng)
    if dom == "therm":
        return gen_therm(rng)
    if dom == "bat":
        return gen_bat(rng)
    if dom == "freq":
        return gen_freq(rng, variant)
    return gen_cpu(rng)


# ----------------------------------------------------------------------------------------------------
# rendering a case into a real tree (+ fault list for the shim)
# ----------------------------------------------------------------------------------------------------

class Tree:
    def __init__(self, root):
        self.root = root
        self.faults = {}       # psutil-visible path -> "eacces" | "eio" | "enodata" | "ebusy"

    def real(self, area, rel=""):
        p = os.path.join(self.root, area)
        return os.path.join(p, rel) if rel else p

    def mkdir(self, area, rel=""):
        os.makedirs(self.real(area, rel), exist_ok=True)

    def w(self, area, rel, text):
        p = self.real(area, rel)
        d = os.path.dirname(p)
        if not os.path.isdir(d):
            os.makedirs(d)
        fd = os.open(p, os.O_WRONLY | os.O_CREAT | os.O_TRUNC, 0o644)
        try:
            os.write(fd, text.encode("latin-1"))
        finally:
            os.close(fd)

    def reading(self, area, rel, st, text):
        """a reading file in state st (ok | missing | eacces | eio | enodata | isdir | ebusy)"""
        if st == "missing":
            return
        if st == "isdir":
            self.mkdir(area, rel)
            return
        if st in ("empty", "garbage"):
            self.w(area, rel, "" if st == "empty" else "N/A\n")
            return
        self.w(area, rel, text)
        if st != "ok":
            self.faults[SYS[area] + "/" + rel] = st


def render_chip(t, chip, area, prefix):
    """prefix = directory of the hwmonN dir relative to the area"""
    d = prefix + ("/device" if chip["nest"] == "device" else "")
    t.mkdir(area, prefix)
    t.reading(area, d + "/name", chip.get("name_st", "ok"), chip["name"] + "\n")
    if chip["nest"] == "device":
        t.w(area, prefix + "/uevent", "")
    if chip["noise"]:
        t.w(area, d + "/in0_input", "1200\n")
        t.w(area, d + "/pwm1", "128\n")
        t.w(area, d + "/power1_average", "15000000\n")
        t.w(area, d + "/update_interval", "1000\n")
    for s in chip["temps"]:
        b = f"{d}/temp{s['i']}"
        t.reading(area, b + "_input", s["input"]["st"], f"{s['input']['v']}\n")
        if s["label"] is not None:
            t.w(area, b + "_label", s["label"] + "\n")
        for key in ("max", "crit"):
            th = s[key]
            if th["st"] == "ok":
                t.w(area, f"{b}_{key}", f"{th['v']}\n")
            elif th["st"] == "text":
                t.w(area, f"{b}_{key}", th["text"])
            elif th["st"] == "eacces":
                t.reading(area, f"{b}_{key}", "eacces", f"{th['v']}\n")
        if s["noise"]:
            t.w(area, b + "_crit_alarm", "0\n")
            t.w(area, b + "_min", "-273150\n")
            t.w(area, b + "_max_hyst", "75000\n")
    for s in chip["fans"]:
        b = f"{d}/fan{s['i']}"
        t.reading(area, b + "_input", s["input"]["st"], f"{s['input']['v']}\n")
        if s["label"] is not None:
            t.w(area, b + "_label", s["label"] + "\n")
        if s["noise"]:
            t.w(area, b + "_min", "0\n")
            t.w(area, b + "_target", "3000\n")
            t.w(area, b + "_alarm", "0\n")


def render_zones(t, zones, cooling=False):
    t.mkdir("thermal")
    for z in zones:
        d = f"thermal_zone{z['n']}"
        t.w("thermal", d + "/type", z["type"] + "\n")
        t.w("thermal", d + "/mode", "enabled\n")
        t.w("thermal", d + "/policy", "step_wise\n")
        t.reading("thermal", d + "/temp", z["temp"]["st"], f"{z['temp']['v']}\n")
        for tp in z["trips"]:
            t.w("thermal", f"{d}/trip_point_{tp['k']}_type", tp["type"] + "\n")
            if tp["st"] == "ok":
                t.w("thermal", f"{d}/trip_point_{tp['k']}_temp", f"{tp['v']}\n")
            elif tp["st"] == "text":
                t.w("thermal", f"{d}/trip_point_{tp['k']}_temp", tp["text"])
            if tp["hyst"]:
                t.w("thermal", f"{d}/trip_point_{tp['k']}_hyst", "2000\n")
    if cooling:
        t.w("thermal", "cooling_device0/type", "Processor\n")
        t.w("thermal", "cooling_device0/cur_state", "0\n")


def render_sens(t, case):
    if case["hwmon"] != "absent":
        t.mkdir("hwmon")
    t.mkdir("platform")
    for chip in case["chips"]:
        if chip["link"] is not None:
            rel = f"coretemp.{chip['link']}/hwmon/hwmon{chip['n']}"
            render_chip(t, chip, "platform", rel)
            os.symlink(f"../platform/{rel}", t.real("hwmon", f"hwmon{chip['n']}"))
        else:
            render_chip(t, chip, "hwmon", f"hwmon{chip['n']}")
    for chip in case["platform_only"]:
        render_chip(t, chip, "platform", f"coretemp.{chip['link']}/hwmon/hwmon{chip['n']}")
    if case["zones"]:
        render_zones(t, case["zones"])
    else:
        t.mkdir("thermal")
    # a chip that lives under /sys/class/hwmon through a symlink is seen under that name by psutil; faults were
    # registered under the platform path -> register them under the class path as well
    for chip in case["chips"]:
        if chip["link"] is not None:
            src = f"{SYS['platform']}/coretemp.{chip['link']}/hwmon/hwmon{chip['n']}/"
            dst = f"{SYS['hwmon']}/hwmon{chip['n']}/"
            for p, st in list(t.faults.items()):
                if p.startswith(src):
                    t.faults[dst + p[len(src):]] = st


def render_therm(t, case):
    if case["hwmon"] == "empty":
        t.mkdir("hwmon")
    elif case["hwmon"] == "fanonly":
        t.w("hwmon", "hwmon0/name", "dell_smm\n")
        t.w("hwmon", "hwmon0/fan1_input", "2100\n")
        t.w("hwmon", "hwmon0/pwm1", "128\n")
    t.mkdir("platform")
    render_zones(t, case["zones"], case.get("cooling"))


def render_bat(t, case):
    if case["psdir"] == "absent":
        return
    t.mkdir("power_supply")
    if case["ac"]:
        t.w("power_supply", case["ac"]["name"] + "/type", "Mains\n")
        t.reading("power_supply", case["ac"]["name"] + "/online", case["ac"].get("bad", "ok"), f"{case['ac']['online']}\n")
    for o in case["others"]:
        t.w("power_supply", o + "/type", "USB\n")
        t.w("power_supply", o + "/online", "1\n")
    for b in case["bats"]:
        d = b["name"]
        t.w("power_supply", d + "/type", "Battery\n")
        t.w("power_supply", d + "/present", "1\n")
        t.w("power_supply", d + "/technology", "Li-ion\n")
        t.w("power_supply", d + "/voltage_now", "11400000\n")
        fams = {"energy": ["energy"], "charge": ["charge"], "both": ["energy", "charge"], "capacity": []}[b["fam"]]
        bad = b.get("bad", {})

        def bw(fname, text):
            t.reading("power_supply", f"{d}/{fname}", bad.get(fname, "ok"), text)
        for f in fams:
            # 'both': the charge_* family is the energy_* family in other units (same ratios)
            k = 1 if f == "energy" or b["fam"] != "both" else 7
            bw(f"{f}_now", f"{b['now'] * k}\n")
            bw(f"{f}_full", f"{b['full'] * k}\n")
            t.w("power_supply", f"{d}/{f}_full_design", f"{b['full_design'] * k}\n")
        if b["rate_file"] == "both":
            bw("power_now", f"{b['rate']}\n")
            bw("current_now", f"{b['rate'] * 7}\n")
        elif b["rate_file"]:
            bw(b["rate_file"], f"{b['rate']}\n")
        if b["tte"] is not None:
            bw("time_to_empty_now", f"{b['tte']}\n")
        if b["capacity"] is not None:
            bw("capacity", f"{b['capacity']}\n")
        if b["status"] is not None:
            bw("status", b["status"] + "\n")


def cpuinfo_x86(cpus, mhz=None, pkg=None, ncores=None, coreid=None):
    out = []
    for c in cpus:
        out.append(f"processor\t: {c}\nvendor_id\t: GenuineIntel\ncpu family\t: 6\nmodel\t\t: 142\n"
                   f"model name\t: Intel(R) Core(TM) i7-8550U CPU @ 1.80GHz\nstepping\t: 10\nmicrocode\t: 0xf0\n")
        if mhz is not None:
            out.append(f"cpu MHz\t\t: {mhz[c] // 1000}.{mhz[c] % 1000:03d}\n")
        out.append("cache size\t: 8192 KB\n")
        if pkg is not None:
            out.append(f"physical id\t: {pkg[c]}\nsiblings\t: 2\ncore id\t\t: {coreid[c]}\n"
                       f"cpu cores\t: {ncores[pkg[c]]}\napicid\t\t: {c}\n")
        out.append("fpu\t\t: yes\ncpuid level\t: 22\nwp\t\t: yes\nflags\t\t: fpu vme de pse tsc msr\n"
                   "bogomips\t: 3999.93\nclflush size\t: 64\naddress sizes\t: 39 bits physical, 48 bits virtual\n"
                   "power management:\n\n")
    return "".join(out)


def cpuinfo_arm(cpus):
    return "".join(f"processor\t: {c}\nBogoMIPS\t: 38.40\nFeatures\t: fp asimd evtstrm crc32 cpuid\n"
                   f"CPU implementer\t: 0x41\nCPU architecture: 8\nCPU variant\t: 0x0\nCPU part\t: 0xd03\n"
                   f"CPU revision\t: 4\n\n" for c in cpus)


def cpuinfo_sparc(cpus):
    return ("cpu\t\t: TI UltraSparc T2 (Niagara2)\nfpu\t\t: UltraSparc T2 integrated FPU\n"
            "pmu\t\t: niagara2\nprom\t\t: OBP 4.30.4\ntype\t\t: sun4v\n"
            f"ncpus probed\t: {len(cpus)}\nncpus active\t: {len(cpus)}\nD$ parity tl1\t: 0\nState:\n"
            + "".join(f"CPU{c}:\t\tonline\n" for c in cpus) + "MMU Type\t: Hypervisor (sun4v)\n")


def render_stat(cpus, btime=1_700_000_000, ctxt=12345, intr=678, softirq=91011, reorder=False):
    head = ["cpu  1000 20 300 40000 50 0 60 0 0 0\n"] + [f"cpu{c} 100 2 30 4000 5 0 6 0 0 0\n" for c in cpus]
    mid = [f"intr {intr} 9 0 0 0 33 0 0 1 0 0 0 0 144\n", f"ctxt {ctxt}\n", f"btime {btime}\n",
           "processes 4242\n", "procs_running 2\n", "procs_blocked 0\n",
           f"softirq {softirq} 1 2 3 4 5 6 7 8 9 10\n"]
    if reorder:
        mid = [mid[2], mid[6], mid[3], mid[1], mid[4], mid[0], mid[5]]
    return "".join(head + mid)


def freq_online(case):
    return [c for c in range(case["n"]) if c not in case["offline"]]


def render_freq(t, case):
    """-> dict of /vproc files"""
    t.mkdir("cpu")
    n, off = case["n"], set(case["offline"])
    online = freq_online(case)
    t.w("cpu", "online", cpulist(online) + "\n")
    t.w("cpu", "possible", cpulist(range(n)) + "\n")
    t.w("cpu", "kernel_max", "8191\n")
    t.mkdir("cpu", "cpuidle")
    layout = {"policy": "policy", "percpu": "percpu", "cpuinfo": "none"}[case["variant"]]
    for c in range(n):
        t.mkdir("cpu", f"cpu{c}")
        if c > 0:
            t.w("cpu", f"cpu{c}/online", "0\n" if c in off else "1\n")
        d = case["cpus"][c]
        if layout == "none":
            continue
        if layout == "policy":
            if c in off and case["offline_style"] == "removed":
                continue
            g_ = case.get("shared")
            if g_:
                os.symlink(f"../cpufreq/policy{c - c % g_}", t.real("cpu", f"cpu{c}/cpufreq"))
                if c % g_:
                    continue            # the cluster's policy directory is the leader's
            base = f"cpufreq/policy{c}"
            if c not in off and not g_:
                os.symlink(f"../cpufreq/policy{c}", t.real("cpu", f"cpu{c}/cpufreq"))
        else:
            if c in off:
                continue
            base = f"cpu{c}/cpufreq"
        st = "ebusy" if c in off else "ok"
        if d["curfile"] in ("scaling", "both"):
            t.reading("cpu", base + "/scaling_cur_freq", st, f"{d['cur']}\n")
        if d["curfile"] in ("cpuinfo_cur", "both"):
            t.reading("cpu", base + "/cpuinfo_cur_freq", st, f"{d['cur']}\n")
        t.reading("cpu", base + "/scaling_min_freq", st, f"{d['min']}\n")
        t.reading("cpu", base + "/scaling_max_freq", st, f"{d['max']}\n")
        t.reading("cpu", base + "/cpuinfo_min_freq", st, f"{d['min']}\n")
        t.reading("cpu", base + "/cpuinfo_max_freq", st, f"{d['max']}\n")
        t.w("cpu", base + "/scaling_governor", "schedutil\n")
        t.w("cpu", base + "/affected_cpus", f"{c}\n" if c not in off else "\n")
        t.w("cpu", base + "/related_cpus", f"{c}\n")
    if layout == "policy":
        t.mkdir("cpu", "cpufreq")
    if case["mhz"]:
        g_ = case.get("shared") or 1
        if case.get("s390"):
            ci = "vendor_id       : IBM/S390\n# processors    : %d\nbogomips per cpu: 3241.00\n\n" % len(online) + "".join(
                f"cpu number      : {c}\nphysical id     : 0\ncore id         : {c}\ncpu MHz dynamic : {case['cpus'][c]['cur'] // 1000}\n"
                f"cpu MHz static  : 5208\n\n" for c in online)
        else:
            ci = cpuinfo_x86(online, mhz={c: case["cpus"][c - c % g_]["cur"] for c in online})
    else:
        ci = cpuinfo_arm(online)
    return {"cpuinfo": ci, "stat": render_stat(online)}


def cpu_topology(case):
    """-> (n, online list, core id of each cpu (global), package of each cpu)"""
    s, k, th = case["sockets"], case["cores"], case["threads"]
    n = s * k * th
    core_of, pkg_of = {}, {}
    for c in range(n):
        if case["sib_style"] == "adjacent":
            core = c // th
        else:
            core = c % (s * k)
        core_of[c] = core
        pkg_of[c] = core // k
    online = [c for c in range(n) if c not in case["offline"]]
    return n, online, core_of, pkg_of


def render_cpu(t, case):
    n, online, core_of, pkg_of = cpu_topology(case)
    t.mkdir("cpu")
    t.w("cpu", "online", cpulist(online) + "\n")
    t.w("cpu", "possible", cpulist(range(n)) + "\n")
    t.w("cpu", "present", cpulist(range(n)) + "\n")
    t.mkdir("cpu", "cpuidle")
    t.mkdir("cpu", "cpufreq")
    for c in range(n):
        t.mkdir("cpu", f"cpu{c}")
        if c > 0:
            t.w("cpu", f"cpu{c}/online", "1\n" if c in online else "0\n")
        if c not in online or case["topo"] == "none":
            continue
        sibs = cpulist([x for x in online if core_of[x] == core_of[c]])
        t.w("cpu", f"cpu{c}/topology/core_id", f"{core_of[c] % case['cores']}\n")
        t.w("cpu", f"cpu{c}/topology/physical_package_id", f"{pkg_of[c]}\n")
        if case["topo"] in ("core_cpus", "both"):
            t.w("cpu", f"cpu{c}/topology/core_cpus_list", sibs + "\n")
        if case["topo"] in ("thread_siblings", "both"):
            t.w("cpu", f"cpu{c}/topology/thread_siblings_list", sibs + "\n")
    if case["cpuinfo"] == "x86":
        ncores = {}
        for p in set(pkg_of.values()):
            ncores[p] = len({core_of[c] for c in online if pkg_of[c] == p})
        ci = cpuinfo_x86(online, mhz={c: 1_800_000 for c in online}, pkg=pkg_of, ncores=ncores,
                         coreid={c: core_of[c] % case["cores"] for c in online})
    elif case["cpuinfo"] == "arm":
        ci = cpuinfo_arm(online)
    elif case["cpuinfo"] == "arm_old":
        # ARM kernels before 3.8: one model line "Processor : ..." in front of the per-CPU "processor : N" blocks
        ci = "Processor\t: ARMv7 Processor rev 10 (v7l)\n" + cpuinfo_arm(online) + "Hardware\t: Freescale i.MX 6Quad\n"
    else:
        ci = cpuinfo_sparc(online)
    return {"cpuinfo": ci, "stat": render_stat(online, case["btime"], case["ctxt"], case["intr"], case["softirq"],
                                               case["stat_order"])}


def render(case, root):
    """Build the real tree of a case under root -> (Tree, vproc files)."""
    t = Tree(root)
    vproc = {"cpuinfo": cpuinfo_x86([0], mhz={0: 1_000_000}), "stat": render_stat([0])}
    dom = case["dom"]
    if dom == "sens":
        render_sens(t, case)
    elif dom == "therm":
        render_therm(t, case)
    elif dom == "bat":
        render_bat(t, case)
    elif dom == "freq":
        vproc = render_freq(t, case)
    elif dom == "cpu":
        vproc = render_cpu(t, case)
    return t, vproc


# ----------------------------------------------------------------------------------------------------
# oracle: the statement's arithmetic on generator values
# ----------------------------------------------------------------------------------------------------

def close(got, want):
    """got: number from psutil; want: exact Fraction | None"""
    if want is None or got is None:
        return got is None and want is None
    if isinstance(got, bool) or not isinstance(got, (int, float)):
        return False
    if got != got or got in (float("inf"), float("-inf")):
        return False
    g = Fraction(got)
    return abs(g - want) <= TOL * max(1, abs(want))


def fahr(c):
    return None if c is None else c * 9 / 5 + 32


def backfill(high, crit):
    if high is None and crit is not None:
        high = crit
    elif crit is None and high is not None:
        crit = high
    return high, crit


def exp_chip_temps(chip):
    """-> list of (label, current, high, critical, has_zero_threshold) in degrees C (Fractions)"""
    out = []
    for s in chip["temps"]:
        if s["input"]["st"] != "ok":
            continue
        hi = Fraction(s["max"]["v"], 1000) if s["max"]["st"] == "ok" else None
        cr = Fraction(s["crit"]["v"], 1000) if s["crit"]["st"] == "ok" else None
        zero = (hi == 0) or (cr == 0)
        hi, cr = backfill(hi, cr)
        out.append((s["label"] or "", Fraction(s["input"]["v"], 1000), hi, cr, zero))
    return out


def exp_zone(z):
    if z["temp"]["st"] != "ok":
        return None
    hi = cr = None
    for tp in z["trips"]:
        if tp["st"] != "ok":
            continue
        if tp["type"] == "critical":
            cr = Fraction(tp["v"], 1000)
        elif tp["type"] == "high":
            hi = Fraction(tp["v"], 1000)
    zero = (hi == 0) or (cr == 0)
    hi, cr = backfill(hi, cr)
    return ("", Fraction(z["temp"]["v"], 1000), hi, cr, zero)


def merge(*dicts):
    out = {}
    for d in dicts:
        for k, v in d.items():
            out.setdefault(k, []).extend(v)
    return out


def exp_temps_of(chips):
    out = {}
    for chip in chips:
        if chip.get("name_st", "ok") != "ok":
            continue
        rows = exp_chip_temps(chip)
        if rows:
            out.setdefault(chip["name"], []).extend(rows)
    return out


def exp_zones_of(zones):
    out = {}
    for z in zones:
        row = exp_zone(z)
        if row is not None:
            out.setdefault(z["type"], []).append(row)
    return out


def rescaled(got, want):
    """is got == want / 1000**k for some k >= 1 (the conversion applied k extra times)?"""
    if got is None or want is None or want == 0 or not isinstance(got, (int, float)) or got != got:
        return False
    for k in range(1, 8):
        w = want / Fraction(1000) ** k
        if abs(Fraction(got) - w) <= Fraction(1, 10**9) * abs(w):
            return True
    return False


EXPLAINED = ("thermal_trip_point_rescaled", "zero_threshold_treated_as_missing")


def row_viols(name, g, e, fahrenheit, ctx, thermal):
    """complaints about one reported sensor g against one expected row e"""
    sfx = ":fahrenheit" if fahrenheit else ""
    lab, cur, hi, cr, zero = e
    if fahrenheit:
        cur, hi, cr = fahr(cur), fahr(hi), fahr(cr)
    try:
        glab, gcur, ghi, gcr = g.label, g.current, g.high, g.critical
    except AttributeError:
        return [("temps_wrong_type" + sfx, f"{name}: entry {g!r} lacks label/current/high/critical")]
    viols = []
    if glab != lab:
        viols.append(("temp_label_wrong" + sfx, f"{name}: label got {glab!r} want {lab!r} {ctx}"))
    if not close(gcur, cur):
        viols.append(("temp_current_wrong" + sfx, f"{name}/{lab!r}: current got {gcur!r} want {float(cur)!r} {ctx}"))
    for fld, gv, ev in (("high", ghi, hi), ("critical", gcr, cr)):
        if close(gv, ev):
            continue
        if thermal and not fahrenheit and rescaled(gv, ev):
            mech = "thermal_trip_point_rescaled"
        elif zero and ((ghi is not None and ghi == gcr) or
                       (gv is None and ev == 0 and (gcr if fld == "high" else ghi) == 0)):
            # the recorded finding: a threshold of exactly 0 is falsy, so it is overwritten with the other one - the row
            # then carries the same figure twice - or, when the 0 is the only threshold, it is not copied into the missing
            # one. Any other wrong figure in a row with a 0 threshold is a different defect
            mech = "zero_threshold_treated_as_missing" + sfx
        else:
            mech = ("thermal_threshold_wrong" if thermal else "temp_threshold_wrong") + sfx
        viols.append((mech, f"{name}/{lab!r}: {fld} got {gv!r} want "
                            f"{None if ev is None else float(ev)!r} (row got {tuple(g)!r}) {ctx}"))
    return viols


def compare_temps(got, exp, fahrenheit, ctx, thermal=False):
    """got: psutil's dict; exp: name -> rows (deg C). -> (viols, n_compared).
    Order inside a chip name is free: rows are matched exactly first, then each leftover expected row takes the
    leftover reported row that explains itself best."""
    viols = []
    sfx = ":fahrenheit" if fahrenheit else ""
    if not isinstance(got, dict):
        return [("temps_wrong_type" + sfx, f"got {got!r}")], 0
    n = 0
    if set(got) != set(exp) or any(not isinstance(got[k], list) or len(got[k]) != len(exp[k]) for k in exp):
        shape_g = {k: len(v) if isinstance(v, list) else v for k, v in got.items()}
        shape_e = {k: len(v) for k, v in exp.items()}
        return [("temps_sensor_set_wrong" + sfx, f"chips/sensor counts got {shape_g} want {shape_e} {ctx}")], 0
    for name in exp:
        left_g = list(got[name])
        left_e = []
        for e in exp[name]:
            n += 1
            for i, g in enumerate(left_g):
                if not row_viols(name, g, e, fahrenheit, ctx, thermal):
                    del left_g[i]
                    break
            else:
                left_e.append(e)
        while left_e:
            scored = []
            for j, e in enumerate(left_e):
                for i, g in enumerate(left_g):
                    v = row_viols(name, g, e, fahrenheit, ctx, thermal)
                    generic = sum(1 for m, _d in v if not m.startswith(EXPLAINED))
                    scored.append((generic, len(v), j, i, v))
            _generic, _n, j, i, v = min(scored, key=lambda t: t[:4])
            del left_e[j]
            del left_g[i]
            viols.extend(v)
    return viols, n


def best_candidate(got, cands, fahrenheit, ctx, thermal=False):
    """first candidate without complaints; else the complaints against the candidate of the right shape"""
    best = None
    for exp in cands:
        v, n = compare_temps(got, exp, fahrenheit, ctx, thermal)
        if not v:
            return v, n
        rank = (n == 0, len(v))          # n == 0 <=> sensor set differs
        if best is None or rank < best[0]:
            best = (rank, v, n)
    return best[1], best[2]


def exp_fans_of(chips):
    out = {}
    for chip in chips:
        rows = [(s["label"] or "", s["input"]["v"]) for s in chip["fans"] if s["input"]["st"] == "ok"]
        if rows:
            out.setdefault(chip["name"], []).extend(rows)
    return out


def compare_fans(got, case, ctx):
    exp = exp_fans_of(case["chips"])
    if not isinstance(got, dict):
        return [("fans_wrong_type", f"got {got!r}")], 0
    try:
        norm = {k: sorted((f.label, f.current) for f in v) for k, v in got.items()}
    except Exception as e:  # noqa: BLE001
        return [("fans_wrong_type", f"got {got!r} ({e!r})")], 0
    want = {k: sorted(v) for k, v in exp.items()}
    n = sum(len(v) for v in want.values())
    if norm == want and all(type(c) is int for v in norm.values() for _l, c in v):
        return [], n
    direct = {k: sorted(v) for k, v in exp_fans_of([c for c in case["chips"] if c["nest"] == "direct"]).items()}
    nested = exp_fans_of([c for c in case["chips"] if c["nest"] == "device"])
    flat_files = any(c["nest"] == "direct" and c["fans"] for c in case["chips"])
    if nested and flat_files and norm == direct:
        return [("fans_device_nested_chip_dropped_when_another_chip_is_flat",
                 f"fans of chips using hwmonN/device/ are missing because another chip exposes fanN_* directly in "
                 f"hwmonN/: got {norm} want {want} {ctx}")], n
    return [("fans_wrong", f"got {norm} want {want} {ctx}")], n


def effective(b):
    """the battery as its *readable* files describe it (an unreadable file = a missing one)"""
    bad = b.get("bad") or {}
    if not bad:
        return b
    e = dict(b)
    fam = b["fam"]
    if fam == "both":
        if "energy_now" in bad:                 # whole energy family unreadable: the charge family tells the same story
            e["fam"] = "charge"
            e["rate_file"] = "current_now" if b["rate_file"] else None
        return e
    if "status" in bad:
        e["status"] = None
    if "capacity" in bad:
        e["capacity"] = None
    if "time_to_empty_now" in bad:
        e["tte"] = None
    if b["rate_file"] in bad:
        e["rate_file"], e["rate"] = None, None
    if fam in ("energy", "charge"):
        now_ok, full_ok = (fam + "_now") not in bad, (fam + "_full") not in bad
        if not (now_ok and full_ok):
            e["percent_from_capacity"] = True
        if not now_ok:
            e["rate_file"], e["rate"] = None, None      # nothing to divide
    return e


def bat_expect(b, ac, ps):
    """-> (percent: Fraction | None = no result possible, set of acceptable power_plugged values)"""
    if ac is not None and ac.get("bad"):
        ac = None
    if b["fam"] != "capacity" and not b.get("percent_from_capacity"):
        percent = Fraction(b["now"], b["full"]) * 100
    elif b["capacity"] is not None:
        percent = Fraction(b["capacity"])       # only the kernel's own percentage is exposed
    else:
        percent = None
    by_status = {None: {None}, "Discharging": {False}, "Charging": {True}, "Full": {True},
                 "Not charging": {None, True}, "Unknown": {None}}[b["status"]]
    if ac is None:
        plugged = by_status
    elif ac["name"] in ("AC0", "AC"):
        plugged = {ac["online"] == 1}
    else:
        plugged = by_status | {ac["online"] == 1}
    return percent, plugged


def secs_ok(b, got_secs, got_plugged, ps):
    unl, unk = ps.POWER_TIME_UNLIMITED, ps.POWER_TIME_UNKNOWN
    if got_plugged is True:
        return got_secs == unl, "UNLIMITED (on mains)"
    if b["fam"] != "capacity" and b["rate"] is not None:
        if b["rate"] == 0:
            return got_secs == unk, "UNKNOWN (zero rate)"
        want = Fraction(b["now"] * 3600, b["rate"])
        ok = isinstance(got_secs, (int, float)) and not isinstance(got_secs, bool) and \
            abs(Fraction(got_secs) - want) <= 1 + TOL * want and got_secs >= 0
        return ok, f"now/rate*3600 = {float(want)!r}"
    if b["tte"] is not None:
        return got_secs in (b["tte"], b["tte"] * 60, unk), "time_to_empty_now (s or min) or UNKNOWN"
    return got_secs == unk, "UNKNOWN (nothing to compute from)"


def compare_battery(got, case, ps, ctx):
    if not case["bats"]:
        if got is None:
            return []
        return [("battery_reported_without_battery", f"got {got!r} {ctx}")]
    per_bat = []
    for b in case["bats"]:
        b = effective(b)
        percent, plugged = bat_expect(b, case["ac"], ps)
        if percent is None:
            # neither now/full nor the kernel's own percentage is readable: nothing to report for this battery
            if got is None:
                return []
            per_bat.append([("battery_reported_without_readable_figures", f"{b['name']}: got {got!r}")])
            continue
        if got is None:
            per_bat.append([("battery_none_with_battery", f"{b['name']}: got None want percent {float(percent)!r}")])
            continue
        try:
            gp, gs, gpl = got.percent, got.secsleft, got.power_plugged
        except AttributeError:
            return [("battery_wrong_type", f"got {got!r}")]
        bad = []
        if not close(gp, percent):
            bad.append(("battery_percent_wrong", f"{b['name']}: percent got {gp!r} want {float(percent)!r}"))
        if gpl not in plugged or not (gpl is None or isinstance(gpl, bool)):
            bad.append(("battery_power_plugged_wrong", f"{b['name']}: power_plugged got {gpl!r} want one of {plugged}"))
        else:
            ok, why = secs_ok(b, gs, gpl, ps)
            if not ok:
                bad.append(("battery_secsleft_wrong", f"{b['name']}: secsleft got {gs!r} want {why}"))
        if not bad:
            return []
        per_bat.append(bad)
    # complaints against the battery the result resembles most
    bad = min(per_bat, key=len)
    return [(bad[0][0], "; ".join(d for _m, d in bad) + f" (got {got!r}) {ctx}")]


def exp_freq(case):
    """-> list of candidate per-cpu lists [(cur,min,max) Fractions in MHz]"""
    online = freq_online(case)
    if case["variant"] == "cpuinfo":
        if not case["mhz"]:
            return [[]]
        if case.get("s390"):
            return [[(Fraction(case["cpus"][c]["cur"] // 1000), None, None) for c in online]]
        return [[(Fraction(case["cpus"][c]["cur"], 1000), None, None) for c in online]]

    def ent(c):
        d = case["cpus"][c]
        return (Fraction(d["cur"], 1000), Fraction(d["min"], 1000), Fraction(d["max"], 1000))
    if case.get("shared"):
        return [[ent(c) for c in online if c % case["shared"] == 0]]
    only_online = [ent(c) for c in online]
    if case["variant"] == "policy" and case["offline"] and case["offline_style"] == "ebusy":
        z = (Fraction(0), Fraction(0), Fraction(0))
        return [[ent(c) if c in online else z for c in range(case["n"])], only_online]
    return [only_online]


def freq_entry_diff(g, e, check_minmax):
    try:
        gc, gmin, gmax = g.current, g.min, g.max
    except AttributeError:
        return "type"
    if not close(gc, e[0]):
        return "current"
    if check_minmax and not (close(gmin, e[1]) and close(gmax, e[2])):
        return "minmax"
    return None


def compare_freq(got_list, got_mean, case, ctx):
    viols = []
    cands = exp_freq(case)
    check_minmax = case["variant"] != "cpuinfo"
    n = 0
    chosen = None
    if not isinstance(got_list, list):
        return [("cpu_freq_percpu_wrong_type", f"got {got_list!r}")], 0
    diffs = []
    for cand in cands:
        if len(cand) != len(got_list):
            diffs.append(("len", None, cand))
            continue
        d = None
        for i, (g, e) in enumerate(zip(got_list, cand)):
            d = freq_entry_diff(g, e, check_minmax)
            if d:
                diffs.append((d, i, cand))
                break
        if d is None:
            chosen = cand
            break
    if chosen is None:
        kind, i, cand = diffs[0] if diffs[0][0] != "len" or len(diffs) == 1 else diffs[-1]
        want = [tuple(None if x is None else float(x) for x in e) for e in cand]
        gots = [tuple(g) if isinstance(g, tuple) else g for g in got_list]
        if kind == "len":
            viols.append(("cpu_freq_percpu_length_wrong" + (":s390x_static_mhz_line" if case.get("s390") else ""),
                          f"got {len(got_list)} entries want {sorted({len(c) for c in cands})} {ctx}"))
        elif kind == "current":
            g, e = got_list[i], cand[i]
            uses_cpuinfo = case["variant"] != "cpuinfo" and case["mhz"] and not (
                case["variant"] == "policy" and case["offline"] and case["offline_style"] == "ebusy")
            if uses_cpuinfo and isinstance(g.current, float) and close(g.current, e[0] - Fraction(1, 1000)):
                viols.append(("cpu_freq_current_off_by_1khz:cpuinfo_mhz_float_truncation",
                              f"cpu{i}: kernel says {float(e[0] * 1000):.0f} kHz (cpuinfo 'cpu MHz' "
                              f"{float(e[0])!r} and scaling_cur_freq agree), got current={g.current!r} MHz {ctx}"))
            else:
                viols.append(("cpu_freq_current_wrong", f"entry {i}: got {gots[i]!r} want {want[i]!r} {ctx}"))
        elif kind == "minmax":
            viols.append(("cpu_freq_minmax_wrong", f"entry {i}: got {gots[i]!r} want {want[i]!r} {ctx}"))
        else:
            viols.append(("cpu_freq_percpu_wrong_type", f"got {gots!r}"))
        # the mean is judged against what percpu *should* have been
        chosen = cands[0]
        n = 0
    else:
        n = len(chosen)
    # mean over CPUs
    mean_cands = [chosen] if not viols else cands
    ok = False
    for cand in mean_cands:
        if not cand:
            ok = ok or got_mean is None
            continue
        if got_mean is None:
            continue
        k = len(cand)
        m = tuple(None if cand[0][j] is None else sum(e[j] for e in cand) / k for j in range(3))
        d = freq_entry_diff(got_mean, m, check_minmax)
        if d is None:
            ok = True
    if not ok and not viols:
        cand = mean_cands[0]
        k = len(cand)
        want = None if not cand else tuple(
            None if cand[0][j] is None else float(sum(e[j] for e in cand) / k) for j in range(3))
        viols.append(("cpu_freq_mean_wrong", f"cpu_freq() got {got_mean!r} want {want!r} over {k} CPUs {ctx}"))
    return viols, n


def exp_cpu(case):
    n, online, core_of, pkg_of = cpu_topology(case)
    logical = len(online)
    online_cores = len({core_of[c] for c in online})
    if case["topo"] != "none":
        cores = online_cores
    elif case["cpuinfo"] == "x86":
        cores = online_cores
    else:
        cores = None
    return logical, cores


# ----------------------------------------------------------------------------------------------------
# running a case
# ----------------------------------------------------------------------------------------------------

_env = {}
_SYSCONF = dict(fail=False, calls=0)


def _tmp_parent():
    return "/dev/shm" if os.path.isdir("/dev/shm") and os.access("/dev/shm", os.W_OK) else None


def setup(variant):
    if _env:
        return _env
    from vlib import psu, vkernel
    base = tempfile.mkdtemp(prefix="c19_", dir=_tmp_parent())
    imp = os.path.join(base, "import_cpu")
    os.makedirs(os.path.join(imp, "cpu0"))
    if variant == "policy":
        os.makedirs(os.path.join(imp, "cpufreq", "policy0"))
        os.symlink("../cpufreq/policy0", os.path.join(imp, "cpu0", "cpufreq"))
    elif variant == "percpu":
        os.makedirs(os.path.join(imp, "cpu0", "cpufreq"))
    pre = vkernel.VK()
    pre.redirect(SYS["cpu"], imp)
    ps = psu.load(pre_vk=pre)
    ps.PROCFS_PATH = "/vproc"
    real_sysconf = os.sysconf

    def sysconf(name):
        if name == "SC_NPROCESSORS_ONLN":
            _SYSCONF["calls"] += 1
            if _SYSCONF["fail"]:
                raise ValueError("unrecognized configuration name")
        return real_sysconf(name)
    os.sysconf = sysconf
    _env.update(ps=ps, vkernel=vkernel, base=base, variant=variant, real_sysconf=real_sysconf, n=0, last_cpu=None)
    return _env


def teardown():
    if _env:
        shutil.rmtree(_env["base"], ignore_errors=True)


def make_vk(vkernel, t, vproc):
    vk = vkernel.VK()
    vk.mount("/vproc", vkernel.MemFS({k: vkernel.F(v.encode("latin-1")) for k, v in vproc.items()}))
    for area, prefix in SYS.items():
        vk.redirect(prefix, t.real(area))
    codes = dict(eacces=errno.EACCES, eio=errno.EIO, enodata=errno.ENODATA, ebusy=errno.EBUSY, enodev=errno.ENODEV)
    open_faults = {}
    for path, st in t.faults.items():
        if st == "eacces":
            open_faults[path] = OSError(errno.EACCES, os.strerror(errno.EACCES), path)
        else:
            # the file exists and opens; read(2) fails (what a driver returning -EIO/-ENODATA/-EBUSY does)
            err = OSError(codes[st], os.strerror(codes[st]))
            vk.mount(path, vkernel.MemFS({"": vkernel.F(b"", read_err=err)}))
    if open_faults:
        vk.rules.append(lambda kind, path: open_faults.get(path) if kind == "open" else None)
    return vk


def ser(x):
    """JSON-able rendering of a psutil result (for the un-shimmed replay comparison)."""
    if isinstance(x, dict):
        return {str(k): ser(v) for k, v in sorted(x.items())}
    if isinstance(x, (list, tuple)):
        return [ser(v) for v in x]
    if isinstance(x, float):
        return repr(x)
    if isinstance(x, (int, str, bool)) or x is None:
        return int(x) if isinstance(x, int) and not isinstance(x, bool) else x
    return repr(x)


def call(fn):
    try:
        return ("ok", fn())
    except Exception as e:  # noqa: BLE001
        return ("exc", e)


def observe(ps, case):
    """Call the psutil functions of the case's domain -> dict name -> ('ok', value) | ('exc', e)."""
    dom = case["dom"]
    obs = {}
    if dom in ("sens", "therm"):
        obs["temps"] = call(lambda: ps.sensors_temperatures())
        obs["temps_f"] = call(lambda: ps.sensors_temperatures(fahrenheit=True))
        if dom == "sens":
            obs["fans"] = call(lambda: ps.sensors_fans())
    elif dom == "bat":
        obs["battery"] = call(lambda: ps.sensors_battery())
    elif dom == "freq":
        obs["freq_percpu"] = call(lambda: ps.cpu_freq(percpu=True))
        obs["freq"] = call(lambda: ps.cpu_freq())
    elif dom == "cpu":
        cc = getattr(ps.cpu_count, "cache_clear", None)
        if cc:
            cc()
        obs["count_logical"] = call(lambda: ps.cpu_count())
        obs["count_cores"] = call(lambda: ps.cpu_count(logical=False))
        obs["cpu_stats"] = call(lambda: ps.cpu_stats())
        obs["boot_time"] = call(lambda: ps.boot_time())
    return obs


def nontrivial(case):
    dom = case["dom"]
    if dom == "sens":
        sensors = [s for c in case["chips"] for s in c["temps"] + c["fans"]]
        odd = any(s["input"]["st"] != "ok" or s["label"] is None or
                  ("max" in s and (s["max"]["st"] != "ok" or s["crit"]["st"] != "ok")) for s in sensors)
        return len(sensors) >= 2 and odd
    if dom == "therm":
        return any(len(z["trips"]) >= 2 for z in case["zones"])
    if dom == "bat":
        alt = any(b["fam"] in ("charge", "capacity", "both") or b["rate_file"] == "current_now" or b["tte"] is not None
                  for b in case["bats"])
        return bool(case["bats"]) and (alt or case["ac"] is None or case["ac"]["name"] != "AC0")
    if dom == "freq":
        return case["n"] >= 2 and (bool(case["offline"]) or not case["mhz"] or
                                   any(d["curfile"] == "cpuinfo_cur" for d in case["cpus"]))
    if dom == "cpu":
        return case["sysconf_fails"] or bool(case["offline"]) or case["threads"] >= 2
    return False


def bad_inputs(case):
    if case["dom"] == "sens":
        return sum(1 for c in case["chips"] for s in c["temps"] + c["fans"] if s["input"]["st"] != "ok")
    if case["dom"] == "therm":
        return sum(1 for z in case["zones"] if z["temp"]["st"] != "ok")
    return 0


def exc_viol(name, e, case, ctx):
    feature = ""
    if name == "battery" and case.get("psdir") == "absent" and isinstance(e, FileNotFoundError):
        feature = ":no_power_supply_class_dir"
    elif bad_inputs(case):
        feature = ":unreadable_or_missing_input_present"
    return (f"{name}_exception:{type(e).__name__}{feature}", f"{name} raised {e!r} {ctx}")


def evaluate(case, obs, ps, acc):
    """Oracle. -> viols"""
    viols = []
    dom = case["dom"]
    ctx = ""

    def val(name):
        kind, v = obs[name]
        if kind == "exc":
            viols.append(exc_viol(name, v, case, ctx))
            return None, False
        return v, True

    if dom in ("sens", "therm"):
        if dom == "sens":
            hw = exp_temps_of(case["chips"])
            cands = [hw]
            po = exp_temps_of(case["platform_only"])
            zn = exp_zones_of(case["zones"])
            if po:
                cands.append(merge(hw, po))
            if zn:
                cands.append(merge(hw, zn))
            if po and zn:
                cands.append(merge(hw, po, zn))
            thermal = False
        else:
            cands = [exp_zones_of(case["zones"])]
            thermal = True
        got, ok = val("temps")
        c_viols = []
        nameless = dom == "sens" and any(c.get("name_st", "ok") != "ok" for c in case["chips"])
        if nameless:
            acc.count("nameless_chip_cases")

        def known_names(g):
            # with a chip lacking a readable 'name' the statement does not say under which key (if any) its sensors
            # appear: only the entries of the named chips are decided - nothing of the nameless chip may leak into them
            if not (nameless and isinstance(g, dict)):
                return g
            names = set().union(*[set(c) for c in cands])
            return {k: v for k, v in g.items() if k in names}
        if ok:
            got = known_names(got)
            c_viols, n = best_candidate(got, cands, False, ctx, thermal)
            acc.count("thermal_zones_compared" if thermal else "temp_sensors_compared", n)
            if not c_viols and bad_inputs(case):
                acc.count("unreadable_inputs_skipped", bad_inputs(case))
            if not c_viols and not any(cands[0].values()) and got == {}:
                acc.count("empty_results_confirmed")
            viols.extend(c_viols)
        gotf, okf = val("temps_f")
        if okf and ok and not c_viols:
            gotf = known_names(gotf)
            f_viols, n = best_candidate(gotf, cands, True, ctx, thermal)
            acc.count("fahrenheit_values_compared", n)
            viols.extend(f_viols)
        if dom == "sens":
            gotfan, okfan = val("fans")
            if okfan:
                fv, n = compare_fans(gotfan, case, ctx)
                acc.count("fan_sensors_compared", n)
                viols.extend(fv)
                if not fv and not n and gotfan == {}:
                    acc.count("empty_results_confirmed")
        if thermal:
            acc.count("trip_points_generated", sum(len(z["trips"]) for z in case["zones"]))
    elif dom == "bat":
        got, ok = val("battery")
        if ok:
            acc.count("battery_results_compared")
            if got is None:
                acc.count("battery_none_results")
            viols.extend(compare_battery(got, case, ps, ctx))
    elif dom == "freq":
        gl, ok1 = val("freq_percpu")
        gm, ok2 = val("freq")
        if ok1 and ok2:
            fv, n = compare_freq(gl, gm, case, ctx)
            acc.count("cpufreq_entries_compared", n)
            acc.count("cpufreq_means_compared")
            viols.extend(fv)
        acc.count(f"freq_cases:{case['variant']}")
    elif dom == "cpu":
        logical, cores = exp_cpu(case)
        got, ok = val("count_logical")
        if ok:
            acc.count("cpu_count_comparisons")
            if case["sysconf_fails"]:
                acc.count("cpu_count_fallback_comparisons")
                if got != logical or type(got) is not int:
                    viols.append((f"cpu_count_logical_wrong:{case['cpuinfo']}",
                                  f"cpu_count() got {got!r} want {logical} (sysconf failing, cpuinfo style "
                                  f"{case['cpuinfo']}, offline {case['offline']})"))
            else:
                host = _env["real_sysconf"]("SC_NPROCESSORS_ONLN") if _env else os.cpu_count()
                if got != host:
                    viols.append(("cpu_count_logical_wrong:sysconf", f"cpu_count() got {got!r} want {host}"))
        got, ok = val("count_cores")
        if ok:
            acc.count("cpu_count_comparisons")
            if got != cores or (cores is not None and type(got) is not int):
                viols.append((f"cpu_count_cores_wrong:topo_{case['topo']}:{case['cpuinfo']}",
                              f"cpu_count(logical=False) got {got!r} want {cores} (topology files {case['topo']}, "
                              f"{case['sockets']}x{case['cores']}x{case['threads']}, offline {case['offline']})"))
            elif _env.get("last_cpu") not in (None, (logical, cores)):
                acc.count("cpu_count_followed_layout_change")
        if _env:
            _env["last_cpu"] = (logical, cores)
        got, ok = val("cpu_stats")
        if ok:
            acc.count("stat_comparisons", 3)
            try:
                g3 = (got.ctx_switches, got.interrupts, got.soft_interrupts)
            except AttributeError:
                g3 = got
            if g3 != (case["ctxt"], case["intr"], case["softirq"]):
                viols.append(("cpu_stats_wrong", f"got {got!r} want ctxt={case['ctxt']} intr={case['intr']} "
                                                 f"softirq={case['softirq']}"))
        got, ok = val("boot_time")
        if ok:
            acc.count("stat_comparisons")
            if not close(got, Fraction(case["btime"])):
                viols.append(("boot_time_wrong", f"got {got!r} want {case['btime']}"))
    return viols


def short(case):
    s = json.dumps(case, sort_keys=True)
    return s if len(s) < 1500 else s[:1500] + "..."


def run_case(case, acc):
    env = _env
    ps, vkernel = env["ps"], env["vkernel"]
    if case["dom"] == "freq" and case["variant"] != env["variant"]:
        acc.inconclusive = (f"case needs cpu_freq interpreter variant {case['variant']} but this worker imported "
                            f"psutil as {env['variant']}")
        return
    root = os.path.join(env["base"], "c")
    shutil.rmtree(root, ignore_errors=True)
    os.mkdir(root)
    t, vproc = render(case, root)
    vk = make_vk(vkernel, t, vproc)
    _SYSCONF["fail"] = bool(case.get("sysconf_fails"))
    try:
        with vk:
            obs = observe(ps, case)
            reordered = []
            if (case["dom"] == "bat" and len(case["bats"]) >= 2) or (case["dom"] != "bat" and harness.chash(case)[-2] in "0123"):
                # a directory listing has no order: the same tree listed differently is the same hardware
                for order in (lambda p, names: sorted(names), lambda p, names: sorted(names, reverse=True)):
                    vk.list_order = order
                    reordered.append(observe(ps, case))
                vk.list_order = None
    finally:
        _SYSCONF["fail"] = False
    viols = evaluate(case, obs, ps, acc)
    def unordered(r):
        # sensors of one chip come back as a list whose order is not promised; per-CPU lists are indexed by CPU number
        kind, v = r
        if kind != "ok":
            return (kind, type(v).__name__)
        if isinstance(v, dict):
            return (kind, repr({k: sorted(map(repr, x)) if isinstance(x, list) else repr(x) for k, x in sorted(v.items())}))
        return (kind, repr(v))
    for o2 in reordered:
        acc.count("listing_orders_compared")
        bad = [k for k in obs if k in o2 and unordered(obs[k]) != unordered(o2[k])]
        if bad:
            k = bad[0]
            viols.append(("battery_depends_on_listing_order" if k == "battery" else f"{k}_depends_on_listing_order",
                          f"{k}: {obs[k][1]!r}, and {o2[k][1]!r} when the same sysfs directories list the same entries in another order"))
            break
    viols = [(m, d + " | case=" + short(case)) for m, d in viols]
    acc.count("layouts:" + case["dom"])
    acc.case(case, nontrivial(case), viols)
    return obs


def probe_variant(acc):
    """Behavioural sanity check that `import psutil` saw the shimmed tree (harness validity, not a property)."""
    env = _env
    # cpuinfo variant: MHz only in cpuinfo (a sysfs-variant interpreter would find no cpufreq dir -> []);
    # sysfs variants: no MHz in cpuinfo (a cpuinfo-variant interpreter would return [])
    case = dict(dom="freq", variant=env["variant"], n=1, offline=[], offline_style="removed",
                mhz=env["variant"] == "cpuinfo",
                cpus=[dict(cur=1_500_000, min=1_000_000, max=2_000_000, curfile="scaling")])
    root = os.path.join(env["base"], "probe")
    os.mkdir(root)
    t, vproc = render(case, root)
    with make_vk(env["vkernel"], t, vproc):
        kind, got = call(lambda: env["ps"].cpu_freq(percpu=True))
    shutil.rmtree(root, ignore_errors=True)
    if kind != "ok" or len(got) != 1:
        acc.inconclusive = (f"interpreter variant probe: wanted {env['variant']} but cpu_freq(percpu=True) on the "
                            f"probe layout gave {got!r}")
        return False
    acc.count("variant_probe_ok:" + env["variant"])
    return True


# ----------------------------------------------------------------------------------------------------
# un-shimmed replay in a private mount namespace (validates the shim; disagreement = harness bug)
# ----------------------------------------------------------------------------------------------------

def ns_eligible(case):
    """layouts whose faults need no shim (missing file / directory in place of a file)"""
    plain = ("ok", "missing", "isdir")
    if case["dom"] == "therm":
        return all(z["temp"]["st"] in plain for z in case["zones"])
    if case["dom"] == "sens":
        sens = [s for c in case["chips"] + case["platform_only"] for s in c["temps"] + c["fans"]]
        return (all(s["input"]["st"] in plain for s in sens) and all(z["temp"]["st"] in plain for z in case["zones"])
                and all(c.get("name_st", "ok") in plain for c in case["chips"])
                and all(s[k]["st"] != "eacces" for s in sens if "max" in s for k in ("max", "crit")))
    return case["dom"] == "bat" and not any(b.get("bad") for b in case["bats"]) and not (case["ac"] or {}).get("bad")


def ser_obs(obs):
    return {k: (["ok", ser(v)] if kind == "ok" else ["exc", type(v).__name__]) for k, (kind, v) in obs.items()}


def ns_child(inp, outp):
    """Runs inside `unshare -m`: no vkernel, bind mounts over the real /sys paths."""
    import psutil
    with open(inp) as f:
        job = json.load(f)
    out = []
    base = job["base"]
    for i, case in enumerate(job["cases"]):
        root = os.path.join(base, f"ns{i}")
        os.mkdir(root)
        t, _vproc = render(case, root)
        mounted = []
        try:
            t.mkdir("platform")
            # the generated root has hwmon/ thermal/ power_supply/ sub-directories: it becomes /sys/class
            for src, dst in ((root, "/sys/class"), (t.real("platform"), SYS["platform"])):
                r = subprocess.run(["mount", "--bind", src, dst], capture_output=True, text=True)
                if r.returncode != 0:
                    raise RuntimeError(f"mount --bind failed: {r.stderr.strip()}")
                mounted.append(dst)
            out.append(ser_obs(observe(psutil, case)))
        finally:
            for m in reversed(mounted):
                subprocess.run(["umount", m], capture_output=True)
            shutil.rmtree(root, ignore_errors=True)
    with open(outp, "w") as f:
        json.dump(out, f)


def run_nsreplay(shard, acc):
    env = _env
    cases = []
    i = shard["start"]
    while len(cases) < shard["count"] and i < shard["start"] + 50 * shard["count"]:
        rng = harness.rng_for(shard["seed"], "c19", "ns", i)
        case = (gen_therm, gen_bat, gen_sens)[i % 3](rng)
        i += 1
        if ns_eligible(case):
            cases.append(case)
    shim = []
    for case in cases:
        obs = run_case(case, acc)
        shim.append(ser_obs(obs))
    inp = os.path.join(env["base"], "ns_in.json")
    outp = os.path.join(env["base"], "ns_out.json")
    with open(inp, "w") as f:
        json.dump(dict(base=env["base"], cases=cases), f)
    cmd = ["unshare", "-m", "--propagation", "private", sys.executable, "-B", "-m", "checks.c19", "nschild", inp, outp]
    try:
        p = subprocess.run(cmd, capture_output=True, text=True, timeout=300)
    except (OSError, subprocess.TimeoutExpired) as e:
        acc.count("nsreplay_unavailable")
        acc.extra["nsreplay"] = f"unavailable: {e!r}"
        return
    if p.returncode != 0 or not os.path.exists(outp):
        msg = (p.stderr or p.stdout or "").strip()[-400:]
        if "Operation not permitted" in msg or "unshare failed" in msg:
            acc.count("nsreplay_unavailable")
            acc.extra["nsreplay"] = f"unavailable: {msg}"
        else:
            acc.inconclusive = f"mount-namespace replay child failed rc={p.returncode}: {msg}"
        return
    with open(outp) as f:
        bare = json.load(f)
    for case, a, b in zip(cases, shim, bare):
        acc.count("nsreplay_layouts_compared")
        if a != b:
            acc.inconclusive = (f"shim and un-shimmed mount-namespace run disagree (harness bug): shim={a} "
                                f"bare={b} case={short(case)}")
            acc.count("nsreplay_disagreements")
    acc.extra["nsreplay"] = f"{len(bare)} layouts replayed un-shimmed (unshare -m + mount --bind), all compared"


# ----------------------------------------------------------------------------------------------------
# driver interface
# ----------------------------------------------------------------------------------------------------

def shard_env(shard):
    return {"PYTHONHASHSEED": str(shard.get("hashseed", 0))}


def plan(tier, seed):
    if tier == "quick":
        ngen, n, nns = 15, 12000, 24
    else:
        ngen, n, nns = 47, 300_000, 200
    shards = []
    for i, (s, c) in enumerate(harness.split_range(n, ngen)):
        shards.append(dict(kind="gen", seed=seed, start=s, count=c, variant=VARIANTS[i % 3], hashseed=i))
    shards.append(dict(kind="nsreplay", seed=seed, start=0, count=nns, variant="cpuinfo", hashseed=3))
    return shards


def run_shard(shard):
    acc = harness.Acc()
    variant = shard.get("variant") or "cpuinfo"
    if shard["kind"] == "cases":
        for case in shard["cases"]:
            if case.get("dom") == "freq":
                variant = case["variant"]
    setup(variant)
    try:
        acc.count("shards_with_hashseed:" + os.environ.get("PYTHONHASHSEED", "?"))
        if not probe_variant(acc):
            return acc.result()
        if shard["kind"] == "gen":
            for i in range(shard["start"], shard["start"] + shard["count"]):
                rng = harness.rng_for(shard["seed"], "c19", i)
                run_case(gen_case(rng, variant), acc)
        elif shard["kind"] == "nsreplay":
            run_nsreplay(shard, acc)
        elif shard["kind"] == "cases":
            for case in shard["cases"]:
                run_case(case, acc)
        acc.count("sysconf_interceptions", _SYSCONF["calls"])
    finally:
        teardown()
    return acc.result()


if __name__ == "__main__":
    if len(sys.argv) == 4 and sys.argv[1] == "nschild":
        ns_child(sys.argv[2], sys.argv[3])
