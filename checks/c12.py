"""C12 - cmdline/environ/exe/cwd and the extended name() decode what the kernel exposes.

Workload: one simulated process per case (vkernel ProcTable) whose cmdline / environ blocks, exe / cwd link
targets and comm are generated; the REAL psutil.Process getters run over it.
Oracle: the statement's decoding rules applied to the generator's *structures* (argv list / title text /
environment entry list / link parts), written independently of the code under test.
Where the statement is silent (see ASSUMPTIONS) every listed answer is accepted.
"""
import atexit
import errno
import os
import shutil
import sys
import tempfile

from vlib import harness

ID = "C12"
LEVEL = "exploration"
TECHNIQUE = ("runtime monitor: generated cmdline/environ blocks, exe/cwd link targets and (comm, argv[0]) pairs "
             "under the real Process getters, independent decoding-rule oracle, access-log check of exe() caching; live kernel: "
             "real children (hostile argv / environment bytes, 15-char and longer names via symlinks, deleted exe and cwd, zombie) "
             "vs the kernel's own records")
RULE = ("one case = one simulated process: argv (0-8 args: empty, spaces, non-UTF-8, CR/LF/TAB, trailing empty arg) "
        "rendered NUL-separated, or a setproctitle block (no NUL / one trailing NUL); an environment block "
        "(duplicates, '=' in values, entries without '=', empty entry followed by garbage); exe and cwd link targets "
        "(plain, NUL garbage, ' (deleted)' stale / gone / literal file name, withheld, zombie); comm of 1-15 bytes "
        "paired with argv[0] basenames around the 15-byte boundary; exe() is called twice. "
        "non-trivial = input taking a non-default branch of the rule (space split, duplicate key, entry without '=', "
        "early empty entry, NUL garbage, deleted suffix, withheld link, zombie, 15-byte name); distinct by case hash")
ASSUMPTIONS = [
    "cmdline/environ are served byte-exact as generated (fs/proc/base.c prints the argument area verbatim); "
    "zombie: empty cmdline, exe/cwd links ENOENT (ProcTable, compared with the live kernel)",
    "bytes are compared after os.fsdecode (surrogateescape), the library's documented string convention",
    "a single argument containing a space + NUL is byte-identical to a title block with a trailing NUL: both the "
    "one-element vector and the space split are accepted",
    "title blocks: consecutive spaces and a trailing space are not fixed by the statement - split(' '), split() and "
    "the split of the text minus one trailing space are all accepted; title blocks carry at most one (trailing) NUL",
    "environment: an entry with an empty NAME ('=x') and a final entry without a terminating NUL are don't-care",
    "' (deleted)': suffix must be removed when the undeleted path exists (stale), must be kept when a file with the "
    "literal name exists; when neither exists (really deleted) both answers are accepted",
    "NUL garbage always follows the path proper (as in psutil issue 717); the suffix rule applies after NUL stripping",
    "zombie: cmdline() must raise ZombieProcess; exe()/cwd() may raise ZombieProcess or return ''; environ() unchecked",
    "name(): the 15-*byte* rule is asserted for every comm, ASCII or not (the kernel cuts bytes; a name cut inside a multi-byte "
    "character is completed from cmdline()[0] when the basename's bytes start with it)",
    "the caller's working directory is the directory of the fixture programs for half of the cases; a relative argv[0] is "
    "never a guess for exe(), whatever it resolves to for the caller",
    "three extra shard groups run in an interpreter whose filesystem encoding is ASCII (LC_ALL=C, UTF-8 mode and coercion off)",
    "'executable file' = os.path.isfile and os.access(X_OK) evaluated by the oracle on the real file system",
    "exe() caching = the second call returns the same value and performs no access to the simulated procfs",
]
REQUIRED_COUNTERS = ["cmdline_compared", "environ_compared", "exe_compared", "cwd_compared", "name_compared",
                     "exe_second_call_checked", "name_extension_applied", "deleted_suffix_cases",
                     "withheld_exe_fallback_taken", "zombie_cmdline_raised"]


def _b(s):
    return s.encode("latin-1")


def _s(b):
    return b.decode("latin-1")


# ------------------------------------------------------------------------------------------------
# real files the link targets / argv[0] may point to ("$T" in a case is this directory)
# ------------------------------------------------------------------------------------------------

_env = {}


def setup():
    if _env:
        return _env
    from vlib import psu, vkernel
    from vlib.proctable import ProcTable
    ps = psu.load()
    ps.PROCFS_PATH = "/vproc"
    tmp = tempfile.mkdtemp(prefix="c12_")
    atexit.register(shutil.rmtree, tmp, True)
    for name, mode in (("real_exe", 0o755), ("plain_file", 0o644), ("lit (deleted)", 0o755), ("my exe", 0o755),
                       ("exe_long_name_0123456789", 0o755),
                       # executable for some, not for "others" (what counts is os.access() for the caller)
                       ("exe_0700", 0o700), ("exe_0750", 0o750), ("exe_0500", 0o500), ("exe_0711", 0o711)):
        with vkernel.real_open(os.path.join(tmp, name), "wb") as f:
            f.write(b"#!/bin/sh\n")
        os.chmod(os.path.join(tmp, name), mode)
    os.mkdir(os.path.join(tmp, "real_dir"))
    os.mkdir(os.path.join(tmp, "litdir (deleted)"))
    _env.update(ps=ps, vkernel=vkernel, ProcTable=ProcTable, tmp=tmp)
    return _env


def subst(s, tmp):
    if s.startswith("$L"):              # "$L<n>": an argument of n bytes (kept short in the case record)
        return "L" * int(s[2:])
    return s.replace("$T", tmp)


# ------------------------------------------------------------------------------------------------
# generator
# ------------------------------------------------------------------------------------------------

ARG_POOL = [b"", b"-v", b"--opt=val", b"a b", b" ", b"  ", b"x ", b" x", b"\xff\xfe", b"\xc3\xa9", b"\xe2\x82\xac",
            b"\xc3", b"--name=J\xf6rg", b"-", b"--", b"=", b"a=b=c", b"/etc/passwd", b"*", b"'q'", b'"', b"\\",
            b"\t", b"a\tb", b"a\nb", b"\n", b"0", b"arg with  two spaces", b"\x01\x7f", b"\xf0\x9f\x98\x80"]
CR_ARGS = [b"a\rb", b"\r", b"line1\r\nline2", b"trailing\r"]
TITLES = ["nginx: worker process", "postgres: writer process", "sshd: user@pts/0", "kworker", "a b", "a  b",
          "chrome --type=renderer --lang=en-US", "x ", " x", " ", "  ", "prog: idle ", "php-fpm: pool www",
          "\xc3\xa9t\xc3\xa9 mode", "a\tb c", "ruby: \xff bad"]
ENV_POOL = [b"HOME=/root", b"PATH=/usr/bin:/bin", b"A=1", b"A=2", b"A=", b"B==", b"B=x=y", b"EMPTY=", b"NOEQUALS",
            b"LANG=en_US.UTF-8", b"K=\xff\xfe", b"\xc3\xa9=\xc3\xa9", b"K E Y=v a l", b"X=\t", b"ML=a\nb", b"_=/bin/x",
            b"novalue", b"a", b"A=3", b"PATH=", b"HOME=/home/u", b"BASH_FUNC_x%%=() { :; }", b"Z= "]
ENV_CR = [b"CR=a\rb", b"CRLF=1\r\n2"]
ENV_DONTCARE = [b"=x", b"==", b"=C:=C:\\"]
PLAIN_TARGETS = ["/usr/bin/python3.12", "/", "/bin/sh", "/home/user/my dir/app", "/opt/x (deleted)/bin/app",
                 "/tmp/\xc3\xa9", "/tmp/\xff\xfe", "/usr/lib/firefox/firefox ", "/a", "/proc/1/root",
                 "/x/(deleted)", "/x/y(deleted)", "/tmp/ (deleted).d", "$T/real_exe", "$T/real_dir", "$T/my exe"]
NUL_GARBAGE = ["\0 (deleted)", "\0new", "\0garbage", "\0", "\0\0", "\0xx\0yy", "\0/other/path"]


def gen_comm_and_argv0(rng):
    """-> (comm bytes <= 15, argv0 bytes) around the 15-byte truncation boundary."""
    c = rng.randrange(12)
    if c < 6:
        n = rng.choice([9, 13, 14, 15, 15, 16, 16, 17, 20, 24])
        full = bytes(rng.choice(b"abcdefghijklmnopqrstuvwxyz-_.0123456789") for _ in range(n))
    elif c < 8:
        full = rng.choice([b"gnome-keyring-daemon", b"systemd-journald", b"NetworkManager", b"exe_long_name_0123456789",
                           b"Web Content Process", b"kworker/u16:3-events", b"(sd-pam) (sd-pam)", b"a) b (c d e f g h"])
    elif c < 10:
        # multi-byte / invalid bytes near the boundary (bytes != characters)
        pre = rng.choice([13, 14, 12, 10])
        full = bytes(rng.choice(b"abcxyz") for _ in range(pre)) + rng.choice(
            [b"\xc3\xa9", b"\xe2\x82\xac", b"\xff", b"\xc3\xa9\xc3\xa9"]) + bytes(
            rng.choice(b"abcxyz") for _ in range(rng.choice([0, 1, 3])))
    else:
        full = bytes(rng.choice(b"abcxyz") for _ in range(rng.choice([1, 2, 5, 8])))
    if rng.random() < 0.06:
        # /proc/PID/comm takes any byte but NUL, and the stat record prints it raw: line breaks, tabs, "(x) R 1" look-alikes
        k = rng.randrange(len(full) + 1)
        full = (full[:k] + rng.choice([b"\n", b"\r\n", b"\n(y) R 1 ", b"\t", b"\x0b", b") S 1 ("]) + full[k:])[:rng.choice([15, 15, 20, 9])] or b"\n"
    comm = full[:15]
    v = rng.randrange(12)
    if v < 3:
        argv0 = full
    elif v < 6:
        argv0 = rng.choice([b"/usr/bin/", b"/opt/my app/", b"./", b"../x/", b"/"]) + full
    elif v == 6:
        argv0 = full[:-1] if len(full) > 1 else b"q"          # shorter than comm / no longer a prefix
    elif v == 7:
        argv0 = b"/usr/bin/X" + full                              # comm in the middle
    elif v == 8:
        argv0 = b"/usr/bin/" + full + b"/"                        # trailing slash -> empty basename
    elif v == 9:
        argv0 = rng.choice([b"/usr/bin/python3", b"", b"-bash", b"sh"])
    elif v == 10:
        argv0 = b"/usr/bin/" + full + rng.choice([b"x", b"-helper", b" --flag"])
    else:
        argv0 = b"$T/" + full if full == b"exe_long_name_0123456789" else rng.choice(
            [b"$T/real_exe", b"$T/plain_file", b"$T/real_dir", b"$T/gone", b"real_exe", b"$T/my exe",
             b"$T/exe_long_name_0123456789"])
    return comm, argv0


def gen_cmd(rng, argv0):
    r = rng.random()
    if r < 0.05:
        return dict(kind="argv", argv=[])
    if r < 0.62:
        n = rng.choice([1, 1, 2, 2, 3, 4, 6, 8])
        args = [argv0]
        for _ in range(n - 1):
            c = rng.random()
            if c < 0.75:
                args.append(rng.choice(ARG_POOL))
            elif c < 0.77:
                args.append(rng.choice(CR_ARGS))
            elif c < 0.82:
                args.append(b"$L%d" % rng.choice([4096, 32767, 32768, 40000]))
            else:
                args.append(bytes(rng.choice(b"ab -=/\xff\xc3\xa9") for _ in range(rng.randrange(0, 12))))
        if rng.random() < 0.15:
            args.append(b"")
        return dict(kind="argv", argv=[_s(a) for a in args])
    # setproctitle: the first word is argv0's text up to its first space (keeps the name rule meaningful)
    first = argv0.replace(b"\0", b"")
    words = [_s(first)] if first else []
    if rng.random() < 0.5:
        words += rng.choice(TITLES).split(" ")
    else:
        words += ["".join(rng.choice("abz:-/") for _ in range(rng.randrange(0, 6))) for _ in range(rng.randrange(0, 5))]
    text = " ".join(words)
    if rng.random() < 0.1:
        text += " "
    if rng.random() < 0.1:
        text = rng.choice(TITLES)
    return dict(kind="title" if r < 0.81 else "title_nul", text=text)


def gen_env(rng):
    n = rng.choice([0, 1, 2, 3, 5, 8, 12])
    entries = []
    for _ in range(n):
        c = rng.random()
        if c < 0.72:
            entries.append(rng.choice(ENV_POOL))
        elif c < 0.735:
            entries.append(rng.choice(ENV_CR))
        elif c < 0.79:
            entries.append(rng.choice(ENV_DONTCARE))
        elif c < 0.85 and entries:
            k = rng.choice(entries).split(b"=", 1)[0]
            entries.append(k + b"=dup%d" % rng.randrange(100))
        elif c < 0.90:
            entries.append(b"")
        else:
            entries.append(bytes(rng.choice(b"AB=\xffx ") for _ in range(rng.randrange(1, 8))))
    if rng.random() < 0.25:
        # an empty entry followed by garbage that must not be reported
        entries += [b""] + [rng.choice([b"GARBAGE=1", b"\xff\xff", b"A=garbage", b"x", b"", b"HOME=/garbage"])
                            for _ in range(rng.randrange(0, 4))]
    terminated = not entries or rng.random() >= 0.06
    return dict(entries=[_s(e) for e in entries], terminated=terminated)


def gen_link(rng, which):
    r = rng.random()
    if r < 0.30:
        t = rng.choice(PLAIN_TARGETS)
        return dict(form="plain", target=t)
    if r < 0.45:
        t = rng.choice(PLAIN_TARGETS)
        return dict(form="nul", target=t, garbage=rng.choice(NUL_GARBAGE))
    if r < 0.57:
        base = "$T/real_exe" if which == "exe" else rng.choice(["$T/real_dir", "$T/real_exe"])
        return dict(form="deleted_stale", target=base)
    if r < 0.67:
        base = rng.choice(["$T/gone", "/usr/bin/vanished-%d" % rng.randrange(1000), "$T/real_dir/gone", "/memfd:x"])
        return dict(form="deleted_gone", target=base)
    if r < 0.77:
        return dict(form="deleted_literal", target="$T/lit" if which == "exe" else rng.choice(["$T/litdir", "$T/lit"]))
    if r < 0.82:
        return dict(form="nul_deleted_stale", target="$T/real_exe", garbage=rng.choice(NUL_GARBAGE))
    # the kernel withholds the link of a live process: ENOENT (kernel thread, no executable) or ESRCH (exec / exit in
    # progress, upstream issues #503 / #2514) while /proc/<pid> itself stays visible
    return dict(form=rng.choice(["withheld", "withheld", "withheld_esrch"]))


def gen_case(rng):
    comm, argv0 = gen_comm_and_argv0(rng)
    exe = gen_link(rng, "exe")
    if exe["form"].startswith("withheld") and rng.random() < 0.6:
        # the fallback of exe() looks at argv[0]
        argv0 = rng.choice([b"$T/real_exe", b"$T/plain_file", b"$T/real_dir", b"$T/gone", b"real_exe", b"$T/my exe",
                            b"$T/exe_long_name_0123456789", b"/bin/sh", b"/nonexistent/x", b"$T/lit (deleted)",
                            b"$T/exe_0700", b"$T/exe_0750", b"$T/exe_0500", b"$T/exe_0711",
                            # relative names (never a guess: the process may live in another directory than the caller - which
                            # for half of the cases is the directory holding a program of that very name) and an absolute one
                            # that is not normalized (reported as the process wrote it)
                            b"./real_exe", b"real_dir/../real_exe", b"$T/real_dir/../real_exe", b"$T//real_exe"])
    case = dict(pid=rng.choice([7, 50, 4194303, 123456]), comm=_s(comm), zombie=rng.random() < 0.07,
                cmd=gen_cmd(rng, argv0), env=gen_env(rng), exe=exe, cwd=gen_link(rng, "cwd"))
    return case


def boundary_cases():
    """(comm, argv[0]) pairs around the 15-byte boundary, every link form, the documented corner blocks."""
    out = []
    base = dict(pid=50, zombie=False, env=dict(entries=["A=1"], terminated=True), exe=dict(form="plain", target="/bin/x"),
                cwd=dict(form="plain", target="/"))
    alpha = "abcdefghijklmnopqrstuvwxyz"
    for n in range(12, 19):
        full = alpha[:n]
        comm = full[:15]
        for argv0 in (full, "/usr/bin/" + full, full + "x", "X" + full, full[:14], full[:15], "/a/" + full[:15] + "/",
                      "", "/usr/bin/" + full[:13] + "ZZ" + full[15:], "./" + full, "/my dir/" + full):
            for cmd in (dict(kind="argv", argv=[argv0, "arg"]), dict(kind="argv", argv=[argv0]),
                        dict(kind="title", text=argv0 + ": worker"), dict(kind="title_nul", text=argv0 + " -x")):
                out.append(dict(base, comm=comm, cmd=cmd))
        out.append(dict(base, comm=comm, cmd=dict(kind="argv", argv=[]), zombie=False))
        out.append(dict(base, comm=comm, cmd=dict(kind="argv", argv=[full]), zombie=True))
    for argv in ([], [""], ["", ""], ["a", ""], ["", "a"], ["a b"], ["a b", "c"], ["a b", ""], [" "], ["a", " "],
                 ["\xff"], ["a\rb"], ["x", "a\r\nb"], ["x", "\n"], ["x"] * 8):
        out.append(dict(base, comm="proc", cmd=dict(kind="argv", argv=argv)))
    for text in TITLES + ["a", "a b c"]:
        for kind in ("title", "title_nul"):
            out.append(dict(base, comm="proc", cmd=dict(kind=kind, text=text)))
    for entries, term in ((["A=1", "A=2"], True), (["A=1", "B", "A=2"], True), (["A=1", "", "B=2"], True),
                          (["", "A=1"], True), (["A=1", "B=2"], False), (["A==", "B=x=y"], True), ([], True),
                          (["=x", "A=1"], True), (["A=1", "A=2", "A=1"], True), (["A=\xff"], True), (["A=a\rb"], True),
                          (["NOEQ"], True), (["A=1", "", "", "A=9"], True)):
        out.append(dict(base, comm="proc", cmd=dict(kind="argv", argv=["x"]), env=dict(entries=entries, terminated=term)))
    links = [dict(form="plain", target=t) for t in PLAIN_TARGETS]
    links += [dict(form="nul", target="/bin/x", garbage=g) for g in NUL_GARBAGE]
    links += [dict(form="nul_deleted_stale", target="$T/real_exe", garbage=g) for g in NUL_GARBAGE[:2]]
    links += [dict(form="deleted_stale", target="$T/real_exe"), dict(form="deleted_stale", target="$T/real_dir"),
              dict(form="deleted_gone", target="$T/gone"), dict(form="deleted_gone", target="/usr/bin/vanished"),
              dict(form="deleted_literal", target="$T/lit"), dict(form="deleted_literal", target="$T/litdir"),
              dict(form="withheld"), dict(form="withheld_esrch")]
    for ln in links:
        for argv0 in ("$T/real_exe", "$T/plain_file", "$T/real_dir", "$T/gone", "real_exe", "$T/my exe", "",
                      "$T/exe_0700", "$T/exe_0750", "$T/exe_0500", "./real_exe", "$T/real_dir/../real_exe"):
            for zombie in (False, True):
                out.append(dict(base, comm="proc", zombie=zombie, exe=ln, cwd=ln,
                                cmd=dict(kind="argv", argv=[argv0, "x"])))
        out.append(dict(base, comm="proc", exe=ln, cwd=ln, cmd=dict(kind="title", text="$T/real_exe --serve")))
        out.append(dict(base, comm="proc", exe=ln, cwd=ln, cmd=dict(kind="title_nul", text="$T/my exe")))
        out.append(dict(base, comm="proc", exe=ln, cwd=ln, cmd=dict(kind="argv", argv=[])))
    return out


# ------------------------------------------------------------------------------------------------
# rendering (what the kernel exposes)
# ------------------------------------------------------------------------------------------------

def render_cmdline(cmd, tmp):
    if cmd["kind"] == "argv":
        return b"".join(_b(subst(a, tmp)) + b"\0" for a in cmd["argv"])
    text = _b(subst(cmd["text"], tmp))
    return text + (b"\0" if cmd["kind"] == "title_nul" else b"")


def render_environ(env):
    ents = [_b(e) for e in env["entries"]]
    if not ents:
        return b""
    return b"\0".join(ents) + (b"\0" if env["terminated"] else b"")


def render_link(ln, tmp):
    """-> target str as os.readlink would return it, or None (withheld)."""
    f = ln["form"]
    if f == "withheld":
        return None
    if f == "withheld_esrch":
        return ProcessLookupError(errno.ESRCH, os.strerror(errno.ESRCH))
    t = subst(ln["target"], tmp)
    if f == "nul":
        t += ln["garbage"]
    elif f in ("deleted_stale", "deleted_gone", "deleted_literal"):
        t += " (deleted)"
    elif f == "nul_deleted_stale":
        t += " (deleted)" + ln["garbage"]
    return os.fsdecode(_b(t))


# ------------------------------------------------------------------------------------------------
# oracle: the statement's rules over the generator's structures
# ------------------------------------------------------------------------------------------------

def title_variants(text):
    out = {tuple(text.split(" ")), tuple(text.split())}
    if text.endswith(" "):
        out.add(tuple(text[:-1].split(" ")))
    return out


def want_cmdline(cmd, tmp):
    """-> set of acceptable argument vectors (tuples of str)."""
    if cmd["kind"] == "argv":
        argv = [os.fsdecode(_b(subst(a, tmp))) for a in cmd["argv"]]
        out = {tuple(argv)}
        if len(argv) == 1 and " " in argv[0]:
            out |= title_variants(argv[0])          # byte-identical to a title block + NUL
        return out
    text = os.fsdecode(_b(subst(cmd["text"], tmp)))
    if text == "":
        return {()} if cmd["kind"] == "title" else {("",)}
    if cmd["kind"] == "title_nul" and " " not in text:
        return {(text,)}
    return title_variants(text)


def want_environ(env):
    """-> list of acceptable dicts."""
    ents = [_b(e) for e in env["entries"]]
    outs = [{}]
    for i, e in enumerate(ents):
        if e == b"":
            break                                   # "up to the first empty entry"
        if b"=" not in e:
            continue                                # "entries without '=' ignored"
        k, v = (os.fsdecode(x) for x in e.split(b"=", 1))
        dontcare = k == "" or (i == len(ents) - 1 and not env["terminated"])
        new = []
        for d in outs:
            d2 = dict(d)
            d2[k] = v                               # "the last duplicate winning"
            new.append(d2)
            if dontcare:
                new.append(d)
        outs = new
    return outs


def want_link(ln, tmp):
    """-> set of acceptable strings for a live process."""
    f = ln["form"]
    if f.startswith("withheld"):
        return {""}
    t = os.fsdecode(_b(subst(ln["target"], tmp)))
    if f in ("plain", "nul", "deleted_stale", "nul_deleted_stale"):
        return {t}
    if f == "deleted_gone":
        return {t, t + " (deleted)"}
    if f == "deleted_literal":
        return {t + " (deleted)"}
    raise ValueError(f)


def is_exec_file(path):
    try:
        return path.startswith("/") and os.path.isfile(path) and os.access(path, os.X_OK)
    except (ValueError, OSError):
        return False


def want_exe(ln, tmp, cmdlines):
    if not ln["form"].startswith("withheld"):
        return want_link(ln, tmp), False
    out = set()
    fb = False
    for c in cmdlines:
        if c and is_exec_file(c[0]):
            out.add(c[0])
            fb = True
        else:
            out.add("")
    return out, fb


def want_name(comm_b, cmdlines):
    """-> (set of acceptable names, extension applied?)."""
    comm = os.fsdecode(comm_b)
    ascii_ = all(c < 0x80 for c in comm_b)
    out, applied = set(), False
    for c in cmdlines:
        ext = []
        if len(comm_b) == 15 and c:
            base = c[0].rsplit("/", 1)[-1]
            if os.fsencode(base).startswith(comm_b):
                ext.append(base)
        if not ext:
            out.add(comm)
        else:
            # the statement counts *bytes* (that is what the kernel cuts at), whatever characters they make up
            out.add(ext[0])
            applied = True
    return out, applied


def nontrivial(case, tmp):
    cmd = case["cmd"]
    if case["zombie"] or len(_b(case["comm"])) == 15:
        return True
    if cmd["kind"] != "argv" and " " in cmd["text"]:
        return True
    if cmd["kind"] == "argv" and any(a == "" or " " in a or any(ord(ch) >= 0x80 for ch in a) for a in cmd["argv"]):
        return True
    ents = case["env"]["entries"]
    keys = [e.split("=", 1)[0] for e in ents if "=" in e]
    if len(keys) != len(set(keys)) or any("=" not in e for e in ents) or not case["env"]["terminated"]:
        return True
    return case["exe"]["form"] != "plain" or case["cwd"]["form"] != "plain"


# ------------------------------------------------------------------------------------------------
# running a case
# ------------------------------------------------------------------------------------------------

def _cr_fold(x):
    if isinstance(x, str):
        return x.replace("\r\n", "\n").replace("\r", "\n")
    if isinstance(x, tuple):
        return tuple(_cr_fold(i) for i in x)
    if isinstance(x, dict):
        return {_cr_fold(k): _cr_fold(v) for k, v in x.items()}
    return x


def run_case(case, acc):
    # the caller's own working directory is part of the configuration: for half of the cases it is the directory that holds the
    # fixture programs (so that a relative argv[0] names an executable *of the caller's*)
    tmp = setup()["tmp"]
    old_cwd = os.getcwd()
    inside = harness.chash(case)[-4] in "01234567"
    if inside:
        os.chdir(tmp)
        acc.count("cases_run_with_the_callers_cwd_among_the_fixture_programs")
    try:
        _run_case(case, acc)
    finally:
        if inside:
            os.chdir(old_cwd)


def _run_case(case, acc):
    env = setup()
    ps, vkernel, ProcTable, tmp = env["ps"], env["vkernel"], env["ProcTable"], env["tmp"]
    comm_b = _b(case["comm"])
    t = ProcTable(btime=1_700_000_000)
    t.spawn(1, 1, ppid=0, comm=b"init")
    p = t.spawn(case["pid"], 4242, ppid=1, comm=comm_b)
    block = render_cmdline(case["cmd"], tmp)
    p.cmdline = block
    p.environ = render_environ(case["env"])
    p.exe = render_link(case["exe"], tmp)
    p.cwd = render_link(case["cwd"], tmp)
    if case["zombie"]:
        t.exit(case["pid"])
    if harness.chash(case)[-1] in "01":
        t.fake_getpid = case["pid"]        # one case in eight: the process inspects itself (os.getpid() answers its pid)
        acc.count("cases_where_the_process_inspects_itself")
    vk = vkernel.VK()
    vk.table = t
    vk.mount("/vproc", t)
    viols = []
    zombie = case["zombie"]
    ckind = case["cmd"]["kind"]

    def call(fn):
        try:
            return ("ok", fn())
        except Exception as e:  # noqa: BLE001
            return ("exc", e)

    with vk:
        try:
            pr = ps.Process(case["pid"])
        except Exception as e:  # noqa: BLE001
            acc.case(case, True, [("construct_exception", f"Process() raised {e!r}")])
            return
        moved = harness.chash(case)[-2] in "012"
        if moved:
            # psutil.PROCFS_PATH is re-pointed after the object was made: the object keeps describing the process of the procfs
            # it was created on; the new tree has somebody else under the same pid (same start time)
            tb = ProcTable(btime=1_700_000_000)
            tb.spawn(1, 1, ppid=0, comm=b"init")
            pb = tb.spawn(case["pid"], 4242, ppid=1, comm=b"somebody-else")
            pb.cmdline = b"/sbin/somebody-else\0--other\0"
            pb.environ = b"WHO=else\0"
            pb.exe = "/sbin/somebody-else"
            pb.cwd = "/var/empty"
            vk.mount("/vprocB", tb)
            ps.PROCFS_PATH = "/vprocB"
            acc.count("cases_with_procfs_path_moved_after_construction")
        r_cmd = call(pr.cmdline)
        r_env = call(pr.environ)
        r_exe = call(pr.exe)
        n0 = len(vk.log)
        r_exe2 = call(pr.exe)
        exe2_accesses = vk.log[n0:]
        r_cwd = call(pr.cwd)
        r_name = call(pr.name)
        # the process changes its command line afterwards (exec of another long-named program, a rewritten title): name() is
        # computed from what the kernel exposes *now*, also on an object that answered before
        r_name_after = None
        if len(comm_b) == 15 and not zombie and all(c < 0x80 for c in comm_b):
            suffix = "-two" if case["pid"] % 2 else ""
            new_argv0 = "/opt/other dir/" + os.fsdecode(comm_b) + suffix if case["pid"] % 3 else "/usr/bin/unrelated-name"
            p.cmdline = os.fsencode(new_argv0) + b"\0--flag\0"
            r_name_after = (call(pr.name), new_argv0)
            p.cmdline = block
        if moved:
            ps.PROCFS_PATH = "/vproc"
        # the same record through the other call paths: a fresh object asked in the opposite order inside a oneshot()
        # block, and as_dict() on a third one. A static record must read the same whichever path is taken.
        plain = dict(cmdline=r_cmd, environ=r_env, exe=r_exe, cwd=r_cwd, name=r_name)
        alt = {}
        try:
            pr2 = ps.Process(case["pid"])
            with pr2.oneshot():
                for m in ("name", "cwd", "exe", "environ", "cmdline"):
                    alt[m] = call(getattr(pr2, m))
            r_dict = call(lambda: ps.Process(case["pid"]).as_dict(attrs=list(plain), ad_value="<ad>"))
        except Exception as e:  # noqa: BLE001
            viols.append((f"second_object_exception:{type(e).__name__}", repr(e)))
            r_dict = None

    # a transient failure inside the first exe() call (the guess reads the command line) must not be remembered as an answer
    if case["exe"]["form"].startswith("withheld") and not zombie:
        with vk:
            try:
                pr3 = ps.Process(case["pid"])
                armed = [True]

                def once(kind, path, armed=armed):
                    if armed[0] and kind == "open" and path.endswith("/cmdline"):
                        armed[0] = False
                        return OSError(24, "Too many open files", path)
                    return None
                vk.rules.append(once)
                first = call(pr3.exe)
                armed[0] = False
                later = call(pr3.exe)
                acc.count("exe_after_transient_failure_checked")
                if first[0] == "exc" and not isinstance(first[1], OSError):
                    viols.append((f"exe_exception:{type(first[1]).__name__}:transient_failure_in_guess", repr(first[1])))
                if later != r_exe:
                    viols.append(("exe_wrong_after_transient_failure_in_first_call",
                                  f"first exe() hit EMFILE while reading the command line -> {first!r}; the next call -> {later!r}, "
                                  f"an untroubled object answers {r_exe!r}"))
            except Exception as e:  # noqa: BLE001
                viols.append((f"second_object_exception:{type(e).__name__}", repr(e)))

    def same(a, b):
        if a[0] != b[0]:
            return False
        return a[1] == b[1] if a[0] == "ok" else type(a[1]) is type(b[1])
    for m, r in alt.items():
        acc.count("call_path_comparisons")
        if not same(r, plain[m]):
            viols.append((f"{m}_differs_in_oneshot_block", f"{m}(): plain {plain[m]!r} vs reversed order in oneshot() {r!r}"))
    if r_dict is not None:
        if r_dict[0] == "exc":
            # as_dict() lets through whatever is neither AccessDenied nor ZombieProcess
            bad = [m for m, r in plain.items() if r[0] == "exc" and type(r[1]) is type(r_dict[1])]
            if not bad:
                viols.append((f"as_dict_exception:{type(r_dict[1]).__name__}", f"as_dict raised {r_dict[1]!r}; plain calls: {plain!r}"[:600]))
        else:
            for m, r in plain.items():
                acc.count("call_path_comparisons")
                got = r_dict[1].get(m)
                if r[0] == "ok":
                    ok = got == r[1]
                else:
                    ok = got == "<ad>" and isinstance(r[1], (ps.AccessDenied, ps.ZombieProcess))
                if not ok:
                    viols.append((f"{m}_differs_via_as_dict", f"{m}: plain {r!r} vs as_dict {got!r}"))

    # ---- cmdline
    acc.count("cmdline_compared")
    cmdlines = want_cmdline(case["cmd"], tmp) if not zombie else set()
    if zombie:
        if r_cmd[0] == "exc" and isinstance(r_cmd[1], ps.ZombieProcess):
            acc.count("zombie_cmdline_raised")
        else:
            viols.append(("cmdline_zombie_not_raised", f"zombie: cmdline() -> {r_cmd!r}, want ZombieProcess"))
    elif r_cmd[0] == "exc":
        viols.append((f"cmdline_exception:{type(r_cmd[1]).__name__}", f"cmdline() raised {r_cmd[1]!r} block={block[:200]!r}"))
    else:
        got = r_cmd[1]
        if not isinstance(got, list) or not all(isinstance(a, str) for a in got):
            viols.append(("cmdline_bad_type", f"cmdline() -> {got!r}"))
        elif tuple(got) not in cmdlines:
            if b"\r" in block and tuple(got) in {_cr_fold(c) for c in cmdlines}:
                mech = "cmdline_cr_translated_to_lf"
            else:
                mech = f"cmdline_wrong:{ckind}"
            viols.append((mech, f"cmdline() -> {str(got)[:300]!r} want one of {str(sorted(cmdlines))[:300]} "
                                f"block={block[:200]!r}"))
        if ckind != "argv" or (len(case["cmd"]["argv"]) == 1 and " " in case["cmd"]["argv"][0]):
            acc.count("title_blocks_compared")

    # ---- environ
    if not zombie:
        acc.count("environ_compared")
        wants = want_environ(case["env"])
        eblock = p.environ
        if r_env[0] == "exc":
            viols.append((f"environ_exception:{type(r_env[1]).__name__}", f"environ() raised {r_env[1]!r} block={eblock[:200]!r}"))
        elif r_env[1] not in wants:
            if b"\r" in eblock and r_env[1] in [_cr_fold(w) for w in wants]:
                mech = "environ_cr_translated_to_lf"
            else:
                ents = case["env"]["entries"]
                keys = [e.split("=", 1)[0] for e in ents if "=" in e]
                feat = ("empty_entry" if "" in ents else "duplicate" if len(keys) != len(set(keys))
                        else "no_equals" if any("=" not in e for e in ents) else "plain")
                mech = f"environ_wrong:{feat}"
            viols.append((mech, f"environ() -> {str(r_env[1])[:300]} want {str(wants[0])[:300]} block={eblock[:200]!r}"))

    # ---- exe (+ caching) and cwd
    def check_link(name, res, want, form):
        if zombie:
            ok = (res[0] == "exc" and isinstance(res[1], ps.ZombieProcess)) or res == ("ok", "")
            if not ok:
                viols.append((f"{name}_zombie_unexpected", f"zombie: {name}() -> {res!r}"))
            return
        if res[0] == "exc":
            viols.append((f"{name}_exception:{type(res[1]).__name__}", f"{name}() raised {res[1]!r} form={form}"))
        elif res[1] not in want:
            viols.append((f"{name}_wrong:{form}", f"{name}() -> {res[1]!r} want {sorted(want)!r} link="
                                                  f"{render_link(case[name], tmp)!r}"))

    acc.count("exe_compared")
    wexe, fb = want_exe(case["exe"], tmp, cmdlines or {()})
    check_link("exe", r_exe, wexe, case["exe"]["form"])
    if fb and not zombie and r_exe == ("ok", next(iter(wexe))) and len(wexe) == 1:
        acc.count("withheld_exe_fallback_taken")
    if r_exe[0] == "ok":
        acc.count("exe_second_call_checked")
        if r_exe2 != r_exe:
            viols.append(("exe_second_call_differs", f"exe() -> {r_exe[1]!r} then {r_exe2!r}"))
        if exe2_accesses:
            viols.append(("exe_not_cached", f"second exe() performed {len(exe2_accesses)} accesses: {exe2_accesses[:4]!r}"))
    acc.count("cwd_compared")
    check_link("cwd", r_cwd, want_link(case["cwd"], tmp), case["cwd"]["form"])
    for which in ("exe", "cwd"):
        if case[which]["form"].startswith("deleted") or case[which]["form"] == "nul_deleted_stale":
            acc.count("deleted_suffix_cases")

    # ---- name
    acc.count("name_compared")
    wname, applied = want_name(comm_b, cmdlines or {()})
    if r_name[0] == "exc":
        viols.append((f"name_exception:{type(r_name[1]).__name__}", f"name() raised {r_name[1]!r} comm={comm_b!r}"))
    elif r_name[1] not in wname:
        feat = ("15_byte_comm" + ("" if all(c < 0x80 for c in comm_b) else ":non_ascii")) if len(comm_b) == 15 else "short_comm"
        viols.append((f"name_wrong:{feat}", f"name() -> {r_name[1]!r} want {sorted(wname)!r} comm={comm_b!r} "
                                            f"cmdline={str(r_cmd[1])[:200]}"))
    elif applied and len(wname) == 1:
        acc.count("name_extension_applied")
    if len(comm_b) == 15 and not applied:
        acc.count("name_15_bytes_not_extended")
    if r_name_after is not None:
        res2, argv0 = r_name_after
        w2, _a2 = want_name(comm_b, {(argv0, "--flag")})
        acc.count("name_after_cmdline_change_checked")
        if res2[0] == "exc":
            viols.append((f"name_exception:{type(res2[1]).__name__}", f"after the command line changed: {res2[1]!r}"))
        elif res2[1] not in w2:
            viols.append(("name_wrong:after_cmdline_change", f"name() -> {res2[1]!r} after argv[0] became {argv0!r}; want {sorted(w2)!r} "
                                                             f"(first answer {r_name!r}) comm={comm_b!r}"))
    acc.case(case, nontrivial(case, tmp), viols)


def run_threads_case(cases, seed, acc):
    """Four threads ask cmdline / environ / exe / cwd / name of *different* simulated processes at once (static table)."""
    from vlib import concur
    env = setup()
    ps, vkernel, ProcTable, tmp = env["ps"], env["vkernel"], env["ProcTable"], env["tmp"]
    t = ProcTable(btime=1_700_000_000)
    t.spawn(1, 1, ppid=0, comm=b"init")
    pids = []
    for k, case in enumerate(cases):
        pid = 400 + k
        p = t.spawn(pid, 4242 + k, ppid=1, comm=_b(case["comm"]))
        p.cmdline = render_cmdline(case["cmd"], tmp)
        p.environ = render_environ(case["env"])
        p.exe = render_link(case["exe"], tmp)
        p.cwd = render_link(case["cwd"], tmp)
        pids.append(pid)
    vk = vkernel.VK()
    vk.table = t
    vk.mount("/vproc", t)
    with vk:
        jobs = {}
        for pid in pids:
            for m in ("cmdline", "environ", "exe", "cwd", "name"):
                jobs[f"{m}@{pid}"] = lambda pid=pid, m=m: getattr(ps.Process(pid), m)()
        _b2, errors, wrong = concur.concurrent_vs_sequential(jobs, seed, calls=60)
    acc.count("call_path_comparisons", 240)
    acc.count("concurrent_calls_compared", 240)
    acc.case(dict(kind="threads", seed=seed), True, concur.violations(errors, wrong))


# ---- live kernel: real children with hostile argv / environment / names, deleted exe and cwd -----------------------

def run_live(shard, acc):
    import shutil as _sh
    import subprocess
    import sys
    import time
    ps = setup()["ps"]
    ps.PROCFS_PATH = "/proc"
    tmp = tempfile.mkdtemp(prefix="c12live_")
    envbase = {k: v for k, v in os.environ.items() if k != "LD_PRELOAD"}
    viols = []
    kids = []
    sleeper = "import sys, time\nprint('up', flush=True)\nwhile True: time.sleep(1000)"
    try:
        # interpreters reachable under names of our choosing
        longname = os.path.join(tmp, "a-rather-long-process-name")
        os.symlink(sys.executable, longname)
        fifteen = os.path.join(tmp, "exactly15chars_")
        os.symlink(sys.executable, fifteen)
        spaced_dir = os.path.join(tmp, "dir with space")
        os.mkdir(spaced_dir)
        spaced = os.path.join(spaced_dir, "my prog")
        os.symlink(sys.executable, spaced)
        copy = os.path.join(tmp, "pycopy")
        _sh.copy2(os.path.realpath(sys.executable), copy)
        workdir = os.path.join(tmp, "cwd to delete")
        os.mkdir(workdir)
        specs = [
            dict(tag="plain", argv=[sys.executable, "-S", "-c", sleeper, "a", "b c", "", "tail"]),
            dict(tag="long_name", argv=[longname, "-S", "-c", sleeper]),
            dict(tag="fifteen", argv=[fifteen, "-S", "-c", sleeper]),
            dict(tag="spaced", argv=[spaced, "-S", "-c", sleeper, "x y", "--opt=1 2"]),
            dict(tag="bytes", argv=[os.fsencode(sys.executable), b"-S", b"-c", sleeper.encode(), b"caf\xe9", b"cr\rlf\n", b"tab\there"],
                 env={b"WEIRD": b"v\xff\rx", b"EMPTY": b"", b"EQ": b"a=b=c", b"NL": b"1\n2"}),
            dict(tag="deleted_exe", argv=[copy, "-S", "-c", sleeper], unlink_exe=True),
            dict(tag="deleted_cwd", argv=[sys.executable, "-S", "-c", sleeper], cwd=workdir, rmdir_cwd=True),
        ]
        for sp in specs:
            env = dict(envbase)
            if sp.get("env"):
                env = {os.fsencode(k): os.fsencode(v) for k, v in envbase.items()}
                env.update(sp["env"])
            k = subprocess.Popen(sp["argv"], env=env, cwd=sp.get("cwd"), stdout=subprocess.PIPE, stdin=subprocess.DEVNULL)
            kids.append(k)
            if not k.stdout.readline():
                acc.inconclusive = f"live child {sp['tag']} did not start"
                return
            if sp.get("unlink_exe"):
                os.unlink(copy)
            if sp.get("rmdir_cwd"):
                os.rmdir(workdir)
            pid = k.pid
            # the kernel's own records, read independently
            with open(f"/proc/{pid}/cmdline", "rb") as f:
                raw_cmd = f.read()
            with open(f"/proc/{pid}/environ", "rb") as f:
                raw_env = f.read()
            with open(f"/proc/{pid}/comm", "rb") as f:
                comm_b = f.read().rstrip(b"\n")
            link_exe = os.readlink(f"/proc/{pid}/exe")
            link_cwd = os.readlink(f"/proc/{pid}/cwd")
            want_cmd = [os.fsdecode(a) for a in raw_cmd.split(b"\0")[:-1]]
            want_env = {}
            for ent in raw_env.split(b"\0"):
                if b"=" in ent:
                    kk, vv = ent.split(b"=", 1)
                    want_env.setdefault(os.fsdecode(kk), os.fsdecode(vv))
            pr = ps.Process(pid)
            acc.count("cmdline_compared")
            got = pr.cmdline()
            if got != want_cmd:
                viols.append((f"live:cmdline_wrong:{sp['tag']}", f"got {got!r} want {want_cmd!r}"))
            acc.count("environ_compared")
            gote = pr.environ()
            # duplicates cannot be produced through execve from Python; last-wins vs first-wins is not exercised here
            if gote != want_env:
                diff = {kk: (gote.get(kk), want_env.get(kk)) for kk in set(gote) | set(want_env) if gote.get(kk) != want_env.get(kk)}
                viols.append((f"live:environ_wrong:{sp['tag']}", f"{str(diff)[:400]}"))
            acc.count("exe_compared")
            gx = pr.exe()
            okx = {link_exe}
            if link_exe.endswith(" (deleted)"):
                okx = {link_exe, link_exe[:-10]}
            if gx not in okx:
                viols.append((f"live:exe_wrong:{sp['tag']}", f"got {gx!r} link {link_exe!r}"))
            acc.count("cwd_compared")
            gc_ = pr.cwd()
            okc = {link_cwd}
            if link_cwd.endswith(" (deleted)"):
                okc = {link_cwd, link_cwd[:-10]}
            if gc_ not in okc:
                viols.append((f"live:cwd_wrong:{sp['tag']}", f"got {gc_!r} link {link_cwd!r}"))
            acc.count("name_compared")
            wname, applied = want_name(comm_b, {tuple(want_cmd)})
            gn = pr.name()
            if gn not in wname:
                viols.append((f"live:name_wrong:{sp['tag']}", f"got {gn!r} want {sorted(wname)!r} comm={comm_b!r}"))
            if applied:
                acc.count("name_extension_applied")
            # the other call paths
            d = ps.Process(pid).as_dict(attrs=["cmdline", "environ", "exe", "cwd", "name"])
            acc.count("call_path_comparisons", 5)
            if (d["cmdline"], d["environ"], d["exe"], d["cwd"], d["name"]) != (got, gote, gx, gc_, gn):
                viols.append((f"live:differs_via_as_dict:{sp['tag']}", str(d)[:300]))
            acc.count("live_children_checked")
        # zombie: cmdline raises ZombieProcess, name() still answers
        z = kids[0]
        os.kill(z.pid, 9)
        time.sleep(0.2)
        pz = ps.Process(z.pid)
        if pz.status() == ps.STATUS_ZOMBIE:
            try:
                r = pz.cmdline()
                viols.append(("live:cmdline_zombie_not_raised", f"-> {r!r}"))
            except ps.ZombieProcess:
                acc.count("zombie_cmdline_raised")
            try:
                pz.name()
            except Exception as e:  # noqa: BLE001
                viols.append((f"live:name_exception:{type(e).__name__}", "zombie"))
    finally:
        for k in kids:
            try:
                k.kill()
            except Exception:  # noqa: BLE001
                pass
            k.wait()
            k.stdout.close()
        _sh.rmtree(tmp, ignore_errors=True)
    acc.case(dict(kind="live"), True, viols)


def plan(tier, seed):
    n = 40_000 if tier == "quick" else 3_000_000
    shards = [dict(kind="boundary")]
    for s, c in harness.split_range(n, 15 if tier == "quick" else 47):
        shards.append(dict(kind="gen", seed=seed, start=s, count=c))
    shards.append(dict(kind="live"))
    shards.append(dict(kind="threads", seed=seed, count=15 if tier == "quick" else 400))
    # an interpreter whose filesystem encoding is not UTF-8 (a service started with LC_ALL=C, UTF-8 mode and locale coercion
    # off): every string of the process still follows os.fsdecode()
    for s, c in harness.split_range(3000 if tier == "quick" else 150_000, 2 if tier == "quick" else 6):
        shards.append(dict(kind="gen", seed=seed, start=n + s, count=c, env=C_LOCALE_ENV))
    shards.append(dict(kind="boundary", env=C_LOCALE_ENV))
    shards.append(dict(kind="live", env=C_LOCALE_ENV))
    return shards


C_LOCALE_ENV = {"LC_ALL": "C", "LANG": "C", "PYTHONUTF8": "0", "PYTHONCOERCECLOCALE": "0"}


def shard_env(shard):
    return dict(shard.get("env") or {})


def run_shard(shard):
    acc = harness.Acc()
    setup()
    if shard.get("env"):
        if sys.getfilesystemencoding().lower().replace("-", "") == "utf8":
            raise RuntimeError("the C-locale shard runs with a UTF-8 filesystem encoding: the environment did not take effect")
        acc.count("shards_run_with_ascii_filesystem_encoding")
    if shard["kind"] == "boundary":
        for case in boundary_cases():
            run_case(case, acc)
        acc.count("boundary_cases", acc.evals)
    elif shard["kind"] == "gen":
        for i in range(shard["start"], shard["start"] + shard["count"]):
            run_case(gen_case(harness.rng_for(shard["seed"], "c12", i)), acc)
    elif shard["kind"] == "live":
        run_live(shard, acc)
    elif shard["kind"] == "threads":
        for i in range(shard["count"]):
            cs = [dict(gen_case(harness.rng_for(shard["seed"], "c12t", i, k)), zombie=False) for k in range(4)]
            run_threads_case(cs, shard["seed"] * 7919 + i, acc)
    elif shard["kind"] == "cases":
        for case in shard["cases"]:
            if case.get("kind") == "threads":
                cs = [dict(gen_case(harness.rng_for(case["seed"] // 7919, "c12t", case["seed"] % 7919, k)), zombie=False) for k in range(4)]
                run_threads_case(cs, case["seed"], acc)
            elif case.get("kind") == "live":
                run_live({}, acc)
            else:
                run_case(case, acc)
    return acc.result()
